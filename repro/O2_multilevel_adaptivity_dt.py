"""O2 (observation, no property of the list is tied to it): with two levels and Adaptivity only level 0 gets dt_new; SpreadStepSizesBlockwise
spreads per level, so the coarse level keeps its initial dt for the whole run (FAS tau keeps the fixed point, the coarse correction is
computed on an interval of the wrong length).  Reported by the C06 round-3 seeding sub-agent; prints the per-level dt of every step."""
import numpy as np
from pySDC.implementations.problem_classes.Van_der_Pol_implicit import vanderpol
from pySDC.implementations.sweeper_classes.generic_implicit import generic_implicit
from pySDC.implementations.controller_classes.controller_nonMPI import controller_nonMPI
from pySDC.implementations.convergence_controller_classes.adaptivity import Adaptivity
from pySDC.implementations.transfer_classes.TransferMesh_NoCoarse import mesh_to_mesh
from pySDC.core.hooks import Hooks

class H(Hooks):
    seen = []
    def post_step(self, step, level_number):
        super().post_step(step, level_number)
        H.seen.append(tuple(L.params.dt for L in step.levels) + (step.time, step.dt))

desc = dict(problem_class=vanderpol, problem_params=dict(mu=5., newton_tol=1e-10, newton_maxiter=50, u0=np.array([2., 0.])),
            sweeper_class=generic_implicit, sweeper_params=dict(num_nodes=[3, 2], quad_type='RADAU-RIGHT', QI='LU'),
            level_params=dict(dt=0.05), step_params=dict(maxiter=4),
            space_transfer_class=mesh_to_mesh, space_transfer_params={},
            convergence_controllers={Adaptivity: dict(e_tol=1e-6)})
c = controller_nonMPI(1, dict(logger_level=40, hook_class=[H], mssdc_jac=False), desc)
P = c.MS[0].levels[0].prob
c.run(P.u_exact(0), 0., 0.5)
bad = [s for s in H.seen if abs(s[0]-s[1]) > 1e-14]
print(len(H.seen), 'steps;', len(bad), 'with differing level dt; first:', bad[:3])
