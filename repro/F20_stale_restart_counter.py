"""F20 (same family as F16): BasicRestartingNonMPI.prepare_next_block does not assign a restart counter to every slot of the next
block.  With 3 steps per block: block [0,1,2] is restarted from its first step (all three steps get counter 1), the repetition is
accepted for step 0 but step 1 requests a restart, so the next block is [1,2,3].  The step starting at t=3 is computed for the
first time, yet slot 2 keeps the counter 1 of its previous occupant: its records are keyed num_restarts=1 and it is one restart
closer to the max_restarts limit.  Exit 0 iff every step that is computed for the first time carries restarts_in_a_row == 0."""
import sys
import numpy as np
from pySDC.core.hooks import Hooks
from pySDC.core.convergence_controller import ConvergenceController
from pySDC.implementations.problem_classes.TestEquation_0D import testequation0d
from pySDC.implementations.sweeper_classes.generic_implicit import generic_implicit
from pySDC.implementations.convergence_controller_classes.basic_restarting import BasicRestarting
from pySDC.implementations.controller_classes.controller_nonMPI import controller_nonMPI

dt = 1.0
plan = [(0.0, 0), (1.0, 1)]  # (start time of the step that asks for a restart, how many attempts of that time it has seen before)


class ArtificialRestarts(ConvergenceController):
    def __init__(self, controller, params, description, **kwargs):
        super().__init__(controller, params, description, **kwargs)
        self.plan = list(plan)
        self.seen = {}

    def determine_restart(self, controller, S, **kwargs):
        super().determine_restart(controller, S, **kwargs)
        if S.status.iter < S.params.maxiter:
            return None
        n = self.seen.get(S.time, 0)
        self.seen[S.time] = n + 1
        if (S.time, n) in self.plan:
            S.status.restart = True


class Truth(Hooks):
    attempts = {}
    log = []

    def post_step(self, step, level_number):
        super().post_step(step, level_number)
        t = step.levels[0].time
        n = type(self).attempts.get(t, 0)
        type(self).attempts[t] = n + 1
        type(self).log.append((t, n, step.status.get('restarts_in_a_row'), step.status.slot))


description = {
    'problem_class': testequation0d,
    'problem_params': {'lambdas': np.array([-1.0]), 'u0': 1.0},
    'sweeper_class': generic_implicit,
    'sweeper_params': {'quad_type': 'RADAU-RIGHT', 'num_nodes': 2, 'QI': 'IE'},
    'level_params': {'dt': dt, 'restol': -1},
    'step_params': {'maxiter': 2},
    'convergence_controllers': {BasicRestarting.get_implementation(useMPI=False): {'max_restarts': 10}, ArtificialRestarts: {}},
}
controller = controller_nonMPI(num_procs=3, controller_params={'logger_level': 40, 'hook_class': [Truth], 'mssdc_jac': False}, description=description)
P = controller.MS[0].levels[0].prob
controller.run(u0=P.u_exact(0.0), t0=0.0, Tend=6.0)
bad = [f'step at t={t} (slot {slot}) is attempted for the first time but carries restarts_in_a_row={r}' for t, n, r, slot in Truth.log if n == 0 and r != 0]
print(bad or 'first attempts carry counter 0')
sys.exit(1 if bad else 0)
