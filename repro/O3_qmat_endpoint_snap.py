"""O3 (observation, defect of the third-party dependency qmat, not of /repo): qmat/qcoeff/collocation.py snaps the first / last node to
the interval ends with np.allclose (default rtol 1e-5).  On a short interval at a large offset the snap fires although the nodes
are interior: Gauss(3) on [1000, 1000.0078125] gets the END POINTS as nodes while left_is_node / right_is_node stay False, and
delta_m[0] = 0.  Reported by the C05 round-3 seeding sub-agent.  C05's static rules look at /repo only and cannot see this."""
from pySDC.core.collocation import CollBase
c = CollBase(3, 1000.0, 1000.0078125, quad_type='GAUSS')
print('nodes', c.nodes, 'left_is_node', c.left_is_node, 'right_is_node', c.right_is_node, 'delta_m', c.delta_m)
ref = CollBase(3, 0.0, 0.0078125, quad_type='GAUSS').nodes + 1000.0
print('expected', ref)
raise SystemExit(0 if abs(c.nodes - ref).max() < 1e-9 else 1)
