"""F5 (C12): penningtrap.boris_solver(c, ...) must not modify its argument c. Exit 1 while it does."""
import sys
import numpy as np
from pySDC.implementations.problem_classes.PenningTrap_3D import penningtrap
from pySDC.implementations.datatype_classes.particles import particles, fields

P = penningtrap(omega_B=4.9, omega_E=25.0, u0=np.array([[10, 0, 0], [100, 0, 100], [1], [1]], dtype=object), nparts=1, sig=0.1)
u = P.u_init()
f_old = P.eval_f(u, 0.0)
f_new = fields(f_old)
f_new.magn[:] = 2.0 * f_old.magn   # time dependent B field: the c-term correction is non-zero
c = particles.velocity(P.init, val=1.0)
keep = np.array(c).copy()
P.boris_solver(c, 0.1, f_old, f_new, u)
d = float(np.max(np.abs(np.array(c) - keep)))
print('max change of the caller\'s c:', d)
sys.exit(1 if d > 0 else 0)
