"""F3 (C06): dt=0.1, t0=0, Tend=10 -> 101 accepted steps (absolute 10*eps activity threshold vs accumulated float time).
Exit 1 while the defect is present."""
import sys
import numpy as np
from pySDC.implementations.controller_classes.controller_nonMPI import controller_nonMPI
from pySDC.implementations.problem_classes.TestEquation_0D import testequation0d
from pySDC.implementations.sweeper_classes.generic_implicit import generic_implicit
from pySDC.helpers.stats_helper import get_sorted

description = {
    'problem_class': testequation0d, 'problem_params': {'lambdas': np.array([-1.0]), 'u0': 1.0},
    'sweeper_class': generic_implicit, 'sweeper_params': {'num_nodes': 2, 'quad_type': 'RADAU-RIGHT'},
    'level_params': {'dt': 0.1, 'restol': 1e-10}, 'step_params': {'maxiter': 3},
}
c = controller_nonMPI(1, {'logger_level': 40}, description)
P = c.MS[0].levels[0].prob
uend, stats = c.run(P.u_exact(0.0), 0.0, 10.0)
n = len(get_sorted(stats, type='niter'))
print('accepted steps:', n, '(smallest N with t0 + N*dt >= Tend is 100)')
sys.exit(1 if n != 100 else 0)
