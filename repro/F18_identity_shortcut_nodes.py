"""F18: BaseTransfer used the identity for Pcoll/Rcoll whenever both levels have the same NUMBER of collocation nodes, even when
the node SETS differ (e.g. fine RADAU-RIGHT, coarse LOBATTO, 3 nodes each - sweeper_params given per level).  The transfer then
does not reproduce polynomials: p(t) = t sampled on the coarse nodes is "prolonged" to its coarse-node values.
Exit 0 iff Pcoll/Rcoll reproduce polynomials of degree < number of source nodes for such a pair."""
import sys
import numpy as np
from pySDC.core.base_transfer import BaseTransfer
from pySDC.core.collocation import CollBase


class Obj:
    pass


def level(quad_type):
    L = Obj(); L.sweep = Obj(); L.prob = Obj()
    L.sweep.coll = CollBase(num_nodes=3, quad_type=quad_type)
    return L


class NoSpace:
    def __init__(self, fine_prob, coarse_prob, params):
        pass


fine, coarse = level('RADAU-RIGHT'), level('LOBATTO')
T = BaseTransfer(fine, coarse, {}, NoSpace, {})
tf, tc = fine.sweep.coll.nodes, coarse.sweep.coll.nodes
bad = []
for deg in range(3):
    if not np.allclose(T.Pcoll @ tc**deg, tf**deg):
        bad.append(f'Pcoll does not reproduce t^{deg}: {T.Pcoll @ tc**deg} vs {tf**deg}')
    if not np.allclose(T.Rcoll @ tf**deg, tc**deg):
        bad.append(f'Rcoll does not reproduce t^{deg}')
# same node sets: still the identity
T2 = BaseTransfer(fine, level('RADAU-RIGHT'), {}, NoSpace, {})
if not (np.allclose(T2.Pcoll, np.eye(3)) and np.allclose(T2.Rcoll, np.eye(3))):
    bad.append('identical node sets no longer give the identity')
print(bad or 'node transfer exact for equal counts / different sets')
sys.exit(1 if bad else 0)
