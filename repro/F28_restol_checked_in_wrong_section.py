"""F28 (HotRod part fixed in /repo 5b8da99; the extrapolation base class is known finding F28b): HotRod.check_parameters and EstimateExtrapolationErrorBase.check_parameters looked for `restol` in
description['step_params'], but restol is a LEVEL parameter (pySDC/core/level.py) - the check "needs constant order in time and hence
restol ... has to be smaller than 0" could never fire.  A residual-controlled run with the extrapolation estimator was accepted although
its steps do different numbers of iterations.  exit 0 = HotRod rejects the invalid set-up (repaired part); the line for the extrapolation estimator shows F28b."""
import numpy as np
from pySDC.implementations.problem_classes.TestEquation_0D import testequation0d
from pySDC.implementations.sweeper_classes.generic_implicit import generic_implicit
from pySDC.implementations.controller_classes.controller_nonMPI import controller_nonMPI
from pySDC.implementations.convergence_controller_classes.estimate_extrapolation_error import EstimateExtrapolationErrorNonMPI
from pySDC.implementations.convergence_controller_classes.hotrod import HotRod

bad = []
for cc in (EstimateExtrapolationErrorNonMPI, HotRod):
    desc = dict(problem_class=testequation0d, problem_params=dict(lambdas=np.array([-1.0]), u0=1.0),
                sweeper_class=generic_implicit, sweeper_params=dict(num_nodes=3, quad_type='RADAU-RIGHT', QI='LU'),
                level_params=dict(dt=0.1, restol=1e-8), step_params=dict(maxiter=5),
                convergence_controllers={cc: ({'HotRod_tol': 1.0} if cc is HotRod else {})})
    try:
        controller_nonMPI(1, dict(logger_level=40, mssdc_jac=False), desc)
        bad.append(cc.__name__)
        print(f'{cc.__name__}: level_params restol=1e-8 ACCEPTED (the constant-order check never fires)')
    except AssertionError as e:
        print(f'{cc.__name__}: rejected - {str(e)[:90]}')
raise SystemExit(1 if 'HotRod' in bad else 0)
