"""F32 (C13): eval_f of swfw_scalar and acoustic_1d_imex bound their results as instance attributes (`f.impl = ...`) of the
imex_mesh instead of writing them through the component views (`f.impl[:] = ...`).  The buffer of the returned object stayed zero:
the sweeper (which reads f.impl) saw the values, but every copy, arithmetic result or transfer of the right-hand side was zero.
Exit 1 on the defective tree, 0 on the repaired one.  Run: cd /repo && PYTHONPATH=/repo /venv/bin/python /verif/repro/F32_component_rebound.py"""
import sys
import numpy as np
from pySDC.implementations.problem_classes.FastWaveSlowWave_0D import swfw_scalar
from pySDC.implementations.problem_classes.AcousticAdvection_1D_FD_imex import acoustic_1d_imex

bad = 0
for P in (swfw_scalar(lambda_s=np.array([-1.0, -2.0]), lambda_f=np.array([-10.0]), u0=1.0), acoustic_1d_imex()):
    u = P.u_exact(0.0)
    f = P.eval_f(u, 0.0)
    g = P.dtype_f(f)  # copy construction, as in base_transfer (fold), initial_guess='copy', the MPI send buffers
    h = f + 0.0 * f  # arithmetic, as in prolong_f
    for name, other in (('copy', g), ('sum', h)):
        for c in ('impl', 'expl'):
            d = np.linalg.norm(np.asarray(getattr(f, c)) - np.asarray(getattr(other, c)))
            if d > 1e-14 * max(1.0, np.linalg.norm(np.asarray(getattr(f, c)))):
                print(f'{type(P).__name__}: {name} of eval_f(u).{c} differs from eval_f(u).{c} by {d:.3e}')
                bad = 1
sys.exit(bad)
