"""F10 / F14 (C14): eval_f of these classes never ticks work_counters['rhs'] although the counter is registered.
Exit 1 while any of them reports 0 after 3 evaluations."""
import sys
from pySDC.implementations.problem_classes.AdvectionDiffusionEquation_1D_FFT import advectiondiffusion1d_implicit, advectiondiffusion1d_imex
from pySDC.implementations.problem_classes import AllenCahn_2D_FD as AC

bad = 0
for cls, kw in [(advectiondiffusion1d_imex, dict(nvars=16)), (advectiondiffusion1d_implicit, dict(nvars=16)),
                (AC.allencahn_fullyimplicit, dict(nvars=(16, 16))), (AC.allencahn_semiimplicit, dict(nvars=(16, 16))),
                (AC.allencahn_semiimplicit_v2, dict(nvars=(16, 16))), (AC.allencahn_multiimplicit, dict(nvars=(16, 16))),
                (AC.allencahn_multiimplicit_v2, dict(nvars=(16, 16)))]:
    P = cls(**kw)
    u = P.u_exact(0.0)
    for _ in range(3):
        P.eval_f(u, 0.0)
    n = P.work_counters['rhs'].niter
    print(f'{cls.__name__:32s} 3 x eval_f -> work_counters[rhs] = {n}')
    bad += n != 3
sys.exit(1 if bad else 0)
