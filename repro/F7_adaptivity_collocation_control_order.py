"""F7 (C20): user-supplied parameters of a convergence controller override its defaults - except that
AdaptivityCollocation.setup puts 'control_order': 220 AFTER the user part. Exit 1 while the user value is ignored."""
import sys
import numpy as np
from pySDC.implementations.controller_classes.controller_nonMPI import controller_nonMPI
from pySDC.implementations.problem_classes.TestEquation_0D import testequation0d
from pySDC.implementations.sweeper_classes.generic_implicit import generic_implicit
from pySDC.implementations.convergence_controller_classes.adaptivity import Adaptivity, AdaptivityCollocation

def order_of(cls, params):
    description = {
        'problem_class': testequation0d, 'problem_params': {'lambdas': np.array([-1.0]), 'u0': 1.0},
        'sweeper_class': generic_implicit, 'sweeper_params': {'num_nodes': 2, 'quad_type': 'RADAU-RIGHT'},
        'level_params': {'dt': 0.1, 'restol': -1 if cls is Adaptivity else 1e-10}, 'step_params': {'maxiter': 3},
        'convergence_controllers': {cls: params},
    }
    c = controller_nonMPI(1, {'logger_level': 40, 'mssdc_jac': False}, description)
    return [C.params.control_order for C in c.convergence_controllers if type(C) is cls][0]

a = order_of(Adaptivity, {'e_tol': 1e-5, 'control_order': -60})
b = order_of(AdaptivityCollocation, {'e_tol': 1e-5, 'control_order': 5, 'adaptive_coll_params': {'num_nodes': [2, 3]}})
print('Adaptivity honours the user value:', a, ' AdaptivityCollocation (user asked for 5):', b)
sys.exit(1 if b != 5 else 0)
