"""F23: the MultiStep sweepers keep their history cache (times, values, right-hand sides of the previous steps) on the sweeper
instance; predict() only fills it when it is completely empty, nothing resets it at the start of run().  A second run() on the
same controller (same u0, t0, Tend) therefore starts from the history of the FIRST run: the same description does not give the
same run on the same controller, and the second answer is wrong.
Exit 0 iff two identical runs on one controller agree."""
import sys
import numpy as np
from pySDC.implementations.problem_classes.TestEquation_0D import testequation0d
from pySDC.implementations.sweeper_classes.Multistep import AdamsMoultonImplicit2Step
from pySDC.implementations.controller_classes.controller_nonMPI import controller_nonMPI

description = {
    'problem_class': testequation0d,
    'problem_params': {'lambdas': np.array([-1.0]), 'u0': 1.0},
    'sweeper_class': AdamsMoultonImplicit2Step,
    'sweeper_params': {},
    'level_params': {'dt': 0.1},
    'step_params': {'maxiter': 1},
}
controller = controller_nonMPI(num_procs=1, controller_params={'logger_level': 40}, description=description)
P = controller.MS[0].levels[0].prob
u1, _ = controller.run(u0=P.u_exact(0.0), t0=0.0, Tend=0.5)
u2, _ = controller.run(u0=P.u_exact(0.0), t0=0.0, Tend=0.5)
fresh = controller_nonMPI(num_procs=1, controller_params={'logger_level': 40}, description=description)
u3, _ = fresh.run(u0=P.u_exact(0.0), t0=0.0, Tend=0.5)
d12, d13 = float(abs(u1 - u2)), float(abs(u1 - u3))
print(f'first run {u1}, second run on the same controller {u2} (difference {d12:.3e}); fresh controller difference {d13:.3e}; exact {np.exp(-0.5):.6f}')
sys.exit(1 if d12 > 1e-12 or d13 > 1e-12 else 0)
