"""F26 (fixed in /repo afa42f8): EstimateExtrapolationErrorNonMPI kept the history of a finished run; a second run on the same
controller crashed with IndexError (before the fix) - now it repeats the first run bit for bit.  exit 0 = repaired behaviour."""
import numpy as np
from pySDC.implementations.problem_classes.TestEquation_0D import testequation0d
from pySDC.implementations.sweeper_classes.generic_implicit import generic_implicit
from pySDC.implementations.controller_classes.controller_nonMPI import controller_nonMPI
from pySDC.implementations.convergence_controller_classes.estimate_extrapolation_error import EstimateExtrapolationErrorNonMPI
from pySDC.implementations.hooks.log_extrapolated_error_estimate import LogExtrapolationErrorEstimate
from pySDC.helpers.stats_helper import get_sorted

def mk():
    desc = dict(problem_class=testequation0d, problem_params=dict(lambdas=np.array([-1.0]), u0=1.0),
                sweeper_class=generic_implicit, sweeper_params=dict(num_nodes=3, quad_type='RADAU-RIGHT', QI='LU'),
                level_params=dict(dt=0.1), step_params=dict(maxiter=3),
                convergence_controllers={EstimateExtrapolationErrorNonMPI: {}})
    return controller_nonMPI(1, dict(logger_level=40, hook_class=[LogExtrapolationErrorEstimate], mssdc_jac=False), desc)

c = mk()
P = c.MS[0].levels[0].prob
u1, s1 = c.run(P.u_exact(0), 0., 1.0)
u2, s2 = c.run(P.u_exact(0), 0., 1.0)
c2 = mk()
u3, s3 = c2.run(P.u_exact(0), 0., 1.0)
e1 = get_sorted(s1, type='error_extrapolation_estimate')
e2 = get_sorted(s2, type='error_extrapolation_estimate')
e3 = get_sorted(s3, type='error_extrapolation_estimate')
print('run1', e1[:3], len(e1)); print('run2', e2[:3], len(e2)); print('fresh', e3[:3], len(e3))
ok = e1 == e2 == e3 and np.array_equal(u1, u2)
print('same controller repeat identical:', e1 == e2, ' fresh identical to run1:', e1 == e3, ' u same', np.array_equal(u1, u2))
raise SystemExit(0 if ok else 1)
