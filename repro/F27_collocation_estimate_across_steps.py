"""F27 (fixed in /repo 22d0d59): EstimateEmbeddedErrorCollocation never cleared its list of converged collocation solutions: the first
estimate of every later step compared solutions of DIFFERENT steps (0.086 instead of 1e-6) and a second run on the same controller
logged an extra record.  exit 0 = repaired behaviour."""
import numpy as np
from pySDC.implementations.problem_classes.TestEquation_0D import testequation0d
from pySDC.implementations.sweeper_classes.generic_implicit import generic_implicit
from pySDC.implementations.controller_classes.controller_nonMPI import controller_nonMPI
from pySDC.implementations.convergence_controller_classes.estimate_embedded_error import EstimateEmbeddedErrorCollocation
from pySDC.implementations.hooks.log_embedded_error_estimate import LogEmbeddedErrorEstimatePostIter
from pySDC.helpers.stats_helper import get_sorted

def mk():
    desc = dict(problem_class=testequation0d, problem_params=dict(lambdas=np.array([-1.0]), u0=1.0),
                sweeper_class=generic_implicit, sweeper_params=dict(num_nodes=3, quad_type='RADAU-RIGHT', QI='LU'),
                level_params=dict(dt=0.1, restol=1e-10), step_params=dict(maxiter=99),
                convergence_controllers={EstimateEmbeddedErrorCollocation: dict(adaptive_coll_params=dict(num_nodes=[2, 3]))})
    return controller_nonMPI(1, dict(logger_level=40, hook_class=[LogEmbeddedErrorEstimatePostIter]), desc)

def recs(s):
    return sorted((k.time, k.iter, v) for k, v in s.items() if k.type.startswith('error_embedded_estimate_collocation'))

c = mk()
P = c.MS[0].levels[0].prob
u1, s1 = c.run(P.u_exact(0), 0., 0.3)
u2, s2 = c.run(P.u_exact(0), 0., 0.3)
r1, r2 = recs(s1), recs(s2)
print('run 1:', r1)
print('run 2:', r2)
# (a) within a run: an estimate compares two collocation solutions of the SAME step, so it is small (both approximate u(t+dt))
cross = [r for r in r1 if r[2] > 1e-2]
print('estimates that compare solutions of different steps (O(dt) instead of O(dt^4)):', cross)
print('repeat on the same controller identical:', r1 == r2)
raise SystemExit(0 if (r1 == r2 and not cross) else 1)
