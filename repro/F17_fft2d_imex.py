"""F17: mesh_to_mesh_fft2d with imex_mesh data.  imex_mesh is a subclass of mesh, so `isinstance(F, mesh)` shadowed the imex arms:
restrict/prolong sliced the COMPONENT axis and raised; the (unreachable) imex arm of prolong built its result from the coarse
data, allocated with the whole init tuple and scaled the expl component differently from the impl component.
Exit 0 iff imex data are transferred component by component exactly like mesh data."""
import sys
import numpy as np
from pySDC.implementations.transfer_classes.TransferMesh_FFT2D import mesh_to_mesh_fft2d
from pySDC.implementations.datatype_classes.mesh import mesh, imex_mesh


class P:
    pass


f = P(); f.init = ((8, 8), None, np.dtype('float64')); f.nvars = (8, 8)
c = P(); c.init = ((4, 4), None, np.dtype('float64')); c.nvars = (4, 4)
T = mesh_to_mesh_fft2d(f, c, {})
rng = np.random.default_rng(1)
bad = []
try:
    G = imex_mesh(c.init); G.impl[:] = rng.random((4, 4)); G.expl[:] = rng.random((4, 4))
    F = T.prolong(G)
    for comp in ('impl', 'expl'):
        g = mesh(c.init); g[:] = getattr(G, comp)
        if not (type(F) is imex_mesh and np.allclose(getattr(F, comp), T.prolong(g))):
            bad.append(f'prolong {comp} differs from the mesh prolongation of that component')
    Fi = imex_mesh(f.init); Fi.impl[:] = rng.random((8, 8)); Fi.expl[:] = rng.random((8, 8))
    R = T.restrict(Fi)
    for comp in ('impl', 'expl'):
        m = mesh(f.init); m[:] = getattr(Fi, comp)
        if not (type(R) is imex_mesh and np.allclose(getattr(R, comp), T.restrict(m))):
            bad.append(f'restrict {comp} differs')
except Exception as e:
    bad.append(f'raises {type(e).__name__}: {e}')
print(bad or 'imex_mesh handled per component')
sys.exit(1 if bad else 0)
