"""F11 (C12): piline.u_exact(t, u_init, t_init) must not modify or return the caller's u_init. Exit 1 while it does."""
import sys
import numpy as np
from pySDC.implementations.problem_classes.Piline import piline

P = piline()
u0 = P.u_exact(0.0)
u0[:] = [1.0, 0.5, -0.25]
keep = np.array(u0).copy()
res = P.u_exact(0.1, u_init=u0, t_init=0.0)
changed = not np.array_equal(np.array(u0), keep)
print('caller u_init changed:', changed, ' result is u_init:', res is u0)
sys.exit(1 if (changed or res is u0) else 0)
