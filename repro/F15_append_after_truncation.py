"""F15 (C16): after an append was cut off, fields appended after re-opening must be read back exactly.
FieldsIO.addField opens with "ab" and writes at the end of the file, i.e. AFTER the incomplete record: every later
record is misaligned. Exit 1 while the re-appended field is not read back bit-exactly."""
import os, sys, tempfile
import numpy as np
from pySDC.helpers.fieldsIO import FieldsIO, Scalar

d = tempfile.mkdtemp()
fn = os.path.join(d, 'f.pysdc')
f = Scalar(np.float64, fn)
f.setHeader(nVar=4)
f.initialize()
u = [np.arange(4, dtype=np.float64) + 10 * k for k in range(3)]
f.addField(0.0, u[0])
f.addField(1.0, u[1])
size = os.path.getsize(fn)
f.addField(2.0, u[2])
with open(fn, 'r+b') as fh:        # simulate a crash in the middle of the third append
    fh.truncate(size + 13)
g = FieldsIO.fromFile(fn)          # re-open in a "new process"
ok_prefix = g.nFields == 2 and np.array_equal(g.readField(1)[1], u[1])
g.addField(2.0, u[2])              # append again after re-opening
t, v = g.readField(-1)
print('complete records before re-append intact:', ok_prefix, '| nFields now', g.nFields, '| last record read back:', t, v)
bad = not (ok_prefix and g.nFields == 3 and t == 2.0 and np.array_equal(v, u[2]))
sys.exit(1 if bad else 0)
