"""F24: after a run whose final block is only partly filled, steps that were active in an EARLIER block keep status.last = True
(restart_block resets the flags of the active steps only) and post_run is emitted for every step of the controller.
LogGlobalErrorPostRun therefore writes a second 'e_global_post_run' record from the stale step: its uend belongs to the end of
the previous block but is compared with the exact solution at the final time.
Exit 0 iff exactly one e_global_post_run record exists and it is the error of the value run() returned."""
import sys
import numpy as np
from pySDC.implementations.problem_classes.TestEquation_0D import testequation0d
from pySDC.implementations.sweeper_classes.generic_implicit import generic_implicit
from pySDC.implementations.controller_classes.controller_nonMPI import controller_nonMPI
from pySDC.implementations.hooks.log_errors import LogGlobalErrorPostRun
from pySDC.helpers.stats_helper import get_sorted

description = {
    'problem_class': testequation0d,
    'problem_params': {'lambdas': np.array([-1.0]), 'u0': 1.0},
    'sweeper_class': generic_implicit,
    'sweeper_params': {'quad_type': 'RADAU-RIGHT', 'num_nodes': 3, 'QI': 'IE'},
    'level_params': {'dt': 0.1, 'restol': 1e-12},
    'step_params': {'maxiter': 30},
}
controller = controller_nonMPI(num_procs=3, controller_params={'logger_level': 40, 'hook_class': [LogGlobalErrorPostRun], 'mssdc_jac': False}, description=description)
P = controller.MS[0].levels[0].prob
uend, stats = controller.run(u0=P.u_exact(0.0), t0=0.0, Tend=0.4)  # 4 steps on 3 processes: the last block has one active step
rec = get_sorted(stats, type='e_global_post_run', sortby='process')
true_err = float(abs(uend - P.u_exact(0.4)))
print('records (process, value):', [(p, float(v)) for p, v in rec], ' error of the returned value:', true_err)
ok = len(rec) == 1 and abs(rec[0][1] - true_err) < 1e-14
sys.exit(0 if ok else 1)
