"""F31 (fixed in /repo): AdaptiveCollocation.switch_sweeper re-evaluates the right-hand side at ALL nodes of the new collocation with
the time of the START of the step (`eval_f(L.u[i], L.time)`), so for a non-autonomous problem the stored f[i] is not F(u[i], t_i):
the first sweep and the residual after a switch work with right-hand sides of the wrong time.  Every other place that fills f[i]
(Sweeper.predict, BaseTransfer.restrict / prolong, the sweepers) pairs node i with t + dt*nodes[i-1].  exit 0 = consistent."""
import numpy as np
from pySDC.implementations.problem_classes.HeatEquation_ND_FD import heatNd_forced
from pySDC.implementations.sweeper_classes.imex_1st_order import imex_1st_order
from pySDC.implementations.controller_classes.controller_nonMPI import controller_nonMPI
from pySDC.implementations.convergence_controller_classes.adaptive_collocation import AdaptiveCollocation

desc = dict(problem_class=heatNd_forced, problem_params=dict(nvars=(31,), nu=0.1, freq=(2,), bc='dirichlet-zero'),
            sweeper_class=imex_1st_order, sweeper_params=dict(num_nodes=2, quad_type='RADAU-RIGHT', QI='LU'),
            level_params=dict(dt=0.5, restol=1e-9), step_params=dict(maxiter=20),
            convergence_controllers={AdaptiveCollocation: dict(num_nodes=[2, 3])})
c = controller_nonMPI(1, dict(logger_level=40), desc)
S = c.MS[0]
L = S.levels[0]
P = L.prob
L.status.time = 0.25
S.init_step(P.u_exact(0.25))
L.sweep.predict()
C = [x for x in c.convergence_controllers if isinstance(x, AdaptiveCollocation)][0]
C.status.active_coll = 1
S.status.slot = 0
C.switch_sweeper(S)
worst = 0.0
for i in range(1, L.sweep.coll.num_nodes + 1):
    t_i = L.time + L.dt * L.sweep.coll.nodes[i - 1]
    f = P.eval_f(L.u[i], t_i)
    worst = max(worst, float(abs(np.asarray(f.expl - L.f[i].expl)).max()), float(abs(np.asarray(f.impl - L.f[i].impl)).max()))
print(f'largest difference between the stored f[i] and F(u[i], t_i) after the switch: {worst:.3e}')
raise SystemExit(0 if worst < 1e-12 else 1)
