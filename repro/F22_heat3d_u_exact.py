"""F22: heatNd_unforced.u_exact in 3-D: the middle term of the decay rate rho lacks `/ dx**2`, so the "exact" solution of the
semi-discrete problem decays at the wrong rate: d/dt u_exact != eval_f(u_exact) (C12: a closed-form solution's time derivative
equals the right-hand side along it).  Found by a seeding sub-agent while writing a demonstration for C18.
Exit 0 iff the time derivative of u_exact matches the right-hand side in 1, 2 and 3 dimensions."""
import sys
import numpy as np
from pySDC.implementations.problem_classes.HeatEquation_ND_FD import heatNd_unforced

bad = []
for ndim, nvars, freq in ((1, (15,), (2,)), (2, (15, 15), (2, 4)), (3, (7, 7, 7), (2, 4, 2))):
    P = heatNd_unforced(nvars=nvars, nu=0.1, freq=freq, bc='dirichlet-zero', order=2)
    t, h = 0.3, 1e-6
    dudt = (P.u_exact(t + h) - P.u_exact(t - h)) / (2 * h)
    rhs = P.eval_f(P.u_exact(t), t)
    err = abs(dudt - rhs) / max(abs(rhs), 1e-300)
    if err > 1e-6:
        bad.append(f'{ndim}-d: |d/dt u_exact - f(u_exact)| / |f| = {err:.3e}')
print(bad or 'u_exact solves the semi-discrete problem in 1, 2 and 3 dimensions')
sys.exit(1 if bad else 0)
