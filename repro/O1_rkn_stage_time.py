"""O1 (observation, not a violation of a listed property for its quantified inputs): RungeKuttaNystrom.update_nodes evaluates
f(u[m+1]) at the time of the PREVIOUS stage (`self.coll.nodes[m]`; the node array carries a leading 0, every other use in the
same function takes nodes[m + 1] / nodes[j] for stage m+1 / j).  With the classic RKN tableau c = (0, 1/2, 1/2, 1) the second
stage is evaluated at t instead of t + dt/2.  Invisible for autonomous problems (all shipped second-order problems and the
linear test equation of C04).  This script records the times handed to eval_f during one RKN step.
Exit 0 iff every stage derivative is evaluated at t + c_m dt."""
import sys
import numpy as np
from pySDC.projects.Second_orderSDC.penningtrap_params import penningtrap_params
from pySDC.implementations.sweeper_classes.Runge_Kutta_Nystrom import RKN
from pySDC.implementations.controller_classes.controller_nonMPI import controller_nonMPI

controller_params, description = penningtrap_params()
controller_params['logger_level'] = 40
controller_params['hook_class'] = []
description['sweeper_class'] = RKN
description['step_params'] = {'maxiter': 1}
dt = 0.1
description['level_params']['dt'] = dt
controller = controller_nonMPI(num_procs=1, controller_params=controller_params, description=description)
L = controller.MS[0].levels[0]
P = L.prob
seen = []
orig = P.eval_f


def spy(u, t):
    stage = [k for k in range(len(L.u)) if L.u[k] is u]
    seen.append((stage[0] if stage else None, round(float(t), 12)))
    return orig(u, t)


P.eval_f = spy
controller.run(u0=P.u_init(), t0=0.0, Tend=dt)
nodes = list(L.sweep.coll.nodes)  # [0, c_1, .., c_s]
print('tableau nodes (with leading 0):', nodes)
print('(stage, time handed to eval_f):', seen)
bad = [(k, t) for k, t in seen if k not in (None, 0) and abs(t - nodes[k] * dt) > 1e-12]
print(bad and f'stage derivative evaluated at the wrong time: {bad} (expected t + dt*c_stage)' or 'every stage derivative is evaluated at its own time')
sys.exit(1 if bad else 0)
