"""F12 (C14): LogWork.post_step records without refreshing the restart count of the step it records for.
In a multi-step block the hook object is shared: the last callback before post_step(S0) belongs to another step.
Exit 1 while work_* records carry a different num_restarts than the 'u' record of the same (process, time, iter)."""
import sys
import numpy as np
from pySDC.implementations.controller_classes.controller_nonMPI import controller_nonMPI
from pySDC.implementations.problem_classes.Van_der_Pol_implicit import vanderpol
from pySDC.implementations.sweeper_classes.generic_implicit import generic_implicit
from pySDC.implementations.convergence_controller_classes.adaptivity import Adaptivity
from pySDC.implementations.hooks.log_work import LogWork
from pySDC.implementations.hooks.log_solution import LogSolution

description = {
    'problem_class': vanderpol, 'problem_params': {'mu': 5.0, 'newton_tol': 1e-9, 'newton_maxiter': 99, 'u0': np.array([2.0, 0.0])},
    'sweeper_class': generic_implicit, 'sweeper_params': {'num_nodes': 3, 'quad_type': 'RADAU-RIGHT', 'QI': 'LU'},
    'level_params': {'dt': 0.5}, 'step_params': {'maxiter': 3},
    'convergence_controllers': {Adaptivity: {'e_tol': 1e-7}},
}
c = controller_nonMPI(4, {'logger_level': 40, 'hook_class': [LogWork, LogSolution], 'mssdc_jac': False}, description)
P = c.MS[0].levels[0].prob
uend, stats = c.run(P.u_exact(0.0), 0.0, 1.0)
u = {(k.process, k.time, k.iter): k.num_restarts for k in stats if k.type == 'u'}
bad = [(k.process, k.time, k.iter, k.num_restarts, u[(k.process, k.time, k.iter)]) for k in stats
       if k.type == 'work_rhs' and (k.process, k.time, k.iter) in u and u[(k.process, k.time, k.iter)] != k.num_restarts]
print('work_rhs records:', sum(k.type == 'work_rhs' for k in stats), ' mismatching num_restarts:', len(bad))
for b in bad[:5]:
    print('  process %d time %.4f iter %d: work_rhs has num_restarts=%d, u has %d' % b)
sys.exit(1 if bad else 0)
