"""F19: TransferMesh_NoCoarse.mesh_to_mesh.restrict/prolong with imex_mesh data: `isinstance(F, mesh)` comes first and imex_mesh
subclasses mesh, so the copy is made with mesh(F) and the result is a plain `mesh` - the data type (and with it .impl/.expl) is lost.
Exit 0 iff the transfer returns a new object of the argument's type with equal content."""
import sys
import numpy as np
from pySDC.implementations.transfer_classes.TransferMesh_NoCoarse import mesh_to_mesh
from pySDC.implementations.datatype_classes.mesh import mesh, imex_mesh


class P:
    init = ((4,), None, np.dtype('float64'))


T = mesh_to_mesh(P(), P(), {})
F = imex_mesh(P.init); F.impl[:] = 1.0; F.expl[:] = 2.0
bad = []
for name, op in (('restrict', T.restrict), ('prolong', T.prolong)):
    G = op(F)
    if type(G) is not imex_mesh:
        bad.append(f'{name} returns {type(G).__name__} for imex_mesh input')
    elif not (np.allclose(G.impl, 1.0) and np.allclose(G.expl, 2.0)) or G is F or np.shares_memory(G, F):
        bad.append(f'{name} wrong content / aliasing')
m = mesh(P.init); m[:] = 3.0
if type(T.restrict(m)) is not mesh:
    bad.append('mesh input no longer gives mesh')
print(bad or 'type preserved')
sys.exit(1 if bad else 0)
