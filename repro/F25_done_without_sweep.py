"""F25: `restart_block` initialises level.status.sweep = 1, so the guard `(iter > 0 or sweep > 0)` in check_convergence is true
before any sweep was done.  With a tolerance that the spread initial guess already meets, the step is declared finished at
iteration 0 without a single sweep: the returned value is the initial value copied to the end point.
Exit 0 iff every finished step has performed at least one sweep."""
import sys
import numpy as np
from pySDC.core.hooks import Hooks
from pySDC.implementations.problem_classes.TestEquation_0D import testequation0d
from pySDC.implementations.sweeper_classes.generic_implicit import generic_implicit
from pySDC.implementations.controller_classes.controller_nonMPI import controller_nonMPI
from pySDC.helpers.stats_helper import get_sorted


class CountSweeps(Hooks):
    sweeps = 0

    def post_sweep(self, step, level_number):
        super().post_sweep(step, level_number)
        type(self).sweeps += 1


description = {
    'problem_class': testequation0d,
    'problem_params': {'lambdas': np.array([-1.0]), 'u0': 1.0},
    'sweeper_class': generic_implicit,
    'sweeper_params': {'quad_type': 'RADAU-RIGHT', 'num_nodes': 3, 'QI': 'IE'},
    'level_params': {'dt': 0.1, 'restol': 0.5},  # the defect of the spread initial guess is about 0.1
    'step_params': {'maxiter': 10},
}
controller = controller_nonMPI(num_procs=1, controller_params={'logger_level': 40, 'hook_class': [CountSweeps]}, description=description)
P = controller.MS[0].levels[0].prob
uend, stats = controller.run(u0=P.u_exact(0.0), t0=0.0, Tend=0.1)
niter = [v for _, v in get_sorted(stats, type='niter')]
print(f'niter = {niter}, sweeps performed = {CountSweeps.sweeps}, returned {uend} (initial value {P.u_exact(0.0)}, exact {P.u_exact(0.1)})')
sys.exit(1 if CountSweeps.sweeps == 0 else 0)
