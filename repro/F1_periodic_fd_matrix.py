"""F1 (C18): periodic FD matrix for user-supplied offsets [-3,-1,1,3] must apply exactly the stencil returned by
get_finite_difference_stencil at every point, with periodic wrap. Exit 1 while it does not."""
import sys
import numpy as np
from pySDC.helpers.problem_helper import get_finite_difference_matrix, get_finite_difference_stencil

N, dx = 16, 1.0 / 16
steps = np.array([-3, -1, 1, 3])
A, _ = get_finite_difference_matrix(derivative=1, order=None, steps=steps, dx=dx, size=N, dim=1, bc='periodic')
coeff, st = get_finite_difference_stencil(derivative=1, steps=steps)
x = np.arange(N) * dx
u = np.sin(2 * np.pi * x)
direct = sum(c * np.roll(u, -s) for c, s in zip(coeff, st)) / dx
err = float(np.max(np.abs(A @ u - direct)))
print('max |A u - stencil applied directly| =', err)
sys.exit(1 if err > 1e-10 else 0)
