"""F2 (C03): imex_1st_order_mass.compute_residual must honour level_params['residual_type'] like its base class.
Exit 0 if the mass sweeper reports the same residual as imex_1st_order for a problem whose mass matrix is the identity."""
import sys
import numpy as np
from pySDC.core.step import Step
from pySDC.implementations.problem_classes.TestEquation_0D import test_equation_IMEX
from pySDC.implementations.sweeper_classes.imex_1st_order import imex_1st_order
from pySDC.implementations.sweeper_classes.imex_1st_order_mass import imex_1st_order_mass


class Stub(test_equation_IMEX):
    fix_bc_for_residual = False

    def apply_mass_matrix(self, u):
        return self.dtype_u(u)


def residual(sweeper, rtype):
    description = {
        'problem_class': Stub,
        'problem_params': {'lambdas_implicit': np.array([-10.0, -1.0]), 'lambdas_explicit': np.array([0.5, 3.0]), 'u0': 2.0},
        'sweeper_class': sweeper,
        'sweeper_params': {'num_nodes': 3, 'quad_type': 'LOBATTO'},
        'level_params': {'dt': 0.5, 'residual_type': rtype},
        'step_params': {'maxiter': 1},
    }
    S = Step(description)
    L = S.levels[0]
    S.init_step(L.prob.u_exact(0.0))
    L.status.time = 0.0
    L.sweep.predict()
    L.sweep.update_nodes()
    L.sweep.compute_residual()
    return L.status.residual


bad = 0
for rtype in ['full_abs', 'last_abs', 'full_rel', 'last_rel']:
    a, b = residual(imex_1st_order, rtype), residual(imex_1st_order_mass, rtype)
    print(f'{rtype}: imex_1st_order {a:.6e}  imex_1st_order_mass {b:.6e}')
    if not np.isclose(a, b, rtol=1e-12):
        bad += 1
try:
    residual(imex_1st_order_mass, 'no_such_type')
    print('unknown residual_type accepted silently')
    bad += 1
except Exception as e:
    print('unknown residual_type rejected:', type(e).__name__)
sys.exit(1 if bad else 0)
