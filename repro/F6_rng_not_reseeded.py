"""F6 (C19): repeating a fixed-step run on the SAME controller must give bit-identical results. With
initial_guess='random' the sweeper's RandomState is created once in __init__ and never re-seeded: exit 1 while the runs differ."""
import sys
import numpy as np
from pySDC.implementations.controller_classes.controller_nonMPI import controller_nonMPI
from pySDC.implementations.problem_classes.TestEquation_0D import testequation0d
from pySDC.implementations.sweeper_classes.generic_implicit import generic_implicit

description = {
    'problem_class': testequation0d, 'problem_params': {'lambdas': np.array([-1.0]), 'u0': 1.0},
    'sweeper_class': generic_implicit, 'sweeper_params': {'num_nodes': 3, 'quad_type': 'RADAU-RIGHT', 'initial_guess': 'random'},
    'level_params': {'dt': 0.1, 'restol': -1}, 'step_params': {'maxiter': 3},
}
c = controller_nonMPI(1, {'logger_level': 40}, description)
P = c.MS[0].levels[0].prob
u1, _ = c.run(P.u_exact(0.0), 0.0, 0.3)
u2, _ = c.run(P.u_exact(0.0), 0.0, 0.3)
d = float(abs(u1 - u2))
print('difference between two identical runs on one controller:', d)
sys.exit(1 if d != 0.0 else 0)
