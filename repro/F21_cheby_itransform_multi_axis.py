"""F21: ChebychevHelper.itransform (and UltrasphericalHelper, which inherits it) re-started from the input for every axis
(`_u = u.copy()` inside the axis loop), so with more than one axis only the LAST axis was normalised and
itransform(transform(u)) != u for 2-D / 3-D data (the default axes=None means all axes).  transform() accumulates correctly.
Exit 0 iff the round trip is the identity for 1, 2 and 3 axes."""
import sys
import numpy as np
from pySDC.helpers.spectral_helper import ChebychevHelper, UltrasphericalHelper

bad = []
rng = np.random.default_rng(0)
for H in (ChebychevHelper, UltrasphericalHelper):
    for N in (4, 5):
        h = H(N=N)
        for nd in (1, 2, 3):
            u = rng.random((N,) * nd)
            keep = u.copy()
            v = h.itransform(h.transform(u))
            if not np.allclose(v, u):
                bad.append(f'{H.__name__} N={N} {nd}-d: round trip error {np.abs(v - u).max():.2e}')
            if not np.array_equal(u, keep):
                bad.append(f'{H.__name__} N={N} {nd}-d: input modified')
print(bad or 'round trip is the identity')
sys.exit(1 if bad else 0)
