"""F30 (fixed in /repo): the `last_abs` / `last_rel` branch of compute_residual of the Resilience project's efficient sweepers
(generic_implicit_efficient, imex_1st_order_efficient) assembles u0 + dt*Q[-1]*F - u[-1] WITHOUT the FAS correction tau, so on a
coarse level of an MLSDC run the reported residual is not the defect u0 + dt*Q*F(U) + tau - U of the values the level holds.
exit 0 = the reported coarse residual equals the defect of the last node."""
import numpy as np
from pySDC.implementations.problem_classes.TestEquation_0D import testequation0d
from pySDC.projects.Resilience.sweepers import generic_implicit_efficient
from pySDC.implementations.controller_classes.controller_nonMPI import controller_nonMPI
from pySDC.implementations.transfer_classes.TransferMesh_NoCoarse import mesh_to_mesh
from pySDC.core.hooks import Hooks


class H(Hooks):
    worst = 0.0

    def post_sweep(self, step, level_number):
        super().post_sweep(step, level_number)
        if level_number == 0:
            return
        L = step.levels[level_number]
        integral = L.sweep.integrate()
        d = L.u[0] + integral[-1] - L.u[-1] + (L.tau[-1] if L.tau[-1] is not None else 0.0)
        H.worst = max(H.worst, abs(abs(d) - L.status.residual))


desc = dict(problem_class=testequation0d, problem_params=dict(lambdas=np.array([-5.0]), u0=1.0),
            sweeper_class=generic_implicit_efficient, sweeper_params=dict(num_nodes=[5, 2], quad_type='RADAU-RIGHT', QI='LU'),
            level_params=dict(dt=0.2, restol=1e-10, residual_type='last_abs'), step_params=dict(maxiter=6),
            space_transfer_class=mesh_to_mesh, space_transfer_params={})
c = controller_nonMPI(1, dict(logger_level=40, hook_class=[H]), desc)
P = c.MS[0].levels[0].prob
c.run(P.u_exact(0), 0.0, 0.2)
print(f'largest difference between the reported coarse residual and the defect of the stored values: {H.worst:.3e}')
raise SystemExit(0 if H.worst < 1e-12 else 1)
