"""F16 candidate (C09): the serial retry counter after a restart at a LATER slot.
BasicRestartingNonMPI.prepare_next_block is called for S in self.MS in slot order; for S.slot < restart_from it writes
MS[restart_from - S.slot].restarts_in_a_row = 0 - i.e. into the status of the restarting step BEFORE that step's own call
reads `S.status.restarts_in_a_row + 1`.  Scenario: 3 steps per block; step B is restarted once as a follower (counter 1),
then fails itself at slot 1 while slot 0 converges: B has now been restarted twice in a row, the counter says 1."""
import sys
import numpy as np
from pySDC.implementations.controller_classes.controller_nonMPI import controller_nonMPI
from pySDC.implementations.problem_classes.TestEquation_0D import testequation0d
from pySDC.implementations.sweeper_classes.generic_implicit import generic_implicit
from pySDC.core.convergence_controller import ConvergenceController

PLAN = {}  # (block number, slot) -> restart?


class Script(ConvergenceController):
    block = 0

    def setup(self, controller, params, description, **kwargs):
        return {'control_order': -10, **super().setup(controller, params, description, **kwargs)}

    def determine_restart(self, controller, S, **kwargs):
        if S.status.iter >= S.params.maxiter and PLAN.get((Script.block, S.status.slot), False):
            S.status.restart = True

    def prepare_next_block(self, controller, S, *args, **kwargs):
        if S.status.slot == 0:
            Script.block += 1


description = {
    'problem_class': testequation0d, 'problem_params': {'lambdas': np.array([-1.0]), 'u0': 1.0},
    'sweeper_class': generic_implicit, 'sweeper_params': {'num_nodes': 2, 'quad_type': 'RADAU-RIGHT'},
    'level_params': {'dt': 0.1, 'restol': -1}, 'step_params': {'maxiter': 2},
    'convergence_controllers': {Script: {}},
}
# block 0: slot 1 fails (slots 1,2 restart; old slot 1 -> new slot 0 = A, old slot 2 -> new slot 1 = B, both counter 1)
# block 1: A converges, B (slot 1) fails -> B restarted a 2nd time in a row
PLAN.update({(0, 1): True, (1, 1): True})
c = controller_nonMPI(3, {'logger_level': 40, 'mssdc_jac': False}, description)
P = c.MS[0].levels[0].prob
seen = []
orig = c.restart_block
def spy(active_slots, time, u0):
    orig(active_slots, time, u0)
    seen.append([c.MS[p].status.restarts_in_a_row for p in active_slots])
c.restart_block = spy
c.run(P.u_exact(0.0), 0.0, 0.5)
print('restarts_in_a_row per block start:', seen[:4])
# after block 1 the step at new slot 0 is B, restarted in block 0 (as follower) and in block 1 (itself): expected 2
ok = len(seen) > 2 and seen[2][0] == 2
print('counter of the twice-restarted step:', seen[2][0] if len(seen) > 2 else None, '(expected 2)')
sys.exit(0 if ok else 1)
