"""F29 (fixed in /repo 9935c93): allencahn_front_semiimplicit.solve_system solved the extended linear system with ZERO boundary data while
eval_f embeds the inner points in the time-dependent Dirichlet values of the front: on the first / last inner point the returned u
violated u - factor*f_impl(u,t) = rhs by factor/dx^2 times the boundary value (13.6 for factor 1e-3, nvars 127).  Found by the
intra-class operand agreement rule C12.R9 while following up seed C12f_3.  exit 0 = contract holds to round-off."""
import numpy as np
from pySDC.implementations.problem_classes.AllenCahn_1D_FD import allencahn_front_semiimplicit
P = allencahn_front_semiimplicit(nvars=127, eps=0.04, dw=-0.04)
rng = np.random.default_rng(1)
t = 0.1
for factor in (0.0, 1e-3, 1e-2):
    rhs = P.u_exact(t); rhs[:] += 1e-2 * rng.standard_normal(rhs.shape)
    u = P.solve_system(rhs, factor, P.u_exact(t), t)
    f = P.eval_f(u, t)
    r = np.asarray(u - factor * f.impl - rhs)
    print(f'factor={factor:g}: max |u - factor*f_impl(u,t) - rhs| = {np.abs(r).max():.3e}; at first/last interior rows: {abs(r[0]):.3e} {abs(r[-1]):.3e}; elsewhere {np.abs(r[1:-1]).max():.3e}')

P2 = allencahn_front_semiimplicit(nvars=127, eps=0.04, dw=-0.04)
rhs = P2.u_exact(0.1)
u = P2.solve_system(rhs, 1e-3, rhs, 0.1)
r = np.asarray(u - 1e-3 * P2.eval_f(u, 0.1).impl - rhs)
raise SystemExit(0 if np.abs(r).max() < 1e-10 else 1)
