#!/venv/bin/python
"""Re-run the regression pass of tools/recheck_seeds.py for SOME seeds and merge the result into seeded/RECHECK.json (the
entries of the other seeds are kept and marked with the /repo HEAD they were produced at).
usage: tools/recheck_merge.py [ids...]   default: every seed that has no entry yet or whose entry is not 'caught by own check'"""
import json, multiprocessing as mp, os, re, subprocess, sys
V = os.path.dirname(os.path.dirname(os.path.abspath(__file__)))
sys.path.insert(0, V)
sys.path.insert(0, os.path.join(V, 'tools'))
import recheck_seeds as rs  # noqa: E402
from sa import runner  # noqa: E402


def main():
    path = os.path.join(V, 'seeded', 'RECHECK.json')
    old = json.load(open(path)) if os.path.isfile(path) else {}
    allids = sorted(x for x in os.listdir(os.path.join(V, 'seeded')) if os.path.isdir(os.path.join(V, 'seeded', x)))
    ids = sys.argv[1:] or [s for s in allids if s not in old or old[s].get('verdict') != 'caught by own check']
    runner.load_rules()
    with mp.Pool(int(os.environ.get('JOBS', '8'))) as pool:
        res = pool.map(rs.one, ids, chunksize=1)
    head = subprocess.run(['git', '-C', '/repo', 'log', '--format=%h', '-1'], capture_output=True, text=True).stdout.strip()
    for sid, st, fired, errs in res:
        meta = json.load(open(os.path.join(V, 'seeded', sid, 'meta.json')))
        own = re.match(r'(C\d+)', sid).group(1)
        declared_miss = str(meta.get('caught_by', '')).startswith('NOT C')
        own_fired = any(f.startswith(own + ':') for f in fired)
        verdict = 'caught by own check' if own_fired else ('caught by other check(s)' if fired else ('analysis-error only' if errs else 'NOT caught'))
        if declared_miss and not fired:
            verdict = 'not caught (declared: numeric clause)'
        old[sid] = {'repo_head': head, 'apply': st, 'violation_from': fired, 'analysis_error_from': errs, 'verdict': verdict}
        print(f'{sid:8s} {verdict:38s} {" ".join(fired)} {"ERR:" + ",".join(errs) if errs else ""}')
    json.dump(dict(sorted(old.items())), open(path, 'w'), indent=1)
    import collections
    print(collections.Counter(o['verdict'] for o in old.values()))


if __name__ == '__main__':
    main()
