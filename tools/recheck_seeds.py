#!/venv/bin/python
"""Regression pass over all kept seeds at the current /repo HEAD: apply each patch to a scratch copy of the library (never to
/repo), run every quick check on it and compare with the `caught_by` recorded in meta.json.  Prints one line per seed and writes
seeded/RECHECK.json.  usage: tools/recheck_seeds.py [ids...]   (JOBS env, default 8)"""
import json, multiprocessing as mp, os, re, shutil, subprocess, sys, tempfile
V = os.path.dirname(os.path.dirname(os.path.abspath(__file__)))
sys.path.insert(0, V)
from sa import runner, selftest  # noqa: E402
from sa.model import AnalysisError  # noqa: E402


def one(sid):
    d = os.path.join(V, 'seeded', sid)
    tmp = tempfile.mkdtemp(prefix='pysdc_rs_')
    try:
        selftest._copy_tree('/repo', tmp)
        r = subprocess.run(['git', 'apply', os.path.join(d, 'patch.diff')], cwd=tmp, capture_output=True, text=True)
        if r.returncode:
            return sid, 'patch does not apply', [], []
        fired, errs = [], []
        for p in runner.PROPS:
            try:
                runs = runner.run_property(p, tmp, 'quick', 0)
                kf, viol = runner.classify(p, runs)
                if viol:
                    fired.append(p + ':' + ','.join(sorted({v.rule.split('.')[1] for v in viol})))
            except AnalysisError:
                errs.append(p)
            except Exception as e:
                errs.append(p + '!' + type(e).__name__)
        return sid, 'ok', fired, errs
    finally:
        shutil.rmtree(tmp, ignore_errors=True)


def main():
    ids = sys.argv[1:] or sorted(x for x in os.listdir(os.path.join(V, 'seeded')) if os.path.isdir(os.path.join(V, 'seeded', x)))
    runner.load_rules()
    with mp.Pool(int(os.environ.get('JOBS', '8'))) as pool:
        res = pool.map(one, ids, chunksize=1)
    out = {}
    head = subprocess.run(['git', '-C', '/repo', 'log', '--format=%h', '-1'], capture_output=True, text=True).stdout.strip()
    for sid, st, fired, errs in res:
        meta = json.load(open(os.path.join(V, 'seeded', sid, 'meta.json')))
        own = re.match(r'(C\d+)', sid).group(1)
        declared_miss = str(meta.get('caught_by', '')).startswith('NOT C')
        own_fired = any(f.startswith(own + ':') for f in fired)
        verdict = 'caught by own check' if own_fired else ('caught by other check(s)' if fired else ('analysis-error only' if errs else 'NOT caught'))
        if declared_miss and not fired:
            verdict = 'not caught (declared: numeric clause)'
        out[sid] = {'repo_head': head, 'apply': st, 'violation_from': fired, 'analysis_error_from': errs, 'verdict': verdict}
        print(f'{sid:8s} {verdict:38s} {" ".join(fired)} {"ERR:" + ",".join(errs) if errs else ""}')
    json.dump(out, open(os.path.join(V, 'seeded', 'RECHECK.json'), 'w'), indent=1)
    bad = [s for s, o in out.items() if o['verdict'] in ('NOT caught', 'analysis-error only') or o['apply'] != 'ok']
    print('unexpected:', bad)


if __name__ == '__main__':
    main()
