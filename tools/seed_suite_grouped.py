#!/venv/bin/python
"""Pinned-suite verdicts for many seeds at once: seeds whose patches touch disjoint files are applied TOGETHER to one scratch
worktree of /repo HEAD and the whole pinned suite (BASELINE stable_pass) is run once per group.  If every stable test passes,
every seed of the group passes the existing tests.  If some stable tests fail, only those tests are re-run against each seed of the
group alone (cheap) to find the seed(s) that break them.  Writes `existing_suite` into seeded/<id>/meta.json.

usage: tools/seed_suite_grouped.py [--jobs 5] [--n 3] [--size 10] [ids...]     (default: all seeds without a verdict)
"""
import concurrent.futures as cf
import json
import os
import re
import subprocess
import sys
import xml.etree.ElementTree as ET

VERIF = os.path.dirname(os.path.dirname(os.path.abspath(__file__)))
BASE = json.load(open('/root/.vp/BASELINE.json'))
STABLE = set(BASE['stable_pass'])
ENV = dict(os.environ, OMP_NUM_THREADS='1', OPENBLAS_NUM_THREADS='1', MKL_NUM_THREADS='1')


def files_of(sid):
    txt = open(os.path.join(VERIF, 'seeded', sid, 'patch.diff')).read()
    return set(re.findall(r'^\+\+\+ b/(\S+)', txt, flags=re.M))


def worktree(tag):
    wt = f'/tmp/sg_{tag}'
    subprocess.run(['git', '-C', '/repo', 'worktree', 'remove', '--force', wt], capture_output=True)
    r = subprocess.run(['git', '-C', '/repo', 'worktree', 'add', '--detach', wt, 'HEAD'], capture_output=True, text=True)
    if r.returncode:
        raise RuntimeError(r.stderr[-300:])
    return wt


def drop(wt):
    subprocess.run(['git', '-C', '/repo', 'worktree', 'remove', '--force', wt], capture_output=True)


def pytest(wt, args, jx, timeout):
    if os.path.exists(jx):
        os.remove(jx)
    subprocess.run(['/venv/bin/python', '-m', 'pytest', '-q', '-p', 'no:cacheprovider', f'--timeout={timeout}', '--continue-on-collection-errors', f'--junitxml={jx}'] + args,
                   cwd=wt, env=dict(ENV, PYTHONPATH=wt), capture_output=True, text=True)
    passed = set()
    if os.path.isfile(jx):
        for tc in ET.parse(jx).iter('testcase'):
            if not any(c.tag in ('failure', 'error', 'skipped') for c in tc):
                passed.add(f"{tc.get('classname')}::{tc.get('name')}")
        os.remove(jx)
    return passed


def node_ids(wt, cids):
    ids = []
    for cid in cids:
        cls, name = cid.split('::', 1)
        parts = cls.split('.')
        for k in range(len(parts), 0, -1):
            f = os.path.join(wt, *parts[:k]) + '.py'
            if os.path.isfile(f):
                ids.append('/'.join(parts[:k]) + '.py::' + '::'.join(parts[k:] + [name]))
                break
    return ids


def run_group(gi, group, n):
    wt = worktree(f'g{gi}')
    applied, skipped = [], []
    try:
        for sid in group:
            r = subprocess.run(['git', '-C', wt, 'apply', os.path.join(VERIF, 'seeded', sid, 'patch.diff')], capture_output=True, text=True)
            (applied if r.returncode == 0 else skipped).append(sid)
        jx = f'/tmp/sg_g{gi}.xml'
        passed = pytest(wt, ['-n', str(n)], jx, 900)
        if not passed:
            return {sid: ('suite run was killed (no junit file)', []) for sid in group}
        missing = sorted(STABLE - passed)
        if missing and len(missing) <= 80:
            passed |= pytest(wt, ['-n', '2'] + node_ids(wt, missing), jx, 3000)
            missing = sorted(STABLE - passed)
    finally:
        drop(wt)
    res = {sid: ('patch does not apply together with the others of its group', []) for sid in skipped}
    if not missing:
        for sid in applied:
            res[sid] = ('ok', [])
        return res
    # attribute the failing tests: each seed alone, only those tests
    for sid in applied:
        wt1 = worktree(f'g{gi}_{sid}')
        try:
            subprocess.run(['git', '-C', wt1, 'apply', os.path.join(VERIF, 'seeded', sid, 'patch.diff')], check=True, capture_output=True)
            p = pytest(wt1, ['-n', '2'] + node_ids(wt1, missing), f'/tmp/sg_g{gi}_{sid}.xml', 3000)
            miss1 = sorted(set(missing) - p)
            res[sid] = ('ok' if not miss1 else 'FAILS', miss1)
        finally:
            drop(wt1)
    return res


def main():
    a = sys.argv[1:]
    jobs, n, size = 5, 3, 10
    for flag in ('--jobs', '--n', '--size'):
        if flag in a:
            i = a.index(flag)
            v = int(a[i + 1])
            del a[i:i + 2]
            jobs, n, size = (v, n, size) if flag == '--jobs' else (jobs, v, size) if flag == '--n' else (jobs, n, v)
    ids = a
    if not ids:
        for sid in sorted(os.listdir(os.path.join(VERIF, 'seeded'))):
            mp = os.path.join(VERIF, 'seeded', sid, 'meta.json')
            if os.path.isfile(mp) and json.load(open(mp)).get('existing_suite', {}).get('status') not in ('ok', 'FAILS'):
                ids.append(sid)
    groups = []
    for sid in ids:
        fs = files_of(sid)
        for g in groups:
            if len(g['ids']) < size and not (g['files'] & fs):
                g['ids'].append(sid)
                g['files'] |= fs
                break
        else:
            groups.append({'ids': [sid], 'files': set(fs)})
    print(f'{len(ids)} seeds in {len(groups)} groups', flush=True)
    head = subprocess.run(['git', '-C', '/repo', 'log', '--format=%h', '-1'], capture_output=True, text=True).stdout.strip()
    with cf.ThreadPoolExecutor(jobs) as ex:
        futs = {ex.submit(run_group, gi, g['ids'], n): g['ids'] for gi, g in enumerate(groups)}
        for fut in cf.as_completed(futs):
            grp = futs[fut]
            try:
                res = fut.result()
            except Exception as e:  # noqa: BLE001
                res = {sid: (f'harness error: {e}', []) for sid in grp}
            for sid, (status, missing) in res.items():
                print(sid, status, len(missing), missing[:3], flush=True)
                mp = os.path.join(VERIF, 'seeded', sid, 'meta.json')
                m = json.load(open(mp))
                m['existing_suite'] = {'status': status, 'stable_pass_total': len(STABLE), 'not_passing': missing[:20],
                                       'how': f'full pinned suite on /repo {head} + the patches of {len(grp)} seeds that touch disjoint files ({", ".join(grp)}) applied together (pytest -n {n}); failing stable tests, if any, re-run against each seed alone'}
                json.dump(m, open(mp, 'w'), indent=1)


if __name__ == '__main__':
    main()
