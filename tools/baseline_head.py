#!/venv/bin/python
"""Run the pinned suite (BASELINE stable_pass) on /repo HEAD in a scratch worktree under /tmp (removed afterwards) and report
which stable tests do not pass.  usage: tools/baseline_head.py [n_workers]"""
import json, os, subprocess, sys, xml.etree.ElementTree as ET
BASE = json.load(open('/root/.vp/BASELINE.json'))
STABLE = set(BASE['stable_pass'])
n = sys.argv[1] if len(sys.argv) > 1 else '4'
wt = '/tmp/bl_head'
subprocess.run(['git', '-C', '/repo', 'worktree', 'remove', '--force', wt], capture_output=True)
subprocess.run(['git', '-C', '/repo', 'worktree', 'add', '--detach', wt, 'HEAD'], check=True, capture_output=True)
head = subprocess.run(['git', '-C', '/repo', 'log', '--format=%h', '-1'], capture_output=True, text=True).stdout.strip()
try:
    jx = '/tmp/bl_head.xml'
    env = dict(os.environ, PYTHONPATH=wt, OMP_NUM_THREADS='1', OPENBLAS_NUM_THREADS='1', MKL_NUM_THREADS='1')
    passed = set()
    def run(args, timeout):
        if os.path.exists(jx):
            os.remove(jx)
        subprocess.run(['/venv/bin/python', '-m', 'pytest', '-q', '-p', 'no:cacheprovider', f'--timeout={timeout}', '--continue-on-collection-errors', f'--junitxml={jx}'] + args, cwd=wt, env=env, capture_output=True, text=True)
        if os.path.isfile(jx):
            for tc in ET.parse(jx).iter('testcase'):
                if not any(c.tag in ('failure', 'error', 'skipped') for c in tc):
                    passed.add(f"{tc.get('classname')}::{tc.get('name')}")
    run(['-n', n], 900)
    missing = sorted(STABLE - passed)
    if missing and len(missing) <= 80:
        ids = []
        for cid in missing:
            cls, name = cid.split('::', 1)
            parts = cls.split('.')
            for k in range(len(parts), 0, -1):
                f = os.path.join(wt, *parts[:k]) + '.py'
                if os.path.isfile(f):
                    ids.append('/'.join(parts[:k]) + '.py::' + '::'.join(parts[k:] + [name]))
                    break
        run(['-n', '2'] + ids, 3000)
        missing = sorted(STABLE - passed)
    print(f'HEAD {head}: {len(STABLE) - len(missing)} of {len(STABLE)} stable tests pass; not passing: {missing[:20]}')
finally:
    subprocess.run(['git', '-C', '/repo', 'worktree', 'remove', '--force', wt], capture_output=True)
