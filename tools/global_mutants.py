#!/venv/bin/python
"""Any-check detection of AST mutants: sample N single-point mutants from the union of the functions analysed by all claimed
checks, run EVERY quick check on each mutated scratch copy and report which checks fired.  A per-property ratio (thorough tier)
under-states detection because the function sets overlap (a transfer body mutated under C07 is the business of C10); this tool
gives the overall picture and the list of mutants nobody sees.  Usage: tools/global_mutants.py [N] [seed]  -> global_mutants.json"""
import json, multiprocessing as mp, os, random, shutil, sys, tempfile
V = os.path.dirname(os.path.dirname(os.path.abspath(__file__)))
sys.path.insert(0, V)
from sa import runner, mutate, selftest  # noqa: E402
from sa.model import AnalysisError  # noqa: E402

ROOT = '/repo'


def one(args):
    rel, src, item = args
    made = mutate.realise(src, item)
    if made is None:
        return None
    desc, new = made
    tmp = tempfile.mkdtemp(prefix='pysdc_gm_')
    try:
        selftest._copy_tree(ROOT, tmp)
        with open(os.path.join(tmp, rel), 'w') as fh:
            fh.write(new)
        fired, errs = [], []
        for p in runner.PROPS:
            try:
                runs = runner.run_property(p, tmp, 'quick', 0)
                kf, viol = runner.classify(p, runs)
                if viol:
                    fired.append(p)
            except AnalysisError:
                errs.append(p)
            except Exception:
                errs.append(p)
        return {'file': rel, 'function': item[0], 'mutation': desc, 'violation': fired, 'analysis_error': errs}
    finally:
        shutil.rmtree(tmp, ignore_errors=True)


def main():
    n = int(sys.argv[1]) if len(sys.argv) > 1 else 200
    seed = int(sys.argv[2]) if len(sys.argv) > 2 else 0
    runner.load_rules()
    by_file = {}
    for p in runner.PROPS:
        for rr in runner.run_property(p, ROOT, 'quick', 0):
            for w in rr.analysed['functions']:
                if ':' in w:
                    rel, fn = w.split(':', 1)
                    if '/' not in fn and ' ' not in fn:
                        by_file.setdefault(rel, set()).add(fn)
    plans, sources = [], {}
    skip = [x for x in os.environ.get('EXCLUDE', '').split(',') if x]
    for rel, names in sorted(by_file.items()):
        path = os.path.join(ROOT, rel)
        if any(x in rel for x in skip):
            continue
        if os.path.isfile(path):
            sources[rel] = open(path).read()
            plans += [(rel, it) for it in mutate.plan(sources[rel], names) if it[1] not in ('uncopy', 'aliasparam')]
    total = len(plans)
    plans = random.Random(seed).sample(plans, min(n, total))
    with mp.Pool(int(os.environ.get('JOBS', '12'))) as pool:
        res = [r for r in pool.map(one, [(rel, sources[rel], it) for rel, it in plans], chunksize=1) if r]
    det = [r for r in res if r['violation'] or r['analysis_error']]
    out = {'mutation_points': total, 'mutants_run': len(res), 'seed': seed, 'detected_by_some_check': len(det), 'ratio': round(len(det) / max(1, len(res)), 3),
           'violation_only_ratio': round(sum(1 for r in res if r['violation']) / max(1, len(res)), 3), 'survivors': [r for r in res if not (r['violation'] or r['analysis_error'])], 'detected': det}
    out['excluded'] = skip
    json.dump(out, open(os.environ.get('OUT', os.path.join(V, 'global_mutants.json')), 'w'), indent=1)
    print({k: v for k, v in out.items() if k not in ('survivors', 'detected')})


if __name__ == '__main__':
    main()
