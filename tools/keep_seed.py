#!/venv/bin/python
"""Copy a confirmed seeded change into /verif/seeded/<id>/ and complete its meta.json.
Usage: tools/keep_seed.py <src dir> <id> '<caught by, e.g. C06.R2>' ['<notes>']"""
import json, os, shutil, sys
src, sid, caught = sys.argv[1], sys.argv[2], sys.argv[3]
notes = sys.argv[4] if len(sys.argv) > 4 else ''
V = os.path.dirname(os.path.dirname(os.path.abspath(__file__)))
dst = os.path.join(V, 'seeded', sid)
os.makedirs(dst, exist_ok=True)
for f in ('patch.diff', 'demo.py'):
    if os.path.isfile(os.path.join(src, f)):
        shutil.copy(os.path.join(src, f), os.path.join(dst, f))
meta = {}
mp = os.path.join(src, 'meta.json')
if os.path.isfile(mp):
    try:
        meta = json.load(open(mp))
    except Exception as e:
        meta = {'note': f'agent meta.json unreadable: {e}'}
meta['id'] = sid
meta['confirmed_by_me'] = 'applied patch.diff to /repo (git apply), ran demo.py (exit 1 with the change, exit 0 without), ran all 15 quick checks with tools/eval_seeded.py, undid the change (git checkout -- .)'
meta['caught_by'] = caught
if notes:
    meta['notes'] = notes
json.dump(meta, open(os.path.join(dst, 'meta.json'), 'w'), indent=1)
print('kept', dst)
