#!/venv/bin/python
"""Developer aid: apply one textual replacement to a scratch copy of /repo and run every quick check on it.
usage: tools/try_edit.py <relpath> <old> <new> [count]"""
import os, shutil, sys, tempfile
V = os.path.dirname(os.path.dirname(os.path.abspath(__file__)))
sys.path.insert(0, V)
from sa import runner, selftest  # noqa: E402
from sa.model import AnalysisError  # noqa: E402

rel, old, new = sys.argv[1], sys.argv[2].encode().decode('unicode_escape'), sys.argv[3].encode().decode('unicode_escape')
tmp = tempfile.mkdtemp(prefix='pysdc_try_')
try:
    selftest._copy_tree('/repo', tmp)
    p = os.path.join(tmp, rel)
    s = open(p).read()
    n = s.count(old)
    want = int(sys.argv[4]) if len(sys.argv) > 4 else 1
    if n != want:
        sys.exit(f'anchor occurs {n}x, expected {want}x')
    open(p, 'w').write(s.replace(old, new))
    compile(open(p).read(), p, 'exec')
    runner.load_rules()
    for prop in runner.PROPS:
        try:
            runs = runner.run_property(prop, tmp, 'quick', 0)
            kf, viol = runner.classify(prop, runs)
            for v in viol[:3]:
                print(f'{prop}: {v.rule} :: {v.construct[:140]}')
        except AnalysisError as e:
            print(f'{prop}: ANALYSIS-ERROR {str(e)[:160]}')
    print('done')
finally:
    shutil.rmtree(tmp, ignore_errors=True)
