#!/venv/bin/python
"""Regenerates MANIFEST.json from the table below (armed properties only)."""
import json, os, sys
sys.path.insert(0, os.path.join(os.path.dirname(os.path.abspath(__file__)), '..'))
V = os.path.dirname(os.path.dirname(os.path.abspath(__file__)))

NA = {
}
UNDER = 'static checker for this property not armed yet in this round (design in DESIGN.md §4)'

ARMED = {
 'C01': ('structural necessary conditions of the fixed-point clause, decided for every library sweeper and both controllers on every run: QDelta cancellation (matrix/component/index coupling/solver factor), tau in sweep+residual+end point, end-point mode, forward transfer chain, finest-level stopping',
         'not decided: contraction, tolerance multiple, solver/quadrature/transfer numerics. Trusted: CPython ast, naming conventions for roles (floors turn lost instances into exit 2).',
         'AST term normaliser + per-function CFG dominators; cancellation rules over signed factor multisets', '4 C01'),
 'C02': ('every library sweeper method (integrate/update_nodes/compute_end_point; 36 implementations, 58 classes resolved through the MRO) is reduced to a normal form and compared with the reference signature derived from the formula of the property, including data-dependency order; plus padding/triangularity, variable-coefficient refresh and MPI reduction payload rules',
         'not decided: numeric matrix entries, solve_system correctness; MultiStep/QDiagonalization/RKN algebra is listed as uncovered. Unknown idioms give ANALYSIS-ERROR (exit 2), never a pass.',
         'AST normal-form signatures (signed factor multisets, canonical loops) compared with formula-derived references', '4 C02'),
 'C03': ('defect signature and norm dispatch of every compute_residual, send->receive->residual->decision order in IT_CHECK by CFG dominance, boolean normal form of the convergence predicate, who-may-write tables for status.iter/done, logged fields = deciding fields',
         'not decided: the value of the residual, norm axioms. One defect found by the rule was repaired (fix d42d667).',
         'CFG dominance + who-may-write tables + boolean normal forms over the AST', '4 C03'),
 'C04': ('ONLY structural clauses: for the SDC sweepers the sweep / end-point signatures and the QDelta cancellation shared with C01/C02 (necessary for one order per sweep and for the converged iteration being the collocation method), and about the Runge-Kutta sweepers and the start value: update_nodes of RungeKutta / RungeKuttaIMEX are the stage equations of a Butcher tableau; primary end point with weight row 0 and embedded one with row 1 over the same stage derivatives, last stage copied exactly when stiffly accurate; embedded wiring (genCoeffs(embedded=True) <=> ButcherTableauEmbedded, every embedded class documents an update order, AdaptivityRK takes it, estimate = |primary - embedded|); spread predictor copies u0 to every node',
         'NOT decided (numeric): order min(k, p) after k SDC sweeps, the stability function of the converged iteration, that any tableau or embedded pair has the order it documents - the integers returned by get_update_order are not checked against the tableaux (which live in qmat).',
         'term normaliser on the stage and end-point loops (zip loops, guards in NNF), class-body table extraction over the 30 Runge-Kutta classes', '11.1 (C04)'),
 'C05': ('ONLY the structural clauses: the qmat generator is requested for exactly (num_nodes, node_type, quad_type, tleft, tright) and bad arguments raise; end-point flag tables and the automatic collocation update; zero-padded (M+1)x(M+1) Q and S with the generator Q / parent-class S in [1:,1:] and nothing else stored, private copies of nodes/weights, no later in-place store anywhere in the library; node distances',
         'NOT decided (numeric, produced by the external qmat package at run time): monotone nodes inside the interval, exactness of weights/Q/S on polynomials, S = row differences of Q inside qmat, affine covariance.',
         'local-inlining normal form of CollBase.__init__, membership-table extraction, who-may-write scan over the library', '11.1 (C05)'),
 'C06': ('def-use chain of the carried value and of the block start time in run() of all three controllers, agreement of the activity predicate at all 8 sites, kept-steps slice, scale-unaware-tolerance pattern (7 known-finding sites F3)',
         'not decided: the float arithmetic itself (smallest N up to rounding), behaviour under histories of restarts. F3 (dt=0.1, Tend=10 -> 101 steps) is a recorded known finding.',
         'reaching-definition tables and guard sets on the controller run() CFGs; contradiction pattern for absolute eps thresholds', '4 C06'),
 'C07': ('typestate of the per-step callback grammar decomposed into local CFG obligations on the handler tables of all three controllers: emission sites, brackets around every sweep, stage graph and lock-step (no status-dependent stage choice outside IT_CHECK), done chain, tag agreement, lock discipline',
         'not decided: termination for all residual sequences, exhaustive convergence patterns (needs state exploration, another family).',
         'handler-table extraction + dominator/post-dominator/must-pass-through queries per handler', '4 C07'),
 'C09': ('who-may-write tables for restart/dt_new/params.dt/restarts_in_a_row, retry-bound comparison and crash condition, restart propagation and buffer reset, counter re-mapping, single source of the block step size, normal form of the dt formula and its call sites, clamp idioms, control-order partial order folded from setup() along the MRO, Tend-limiting skeleton',
         'not decided: properties of whole histories (a run always advances), quality of error estimates. F4 (MPI > vs >=) is a recorded known finding (not executable here).',
         'who-may-write tables, term normal forms, MRO fold of dict-display merges', '4 C09'),
 'C10': ('restrict/prolong/prolong_f of BaseTransfer decided clause by clause (full Rcoll/Pcoll rows with index coupling, coarse f before coarse integral, tau = restricted fine - coarse, inherited tau added, uold/fold final copies, difference prolongation, += update), shape rules for the mass-matrix and MPI siblings, down/coarse/up stage order, transfer registry',
         'not decided: that Rcoll/Pcoll/space transfers are exact (C11), the multigrid iteration-matrix clause.',
         'term normaliser with interval merging of row sums + contribution order', '4 C10'),
 'C11': ('ONLY the structural clauses: every shipped space-transfer class returns a new object of the argument\'s type on the target grid and leaves the argument alone; components are treated alike (generic .components loop or arms identical up to the component name); no data-type arm is shadowed by a base-class arm; Rspace = c*Pspace^T with c = 0.5 / 1.0 (injection) in the 1-d and n-d branches, Kronecker assembly in direction order for P and R; BaseTransfer builds Pcoll/Rcoll with source/target nodes the right way round, takes the identity only for equal node SETS and applies Rcoll in restrict / Pcoll in prolong; the six copies of the Lagrange-basis block and the k-nearest-neighbour selection of transfer_helper agree',
         'NOT decided (numeric, stays with the other families): polynomial exactness, rows summing to one, restriction after prolongation = identity, FFT band-limit exactness, boundary rows of padded stencils. Three defects found by these rules were repaired (fix 02d1390, d3ee753, 328a793).',
         'AST sibling cross-checks (arms, copies), class-hierarchy aware dispatch-chain reachability, term normaliser on the matrix assembly, flow-sensitive alias lattice on restrict/prolong', '11.1 (C11)'),
 'C12': ('purity clause: a flow-sensitive alias/view/fresh lattice over every contract method (251 methods of 99 problem classes) shows that no in-place write reaches a parameter (one level of self.helper() call-through) and that eval_f/solve_system* results are fresh; splitting clause, where it is symbolic: for 19 sibling pairs (impl/expl, comp1/comp2, unsplit; FD Allen-Cahn families, Quench, advection-diffusion FFT, polynomial test problem, stabilised 2-d FFT Allen-Cahn) the symbolic sum of the components of eval_f equals that of the parent class (operators opaque, reshape transparent, FFTs linear, stabilisation shift accounted for); per-dimension sums have no deviating term',
         'not decided (numeric): residual of the solve, exact solutions (beyond the per-dimension sibling rule), splittings whose eval_f has data-dependent branches or spectral/physical switches (16 pairs are listed as NOTE: not decided). Three defects found by the rules were repaired (fixes 6214e51, 7c54d72, 540c596).',
         'flow-sensitive abstract interpretation of aliasing (fresh / view / alias tags), syntax-directed; symbolic comparison (sympy) of locally inlined eval_f expressions of sibling classes', '4 C12'),
 'C13': ('datatype classes define no in-place operator and drop `out`, binary operators allocate, copy constructors copy, abs is a max norm; every in-place write into level data found by the slot lattice over 573 run-time functions is fresh-in-function or an entry of table B4; uend is only ever rebound; escape boundaries copy',
         'not decided: dtype/shape closure of arithmetic, norm axioms numerically. F13 (MPI bcast into the logged uend) is a recorded known finding (not executable here).',
         'slot-source alias lattice + dominating-allocation check + frozen exception table', '4 C13'),
 'C08': ('necessary conditions of schedule independence, from the source only (the MPI path cannot be executed here): no collective under a rank-dependent guard (68 sites incl. one level of call-through), no time-communicator collective inside the rank-dependent iteration loop, send/receive pairing by guard, peer, tag and buffer shape (6 pairs), wait-before-reuse of the uend buffer, DONE arm completes/cancels all requests, serial/MPI sibling agreement',
         'not decided: deadlock freedom and result equality under all interleavings (needs schedule exploration, another family). F4, F8, F9 are recorded known findings (by reading; no mpi4py).',
         'MPI API table + rank-taint of guard sets + CFG order rules + sibling comparison', '4 C08'),
 'C15': ('ONLY the pairing and pipeline structure of ParaDiag: helper matrices compared in a local-inlining normal form (orthonormal DFT, J and J^-1 from one set of weights, forward = F @ J^-1 and backward = J @ conj(F), alpha-circulant E, per-step factor), step l receives G_inv(l, n_steps, alpha), FFT/iFFT_in_time apply the forward/backward matrix, it_ParaDiag stage order by CFG dominance with one residual->increment def-use chain, index coupling and write-after-product discipline of apply_matrix/mat_vec, S^-1 -> node solves with w[m] dt -> S -> G_inv in update_nodes',
         'NOT decided (numeric): that the transforms are mutually inverse and diagonalise the alpha-circulant matrix for all n and alpha, exactness of the diagonalisation sweeper, agreement of converged runs with sequential collocation.',
         'normal forms by local inlining and the term normaliser (canonical loops), CFG dominance/post-dominance for the stage order', '11.1 (C15)'),
 'C16': ('open-mode discipline of every open() in fieldsIO (append-only, one truncating open), overwrite guard dominating it, header/record dtype sequences of writer and reader agree, every record read is bounded by the complete-record count',
         'not decided: bit exactness of numpy I/O, the crash-point quantifier itself (fault injection), tiling of BlockDecomposition (arithmetic identity).',
         'call-site fact tables (modes, dtypes, counts) + CFG dominance', '4 C16'),
 'C17': ('ONLY clauses whose truth is in the shape of the code: per-axis loops carry their result from axis to axis (the rule found and repaired a real defect in ChebychevHelper.itransform), forward/backward transform pairing (DCT type, default norm, multiply/divide by one normalisation; FFT normalisation over the same axes), where the interval map enters (grid, derivatives / fac^p, ultraspherical integral * fac, wavenumbers * 2 pi / L), Kronecker assembly of n-d operators in axis order and the four n-d builders as products of per-axis expansions',
         'NOT decided (numeric): agreement of every operator matrix with exact polynomial / Fourier calculus for all N, mutual inverse of conversions, sparse-vs-dense agreement, padding and mpi4py-fft paths. One defect found by C17.R1 was repaired (fix bb05198).',
         'loop-carried def-use analysis on per-axis loops, local-inlining normal form for operator formulas, sibling cross-check of the n-d fold builders', '11.1 (C17)'),
 'C18': ('assembly clause only: positional pairing of weight k with offset k in the periodic arm (plus the general values-used-as-positions contradiction rule), wrap diagonals, parallel sort of weights and offsets, Kronecker-sum arity, keyword call sites',
         'not decided: the stencil weights and boundary closures (exact rational arithmetic is evaluation, not shape). One defect found by the rule was repaired (fix 1ce7787).',
         'term normaliser + contradiction pattern', '4 C18'),
 'C19': ('reset discipline of run/restart_block/reset_level (every step status field and every level data slot), inventory of class-level/global state written from methods against table B5, no global RNG draw in run-time modules, per-instance generators re-seeded, steps cloned by value',
         'not decided: bit identity itself. F6 (Sweeper.rng never re-seeded) is a recorded known finding.',
         'who-may-write inventory of class/global state + CFG dominance of resets', '4 C19'),
 'C20': ('every if/elif dispatch over configuration names ends in a raising else (42 chains), 13 construction guards raise under guards mentioning the right quantities (NNF), frozen classes freeze on every exit, sanctioned __dict__ bypasses only, read-only parameters, list/scalar distribution shape, instantiate-once/argsort/ordered iteration, user parameters last in every setup() merge (MRO fold)',
         'not decided: behaviour on every generated description (generation = testing). F7 (AdaptivityCollocation forces control_order) is a recorded known finding.',
         'dispatch-chain extraction, guard NNF, MRO fold of dict merges', '4 C20'),
 'C14': ('key completeness and roles of every add_to_stats call, num_restarts after **kwargs, must-call-super-before-record on every recording callback override, recomputed-marker writer/reader literal agreement, exactly-one rhs-counter tick per eval_f path (40 classes), helper shapes',
         'not decided: filter_stats(recomputed=..) on arbitrary histories. Three defects found by the rules were repaired (fixes 2b62a96, aca5089, 10561b1); F12b (gusto LogTime) is a recorded known finding.',
         'call-site fact tables + CFG must-pass-through / at-most-once path rules', '4 C14'),
}

# rules added in the extension round (five rounds of seeded changes, DESIGN 11.2 / 11.4c-e); appended to the texts above
EXT = {
 'C01': ('value chain of run() and collocation object built from ALL sweeper parameters (shared rules)', ''),
 'C02': ('deleted-override detection for every implementation that has a reference signature, alias-exact generator cache, generators dropped on re-initialisation, override obligations of the embedded tableau, nothing frozen at its first value (memo analysis); dimensional analysis of every accumulation and solver factor in all sweepers of library and projects (dt -> T, values -> U, right-hand sides -> U/T; position / velocity table for the second-order sweepers; 120 statements); matrix form of the IMEX sweep (symbolic); one level per sweep loop; case split on integer conditionals in the signature rules', 'memo-pattern analysis (def-use roots of cached value vs key); dimension inference with sympy monomials; symbolic comparison'),
 'C03': ('sweep counter start, residual after every sweep, node-time pairing, MRO-resolved mass-matrix residual, no arithmetic on a whole IMEX f[m] and tau in every self-assembled residual of any sweeper of the repository incl. projects; one level per sweep loop of the controllers', 'second program model including pySDC/projects; MRO resolution'),
 'C04': ('override obligations of ButcherTableauEmbedded', ''),
 'C05': ('QDelta generator gets the left end of the interval, derived matrices of the second-order sweepers, compare-key caches cover every parameter', 'memo-pattern analysis'),
 'C06': ('MultiStep history reset (two-sided, sign-case analysis), ControllerError guards, Tend-limiting skeleton, MPI gather order, Hot Rod restores the whole list; slot list and time table of the first block (structural), slots compressed from the final activity mask', 'sign-case evaluation of extracted guards'),
 'C07': ('payload finality of forwarded status flags, who may write its own parameters, first/last from the position in the block; stage methods are entered through the dispatcher only (who-may-call over the stage tables)', ''),
 'C08': ('payload finality, MRO winners of the node-parallel sweepers, overridden life-cycle callbacks call super, no stale per-rank copy of a refreshed matrix, no in-place write into the send buffer; serial and MPI run() decide where to restart from the same flag', 'MRO resolution over the SweeperMPI lineage'),
 'C09': ('dependency set-ups reach the base-class merge, validations read the declaring section (contradiction rule; found F28), user part last in every setup(), spread_from_first_restarted wiring, error-estimate restart as the else-arm of the complete non-convergence test', 'contradiction rule over description look-ups'),
 'C10': ('tau term of every sweeper that can sit on a coarse level, collocation transfer matrices, node-parallel transfer normal forms, mass-matrix defect signature (shared rules); inherited tau enters through Rcoll only; the initial guess reaches the solver (Krylov x0 carries u0, Newton iterate carries u0: 48 solver sites); level-hierarchy loops of both controllers visit every level pair (finite evaluation of the loop heads)', 'taint-style def-use closure from the u0 parameter; finite evaluation of whitelisted loop heads'),
 'C11': ('mass-matrix restrict clause-wise, sibling call sites pass the same options, FFT prolongation copies every resolved mode', ''),
 'C12': ('exact / complete cache keys (no near hits), solver and eval_f feed model helpers the same kind of time, operand-preparation agreement of sibling splittings, cached shared operators never changed in place, no overwrite_* / out= on an argument, Newton Jacobian = symbolic derivative of the Newton residual (12 loops), eval_f and solver prepare boundary entries identically (found F29), Newton residual = u - factor*F(u) - rhs and direct solve / closed form = inverse of I - factor*F for the F that eval_f of the same class assigns (34 solver sites, symbolic)', 'memo-pattern analysis; forward def-use pass with strong updates; symbolic differentiation (sympy) of extracted expressions'),
 'C13': ('multi-component meshes hand out writable views (no copying call in the accessor); problem classes of library and projects store components through their views, never rebind them (found F32, repaired; F32b known)', 'inventory over the class hierarchy with a second program model that includes pySDC/projects'),
 'C14': ('exact accumulator, LogWork baseline, hook de-duplication by exact type, post_run under `last`, restart-generation override order, marker key constants, ranks merged before superseded records are removed (filter_stats)', ''),
 'C15': ('residual always recomputed (no stage name), value chain of run() across blocks, slots compressed from the final activity mask, forward coupling into u[0]', ''),
 'C16': ('block tiling (finite fallback), readers rebuilt per call, properties derived from gRank store nothing', 'finite case analysis on extracted index expressions'),
 'C17': ('ultraspherical conversion chain, cached results never changed in place, kwargs reach the row builders unchanged, caches of plans keyed completely, no magnitude threshold in eliminate_zeros, single source of the scaled wavenumbers, symbolic S(p) D(p) = 1 for the Fourier operators', 'memo-pattern analysis'),
 'C18': ('Kronecker dispatch by abstract interpretation, centred layout (finite fallback), read-only defaults table, cache keys complete and hits guarded, offsets travel with the weights, every popped option used', 'abstract interpretation over tensor-factor tuples; memo-pattern analysis'),
 'C19': ('per-level dicts, restart-counter coverage (finite case analysis), inventories of sweeper / convergence-controller / hook instance state (tables B6-B8; found F23, F26, F27), problem attributes never read back, life-cycle overrides call super; a reset level gets the expressions of the constructor', 'inventories with reason tables; finite case analysis'),
 'C20': ('exact rejection guards, strict registry look-ups, per-class allow-lists, reference table of read-only declarations, dependency set-ups, look-ups in the declaring section, who may write its own parameters, registries only grow', 'reference tables; contradiction rule'),
}


def main():
    ids = [json.loads(l)['id'] for l in open(os.path.join(V, 'properties.jsonl'))]
    checks = []
    for pid in ids:
        if pid in ARMED:
            text, note, tech, ref = ARMED[pid]
            if pid in EXT:
                text += '; extension round: ' + EXT[pid][0]
                if EXT[pid][1]:
                    tech += '; ' + EXT[pid][1]
                ref = f'{ref}, 11.2, 11.4c-e'
            checks.append({
                'property_id': pid,
                'quick_cmd': f'./check {pid} --tier quick',
                'thorough_cmd': f'./check {pid} --tier thorough',
                'evidence_file': f'evidence/{pid}.json',
                'replay_cmd_template': f'./check {pid} --replay {{path}}',
                'engine': 'sa',
                'level_claimed': {'category': 'other', 'text': 'static analysis of the current source of /repo (no execution): ' + text, 'design_ref': f'DESIGN.md §{ref}'},
                'level_note': note,
                'technique': 'static analysis: ' + tech,
            })
    na = [{'property_id': p, 'reason': NA.get(p, UNDER)} for p in ids if p not in ARMED]
    m = {
        'version': 1,
        'setup_cmd': '/venv/bin/python -c "import ast, networkx, sympy, sys; sys.path.insert(0, \'.\'); import sa.runner"',
        'hooks': {'guard': 'PYSDC_VERIF', 'enable': 'none needed: static analysis reads the source; no hook commit exists', 'baseline_off_cmd': 'cd /repo && /venv/bin/python -m pytest -ra -q -p no:cacheprovider --timeout=900 --continue-on-collection-errors', 'source_commits': [], 'add_only': True},
        'engines': [{'name': 'sa', 'path': 'sa/', 'serves_properties': sorted(ARMED), 'kind_free_text': 'repository-specific static analyser: ast program model (classes/MRO), statement CFG with dominators (networkx), term normaliser, rule tables with floors, known findings, self-test mutants'}],
        'checks': checks,
        'not_applicable': na,
        'notes': 'Every check parses /repo on each run (about 1-2 s), prints per-rule instance counts, exits 2 with ANALYSIS-ERROR when an anchor or idiom is lost. Thorough tier additionally runs the mutant/benign-twin self-test of the checker on scratch copies.',
    }
    json.dump(m, open(os.path.join(V, 'MANIFEST.json'), 'w'), indent=1, ensure_ascii=False)
    print('checks:', [c['property_id'] for c in checks])

main()
