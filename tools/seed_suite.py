#!/venv/bin/python
"""Run the pinned test suite (the stable_pass list of /root/.vp/BASELINE.json) against each seeded change, each in its own scratch
worktree under /tmp (removed afterwards), and record in seeded/<id>/meta.json whether the change still passes the existing tests.

usage: tools/seed_suite.py [--jobs 4] [--n 3] [ids...]
"""
import concurrent.futures as cf
import json
import os
import subprocess
import sys
import xml.etree.ElementTree as ET

VERIF = os.path.dirname(os.path.dirname(os.path.abspath(__file__)))
BASE = json.load(open('/root/.vp/BASELINE.json'))
STABLE = set(BASE['stable_pass'])


def run(sid, n):
    sd = os.path.join(VERIF, 'seeded', sid)
    wt = f'/tmp/ss_{sid}'
    subprocess.run(['git', '-C', '/repo', 'worktree', 'remove', '--force', wt], capture_output=True)
    r = subprocess.run(['git', '-C', '/repo', 'worktree', 'add', '--detach', wt, 'HEAD'], capture_output=True, text=True)
    if r.returncode:
        return sid, 'worktree failed: ' + r.stderr[-200:], []
    try:
        r = subprocess.run(['git', '-C', wt, 'apply', os.path.join(sd, 'patch.diff')], capture_output=True, text=True)
        if r.returncode:
            return sid, 'patch does not apply: ' + r.stderr[-200:], []
        jx = f'/tmp/ss_{sid}.xml'
        env = dict(os.environ, PYTHONPATH=wt, OMP_NUM_THREADS='1', OPENBLAS_NUM_THREADS='1', MKL_NUM_THREADS='1')
        subprocess.run(['/venv/bin/python', '-m', 'pytest', '-q', '-p', 'no:cacheprovider', '--timeout=900', '--continue-on-collection-errors', '-n', str(n), f'--junitxml={jx}'], cwd=wt, env=env, capture_output=True, text=True)
        passed = set()
        if not os.path.isfile(jx):
            return sid, 'suite run was killed (no junit file)', ['?']
        for tc in ET.parse(jx).iter('testcase'):
            if not any(c.tag in ('failure', 'error', 'skipped') for c in tc):
                passed.add(f"{tc.get('classname')}::{tc.get('name')}")
        os.remove(jx)
        missing = sorted(STABLE - passed)
        if missing and len(missing) <= 60:
            # second chance, alone and with a long timeout (the machine may be loaded)
            ids = []
            for cid in missing:
                cls, name = cid.split('::', 1)
                parts = cls.split('.')
                for k in range(len(parts), 0, -1):
                    f = os.path.join(wt, *parts[:k]) + '.py'
                    if os.path.isfile(f):
                        ids.append('/'.join(parts[:k]) + '.py::' + '::'.join(parts[k:] + [name]))
                        break
            subprocess.run(['/venv/bin/python', '-m', 'pytest', '-q', '-p', 'no:cacheprovider', '--timeout=3000', '-n', '2', f'--junitxml={jx}'] + ids, cwd=wt, env=env, capture_output=True, text=True)
            if os.path.isfile(jx):
                for tc in ET.parse(jx).iter('testcase'):
                    if not any(c.tag in ('failure', 'error', 'skipped') for c in tc):
                        passed.add(f"{tc.get('classname')}::{tc.get('name')}")
                os.remove(jx)
            missing = sorted(STABLE - passed)
        return sid, 'ok' if not missing else 'FAILS', missing
    finally:
        subprocess.run(['git', '-C', '/repo', 'worktree', 'remove', '--force', wt], capture_output=True)


def main():
    a = sys.argv[1:]
    jobs, n = 4, 3
    if '--jobs' in a:
        i = a.index('--jobs'); jobs = int(a[i + 1]); del a[i:i + 2]
    if '--n' in a:
        i = a.index('--n'); n = int(a[i + 1]); del a[i:i + 2]
    ids = a or sorted(os.listdir(os.path.join(VERIF, 'seeded')))
    if not a:
        # skip the seeds that already have a verdict from a complete run
        def done(sid):
            try:
                return json.load(open(os.path.join(VERIF, 'seeded', sid, 'meta.json'))).get('existing_suite', {}).get('status') in ('ok', 'FAILS')
            except Exception:
                return False
        ids = [i for i in ids if not done(i)]
        print('to run:', len(ids), flush=True)
    with cf.ThreadPoolExecutor(jobs) as ex:
        for sid, status, missing in ex.map(lambda s: run(s, n), ids):
            print(sid, status, len(missing), missing[:5], flush=True)
            mp = os.path.join(VERIF, 'seeded', sid, 'meta.json')
            m = json.load(open(mp))
            m['existing_suite'] = {'status': status, 'stable_pass_total': len(STABLE), 'not_passing': missing[:20], 'how': f'full pinned suite in a scratch worktree of /repo HEAD + patch (pytest -n {n}), compared with BASELINE stable_pass'}
            json.dump(m, open(mp, 'w'), indent=1)


if __name__ == '__main__':
    main()
