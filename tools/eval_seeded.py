#!/venv/bin/python
"""Evaluate seeded changes: for each <dir>/<id>/patch.diff apply it to /repo, run the demonstration and all 15 quick
checks, undo it, and print which checks fired.  Usage: tools/eval_seeded.py <dir-with-seeded-subdirs> [--keep <dest>]"""
import json, os, subprocess, sys, shutil

PROPS = ['C01', 'C02', 'C03', 'C04', 'C05', 'C06', 'C07', 'C08', 'C09', 'C10', 'C11', 'C12', 'C13', 'C14', 'C15', 'C16', 'C17', 'C18', 'C19', 'C20']
V = os.path.dirname(os.path.dirname(os.path.abspath(__file__)))
ROOT = os.environ.get('EVAL_ROOT', '/repo')  # a scratch worktree of /repo may be used instead of /repo itself


def sh(cmd, **kw):
    return subprocess.run(cmd, shell=True, capture_output=True, text=True, **kw)


def demo(path):
    if os.environ.get('SKIP_DEMO'):
        return 'skipped'
    if not os.path.isfile(path):
        return None
    r = sh(f'cd {ROOT} && PYTHONPATH={ROOT} timeout 900 /venv/bin/python {path}')
    return r.returncode


def main():
    src = os.path.abspath(sys.argv[1])
    only = sys.argv[2:] 
    assert sh(f'git -C {ROOT} status --porcelain').stdout.strip() == '', '/repo not clean'
    rows = []
    for sid in sorted(os.listdir(src)):
        d = os.path.join(src, sid)
        patch = os.path.join(d, 'patch.diff')
        if not os.path.isfile(patch) or (only and sid not in only):
            continue
        clean_rc = demo(os.path.join(d, 'demo.py'))
        ap = sh(f'git -C {ROOT} apply {patch}')
        if ap.returncode != 0:
            rows.append((sid, 'PATCH DOES NOT APPLY', ap.stderr[:200]))
            continue
        try:
            changed_rc = demo(os.path.join(d, 'demo.py'))
            fired = {}
            for p in PROPS:
                r = sh(f'cd {V} && ./check {p} --no-evidence --root {ROOT}')
                if r.returncode == 1:
                    fired[p] = [l.strip() for l in r.stdout.splitlines() if l.strip().startswith('construct:')][:3]
                elif r.returncode == 2:
                    fired[p] = ['ANALYSIS-ERROR: ' + ' '.join(l for l in r.stdout.splitlines() if 'ANALYSIS-ERROR' in l)[:200]]
        finally:
            sh(f'git -C {ROOT} checkout -- .')
        rows.append((sid, f'demo clean={clean_rc} changed={changed_rc}', fired))
    for sid, demo_s, fired in rows:
        print(f'## {sid}: {demo_s}')
        if isinstance(fired, dict):
            if not fired:
                print('     NOT DETECTED by any check')
            for p, c in fired.items():
                print(f'     {p}: {c[:2]}')
        else:
            print('    ', fired)
    assert sh(f'git -C {ROOT} status --porcelain').stdout.strip() == '', '/repo not clean after evaluation'


main()
