"""Thorough tier: the table-free rules are also run over the *clients* of the library (projects, tutorial, playgrounds).

Hits there are reported as NOTE lines and recorded in the evidence; they never decide a property (G1 of DESIGN.md)."""

import os

from .model import Repo, LIB_DIRS, CLIENT_DIRS, AnalysisError
from . import runner

CLIENT_RULES = {
    'C12': ['C12.R1', 'C12.R2'],
    'C13': ['C13.R2'],
    'C14': ['C14.R1', 'C14.R2', 'C14.R5'],
    'C19': ['C19.R3'],
    'C20': ['C20.R1'],
}


class ClientRepo(Repo):
    def __init__(self, root):
        super().__init__(root, extra_dirs=[d for d in CLIENT_DIRS if os.path.isdir(os.path.join(root, d))])

    def is_library(self, ci_or_mod):  # everything parsed counts, so that the rules iterate over client classes too
        return True


def scan(prop, root):
    rules = CLIENT_RULES.get(prop)
    if not rules:
        return None
    runner.load_rules()
    ctx = runner.Ctx(root, 'thorough', 0)
    try:
        ctx._repo = ClientRepo(root)
    except AnalysisError as e:
        return {'client_scan': {'error': str(e)}}
    notes, examined = [], 0
    for rdef in runner._RULES.get(prop, []):
        if rdef.rid not in rules:
            continue
        rr = runner.RuleRun(rdef)
        try:
            rdef.fn(ctx, rr)
        except AnalysisError as e:
            notes.append({'rule': rdef.rid, 'where': '-', 'construct': 'client scan aborted', 'found': str(e)[:200]})
            continue
        for i in rr.instances:
            lib = any(i.where.startswith(d + '/') for d in LIB_DIRS)
            if lib:
                continue
            examined += 1
            if i.status == 'violated':
                notes.append({'rule': i.rule, 'where': i.where, 'construct': i.construct, 'found': str(i.found)[:160]})
    for n in notes[:12]:
        print(f"NOTE: client {n['rule']} {n['where']} :: {n['construct'][:110]}")
    if len(notes) > 12:
        print(f'NOTE: ... {len(notes) - 12} more client hits recorded in the evidence file')
    return {'client_scan': {'rules': rules, 'client_instances_examined': examined, 'hits_reported_as_notes': len(notes), 'notes': notes[:80],
                            'explanation': 'projects/, tutorial/ and playgrounds/ are clients of the library; hits there are information, never a verdict'}}
