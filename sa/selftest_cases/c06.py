from ..selftest import Case

NONMPI = 'pySDC/implementations/controller_classes/controller_nonMPI.py'
MPI = 'pySDC/implementations/controller_classes/controller_MPI.py'
PD = 'pySDC/implementations/controller_classes/controller_ParaDiag_nonMPI.py'

CASES = [
    Case('carry_last_node_not_uend', NONMPI, 'uend = self.MS[active_slots[-1]].levels[0].uend', 'uend = self.MS[active_slots[-1]].levels[0].u[-1]', 'C06.R1', 'definitions of the carried value', note='differs when the end point is not a node'),
    Case('carry_first_step_on_restart', NONMPI, 'uend = self.MS[restart_at].levels[0].u[0]', 'uend = self.MS[0].levels[0].u[0]', 'C06.R1', 'definitions of the carried value'),
    Case('restart_block_gets_u0_again', NONMPI, 'self.restart_block(active_slots, time, uend)', 'self.restart_block(active_slots, time, u0)', 'C06.R1', 'restart_block receives'),
    Case('init_step_aliases', 'pySDC/core/step.py', 'self.levels[0].u[0] = P.dtype_u(u0)', 'self.levels[0].u[0] = u0', 'C06.R1', 'Step.init_step'),
    Case('init_step_only_first_slot', NONMPI, "            # initialize step with u0\n            self.MS[p].init_step(u0)\n", "            # initialize step with u0\n            if j == 0:\n                self.MS[p].init_step(u0)\n", 'C06.R1', 'restart_block'),
    Case('next_block_time_without_dt', NONMPI, 'time[active_slots[0]] = time[active_slots[-1]] + self.MS[active_slots[-1]].dt', 'time[active_slots[0]] = time[active_slots[-1]]', 'C06.R2', 'start time of the next block', note='overlap: the last step is recomputed'),
    Case('later_slots_use_own_dt', PD, 'time[active_slots[i]] = time[active_slots[i] - 1] + self.MS[active_slots[i] - 1].dt', 'time[active_slots[i]] = time[active_slots[i] - 1] + self.MS[active_slots[i]].dt', 'C06.R2', 'later slots'),
    Case('slot_times_before_dt_update', NONMPI, "            for C in [self.convergence_controllers[i] for i in self.convergence_controller_order]:\n                [C.prepare_next_block(self, S, len(active_slots), time, Tend, MS=MS_active) for S in self.MS]\n\n            # setup the times of the steps for the next block\n            for i in range(1, len(active_slots)):\n                time[active_slots[i]] = time[active_slots[i] - 1] + self.MS[active_slots[i] - 1].dt\n", "            for i in range(1, len(active_slots)):\n                time[active_slots[i]] = time[active_slots[i] - 1] + self.MS[active_slots[i] - 1].dt\n\n            for C in [self.convergence_controllers[i] for i in self.convergence_controller_order]:\n                [C.prepare_next_block(self, S, len(active_slots), time, Tend, MS=MS_active) for S in self.MS]\n", 'C06.R2', 'later slots', note='gaps/overlaps after a step-size change'),
    Case('level_time_from_first_slot', NONMPI, '                lvl.status.time = time[p]\n', '                lvl.status.time = time[active_slots[0]]\n', 'C06.R2', 'restart_block'),
    Case('predicate_le_at_one_site', NONMPI, "            active = [time[p] < Tend - 10 * np.finfo(float).eps for p in slots]\n            active_slots", "            active = [time[p] <= Tend - 10 * np.finfo(float).eps for p in slots]\n            active_slots", 'C06.R3', 'activity test'),
    Case('predicate_other_constant_mpi', MPI, "            active = time < Tend - 10 * np.finfo(float).eps\n\n            # check if we need", "            active = time < Tend\n\n            # check if we need", 'C06.R3', None, expect_error=True, note='site no longer recognised as an activity test: count falls below the confirmed 8'),
    Case('nothing_to_do_silent', NONMPI, "        if not any(active):\n            raise ControllerError('Nothing to do, check t0, dt and Tend.')\n", "", 'C06.R3', 'raises ControllerError'),
    Case('restart_at_last', NONMPI, 'restart_at = np.where(restarts)[0][0] if True in restarts else len(MS_active)', 'restart_at = np.where(restarts)[0][-1] if True in restarts else len(MS_active)', 'C06.R4', 'restart_at'),
    Case('post_step_for_all', PD, 'for S in MS_active[:restart_at]:', 'for S in MS_active:', 'C06.R4', 'post_step_processing'),
    Case('new_absolute_threshold_site', NONMPI, "        if not any(active):\n            raise ControllerError('Nothing to do, check t0, dt and Tend.')\n", "        if not any(active) or t0 > Tend - 10 * np.finfo(float).eps:\n            raise ControllerError('Nothing to do, check t0, dt and Tend.')\n", 'C06.R5', 't0 >', note='a NEW instance of the known pattern is a violation, not a known finding'),
    # twins
    Case('twin_rename_carried', NONMPI, '        uend = None\n', '        u_carry = None\n', benign=True, more=[('uend = self.MS[restart_at].levels[0].u[0]', 'u_carry = self.MS[restart_at].levels[0].u[0]'), ('uend = self.MS[active_slots[-1]].levels[0].uend', 'u_carry = self.MS[active_slots[-1]].levels[0].uend'), ('self.restart_block(active_slots, time, uend)', 'self.restart_block(active_slots, time, u_carry)'), ('return uend, self.return_stats()', 'return u_carry, self.return_stats()')]),
    Case('twin_logging_between', NONMPI, "            # restart active steps (reset all values and pass uend to u0)\n", "            self.logger.debug('next block')\n", benign=True),
]
