from ..selftest import Case

PH = 'pySDC/helpers/ParaDiagHelper.py'
CC = 'pySDC/core/controller.py'
PC = 'pySDC/implementations/controller_classes/controller_ParaDiag_nonMPI.py'
SW = 'pySDC/implementations/sweeper_classes/ParaDiagSweepers.py'

CASES = [
    Case('backward_transform_not_conjugated', PH, "return get_J_matrix(N, alpha) @ np.conjugate(get_FFT_matrix(N))", "return get_J_matrix(N, alpha) @ get_FFT_matrix(N)", 'C15.R1', 'get_weighted_iFFT_matrix'),
    Case('backward_transform_factors_in_forward_order', PH, "return get_J_matrix(N, alpha) @ np.conjugate(get_FFT_matrix(N))", "return np.conjugate(get_FFT_matrix(N)) @ get_J_matrix(N, alpha)", 'C15.R1', 'get_weighted_iFFT_matrix'),
    Case('J_inv_weights_differ', PH, "    gamma = alpha ** (-np.arange(N) / N)\n    return sp.diags(1 / gamma)", "    gamma = alpha ** (-np.arange(N) / (N - 1))\n    return sp.diags(1 / gamma)", 'C15.R1', 'get_J_inv_matrix'),
    Case('fft_not_orthonormal', PH, "return np.exp(-2 * np.pi * 1j * i1 * i2 / N) / np.sqrt(N)", "return np.exp(-2 * np.pi * 1j * i1 * i2 / N) / N", 'C15.R1', 'get_FFT_matrix'),
    Case('E_corner_sign', PH, "    E[0, -1] = -alpha", "    E[0, -1] = alpha", 'C15.R1', 'get_E_matrix'),
    Case('G_inv_uses_other_fft_norm', PH, "norm='backward')", "norm='ortho')", 'C15.R1', 'get_G_inv_matrix'),
    Case('H_first_column', PH, "    H[:, -1] = 1", "    H[:, 0] = 1", 'C15.R1', 'get_H_matrix'),
    Case('step_factor_of_next_step', PC, "G_inv = get_G_inv_matrix(l, num_procs, self.params.alpha, description['sweeper_params'])", "G_inv = get_G_inv_matrix((l + 1) % num_procs, num_procs, self.params.alpha, description['sweeper_params'])", 'C15.R2', '__init__'),
    Case('ifft_applies_forward_matrix', CC, "            self.__iFFT_matrix = get_weighted_iFFT_matrix(self.n_steps, self.params.alpha)", "            self.__iFFT_matrix = get_weighted_FFT_matrix(self.n_steps, self.params.alpha)", 'C15.R2', 'ParaDiagController.iFFT_in_time', more=[("            from pySDC.helpers.ParaDiagHelper import get_weighted_iFFT_matrix\n", "            from pySDC.helpers.ParaDiagHelper import get_weighted_FFT_matrix\n")]),
    Case('solves_before_fft', PC, "        self.FFT_in_time(quantity='residual')\n\n        # perform local solves of \"collocation problems\" on the steps (can be done in parallel)\n        for S in local_MS_running:\n            assert len(S.levels) == 1, 'Multi-level SDC not implemented in ParaDiag'\n            S.levels[0].sweep.update_nodes()\n", "        for S in local_MS_running:\n            assert len(S.levels) == 1, 'Multi-level SDC not implemented in ParaDiag'\n            S.levels[0].sweep.update_nodes()\n\n        self.FFT_in_time(quantity='residual')\n", 'C15.R3', 'it_ParaDiag'),
    Case('ifft_on_residual', PC, "        self.iFFT_in_time(quantity='increment')", "        self.iFFT_in_time(quantity='residual')", 'C15.R3', 'it_ParaDiag'),
    Case('update_only_under_condition', PC, "        self.update_solution(local_MS_running)", "        if self.params.average_jacobian:\n            self.update_solution(local_MS_running)", 'C15.R3', 'it_ParaDiag'),
    Case('increment_subtracted', PC, "                S.levels[0].u[m + 1] += S.levels[0].increment[m]", "                S.levels[0].u[m + 1] -= S.levels[0].increment[m]", 'C15.R3', 'update_solution'),
    Case('apply_matrix_in_place', PC, "                for m in range(M):\n                    res[i][m] += mat[i, j] * me[j][m]\n", "                for m in range(M):\n                    res[i][m] += mat[i, j] * me[j][m]\n            for m in range(M):\n                me[i][m] = res[i][m]\n", 'C15.R4', 'apply_matrix', note='row i overwrites me[i] while later rows still need the old value'),
    Case('apply_matrix_transposed', PC, "res[i][m] += mat[i, j] * me[j][m]", "res[i][m] += mat[j, i] * me[j][m]", 'C15.R4', 'apply_matrix'),
    Case('mat_vec_transposed', SW, "result[-1] += mat[m, j] * vec[j]", "result[-1] += mat[j, m] * vec[j]", 'C15.R4', 'mat_vec'),
    Case('eig_of_other_matrix', SW, "self.computeDiagonalization(A=self.coll.Qmat[1:, 1:] @ self.params.G_inv)", "self.computeDiagonalization(A=self.params.G_inv @ self.coll.Qmat[1:, 1:])", 'C15.R5', 'set_G_inv'),
    Case('S_and_S_inv_swapped', SW, "        z = self.mat_vec(self.S, x2)", "        z = self.mat_vec(self.S_inv, x2)", 'C15.R5', 'update_nodes'),
    Case('solve_with_wrong_eigenvalue', SW, "P.solve_jacobian(x1[m], self.w[m] * L.dt,", "P.solve_jacobian(x1[m], self.w[0] * L.dt,", 'C15.R5', 'update_nodes'),
    Case('G_inv_before_S', SW, "        z = self.mat_vec(self.S, x2)\n        y = self.mat_vec(self.params.G_inv, z)", "        z = self.mat_vec(self.params.G_inv, x2)\n        y = self.mat_vec(self.S, z)", 'C15.R5', 'update_nodes'),
    Case('residual_f_at_previous_node_time', SW, "    def eval_f_at_all_nodes(self):\n        L = self.level\n        P = self.level.prob\n        for m in range(self.coll.num_nodes):\n            L.f[m + 1] = P.eval_f(L.u[m + 1], L.time + L.dt * self.coll.nodes[m])", "    def eval_f_at_all_nodes(self):\n        L = self.level\n        P = self.level.prob\n        for m in range(self.coll.num_nodes):\n            L.f[m + 1] = P.eval_f(L.u[m + 1], L.time + L.dt * self.coll.nodes[m - 1])", 'C15.R6', 'eval_f_at_all_nodes'),
    Case('residual_sign_of_u', SW, "            residual[m] -= self.level.u[m + 1]", "            residual[m] += self.level.u[m + 1]", 'C15.R6', 'get_residual'),
    Case('paradiag_residual_skippable_by_stage', 'pySDC/implementations/controller_classes/controller_ParaDiag_nonMPI.py', "            # compute residuals locally\n            S.levels[0].sweep.compute_residual()\n", "            # compute residuals locally\n            S.levels[0].sweep.compute_residual(stage='IT_FINE')\n", 'C15.R7', 'controller_ParaDiag_nonMPI', note='seed C15c_3'),
    # twins
    Case('slots_compressed_before_the_mask_is_final', 'pySDC/implementations/controller_classes/controller_ParaDiag_nonMPI.py', "            active = [time[p] < Tend - 10 * np.finfo(float).eps for p in slots]\n            if not all(active) and any(active):", "            active = [time[p] < Tend - 10 * np.finfo(float).eps for p in slots]\n            active_slots = list(itertools.compress(slots, active))\n            if not all(active) and any(active):", 'C15.R9', 'controller_ParaDiag_nonMPI.run', more=[("            active_slots = list(itertools.compress(slots, active))\n\n            # restart active steps", "\n            # restart active steps")], note='seed C15g_1'),
    Case('twin_gamma_inlined', PH, "    gamma = alpha ** (-np.arange(N) / N)\n    return sp.diags(gamma)", "    weights = alpha ** (-np.arange(N) / N)\n    return sp.diags(weights)", benign=True),
    Case('twin_eig_names', SW, "        w, S = np.linalg.eig(A)\n        S_inv = np.linalg.inv(S)", "        w, S = np.linalg.eig(A)\n        Sinv = np.linalg.inv(S)\n        S_inv = Sinv", benign=True),
    Case('twin_apply_matrix_loopvars', PC, "        for i in range(mat.shape[0]):\n            for m in range(M):\n                me[i][m] = res[i][m]", "        for row in range(mat.shape[0]):\n            for node in range(M):\n                me[row][node] = res[row][node]", benign=True),
    Case('twin_update_nodes_local', SW, "        z = self.mat_vec(self.S, x2)\n        y = self.mat_vec(self.params.G_inv, z)", "        z = self.mat_vec(self.S, x2)\n        G_inv = self.params.G_inv\n        y = self.mat_vec(G_inv, z)", benign=True),
]
