from ..selftest import Case

SW = 'pySDC/implementations/sweeper_classes/'
GI = SW + 'generic_implicit.py'
IMEX = SW + 'imex_1st_order.py'
NONMPI = 'pySDC/implementations/controller_classes/controller_nonMPI.py'

CASES = [
    Case('imex_QE_for_QI_on_subtract', IMEX, 'integral[m] -= L.dt * (self.QI[m + 1, j] * L.f[j].impl + self.QE[m + 1, j] * L.f[j].expl)', 'integral[m] -= L.dt * (self.QE[m + 1, j] * L.f[j].impl + self.QE[m + 1, j] * L.f[j].expl)', 'C01.R1', 'imex_1st_order.update_nodes', note='QD no longer cancels at the fixed point: answer depends on the preconditioner'),
    Case('imex_factor_missing_dt_addback', IMEX, 'rhs += L.dt * (self.QI[m + 1, j] * L.f[j].impl + self.QE[m + 1, j] * L.f[j].expl)', 'rhs += (self.QI[m + 1, j] * L.f[j].impl + self.QE[m + 1, j] * L.f[j].expl)', 'C01.R1', 'imex_1st_order.update_nodes'),
    Case('gi_solver_factor_lower', GI, 'alpha = L.dt * self.QI[m + 1, m + 1]', 'alpha = L.dt * self.QI[m + 1, m]', 'C01.R1', 'factor of P.solve_system'),
    Case('multi_solver_factor_swapped', SW + 'multi_implicit.py', 'L.dt * self.Q2[m + 1, m + 1],', 'L.dt * self.Q1[m + 1, m + 1],', 'C01.R1', 'solve_system_2', count=1),
    Case('gi_f_index_decoupled', GI, 'rhs += L.dt * self.QI[m + 1, j] * L.f[j]', 'rhs += L.dt * self.QI[m + 1, j] * L.f[j - 1]', 'C01.R1', 'generic_implicit.update_nodes'),
    Case('explicit_tau_sign', SW + 'explicit.py', 'integral[m] += L.tau[m]', 'integral[m] -= L.tau[m]', 'C01.R2', 'explicit.update_nodes'),
    Case('residual_no_tau', 'pySDC/core/sweeper.py', '            if L.tau[m] is not None:\n                L.residual[m] += L.tau[m]\n', '', 'C01.R2', 'Sweeper.compute_residual'),
    Case('endpoint_tau_missing_multi', SW + 'multi_implicit.py', '            if L.tau[-1] is not None:\n                L.uend += L.tau[-1]\n', '', 'C01.R2', 'multi_implicit.compute_end_point'),
    Case('endpoint_branch_inverted', SW + 'explicit.py', 'if self.coll.right_is_node and not self.params.do_coll_update:', 'if self.coll.right_is_node and self.params.do_coll_update:', 'C01.R3', 'explicit.compute_end_point'),
    Case('right_is_node_table', 'pySDC/core/collocation.py', "self.right_is_node = self.quad_type in ['LOBATTO', 'RADAU-RIGHT']", "self.right_is_node = self.quad_type in ['LOBATTO', 'RADAU-RIGHT', 'GAUSS']", 'C01.R3', 'right_is_node'),
    Case('coll_update_switch_removed', 'pySDC/core/sweeper.py', '            self.params.do_coll_update = True\n', '            pass\n', 'C01.R3', 'Sweeper.__init__'),
    Case('recv_stale_f0', NONMPI, '            target.f[0] = target.prob.eval_f(target.u[0], target.time)\n', '', 'C01.R4', 'recv'),
    Case('recv_alias_uend', NONMPI, 'target.u[0] = target.prob.dtype_u(source.uend)', 'target.u[0] = source.uend', 'C01.R4', 'recv'),
    Case('recv_f0_before_copy', NONMPI, '            target.u[0] = target.prob.dtype_u(source.uend)\n            # re-evaluate f on left interval boundary\n            target.f[0] = target.prob.eval_f(target.u[0], target.time)\n', '            target.f[0] = target.prob.eval_f(target.u[0], target.time)\n            target.u[0] = target.prob.dtype_u(source.uend)\n', 'C01.R4', 'recv'),
    Case('send_without_endpoint', NONMPI, '            source.sweep.compute_end_point()\n            source.tag = cp.deepcopy(tag)', '            source.tag = cp.deepcopy(tag)', 'C01.R4', 'send'),
    Case('tag_uses_own_slot_on_recv', NONMPI, 'tag=(level, S.status.iter, S.prev.status.slot)', 'tag=(level, S.status.iter, S.status.slot)', 'C01.R4', 'recv_full'),
    Case('stop_on_coarse_level', 'pySDC/implementations/convergence_controller_classes/check_convergence.py', '        L = S.levels[0]\n', '        L = S.levels[-1]\n', 'C01.R5', 'check_convergence'),
    # benign twins
    Case('twin_demorgan_guard', SW + 'explicit.py', 'if self.coll.right_is_node and not self.params.do_coll_update:', 'if not (not self.coll.right_is_node or self.params.do_coll_update):', benign=True),
    Case('twin_recv_rename', NONMPI, '            target.u[0] = target.prob.dtype_u(source.uend)\n            # re-evaluate f on left interval boundary\n            target.f[0] = target.prob.eval_f(target.u[0], target.time)\n', '            prob = target.prob\n            target.u[0] = prob.dtype_u(source.uend)\n            self.logger.debug("received")\n            target.f[0] = prob.eval_f(target.u[0], target.time)\n', benign=True),
    Case('twin_subtract_lower_only', GI, 'for j in range(1, M + 1):\n                integral[m] -=', 'for j in range(1, m + 2):\n                integral[m] -=', benign=True, note='lower-triangular matrix: subtracting j<=n only is the same'),
]
