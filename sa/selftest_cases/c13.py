from ..selftest import Case

DT = 'pySDC/implementations/datatype_classes/'
SW = 'pySDC/implementations/sweeper_classes/'

CASES = [
    Case('mesh_gets_iadd', DT + 'mesh.py', "    def __abs__(self):\n        \"\"\"\n        Overloading the abs operator\n", "    def __iadd__(self, other):\n        np.add(self.view(np.ndarray), other, out=self.view(np.ndarray))\n        return self\n\n    def __abs__(self):\n        \"\"\"\n        Overloading the abs operator\n", 'C13.R1', 'mesh', note='`rhs = u0; rhs += ..` in RungeKuttaIMEX would overwrite u[0]'),
    Case('ufunc_forwards_out', DT + 'mesh.py', 'results = super().__array_ufunc__(ufunc, method, *args, **kwargs).view(type(self))', 'results = super().__array_ufunc__(ufunc, method, *args, out=out, **kwargs).view(type(self))', 'C13.R1', '__array_ufunc__'),
    Case('particles_add_in_place', DT + 'particles.py', "            p = particles(self)\n            p.pos[:] = self.pos + other.pos\n            p.vel[:] = self.vel + other.vel\n", "            p = self\n            self.pos[:] = self.pos + other.pos\n            self.vel[:] = self.vel + other.vel\n", 'C13.R1', 'particles.__add__'),
    Case('mesh_copy_ctor_views', DT + 'mesh.py', "            obj = np.ndarray.__new__(cls, shape=init.shape, dtype=init.dtype, **kwargs)\n            obj[:] = init[:]\n", "            obj = init.view(cls)\n", 'C13.R1', 'mesh.__new__', note='copies share storage with the original'),
    Case('particles_copy_shares_q', DT + 'particles.py', '            self.q = init.q.copy()\n', '            self.q = init.q\n', 'C13.R1', 'particles.__init__'),
    Case('abs_is_sum', DT + 'mesh.py', 'local_absval = float(np.max(np.ndarray.__abs__(self)))', 'local_absval = float(np.sum(self))', 'C13.R1', '__abs__'),
    Case('inplace_into_uend_after_copy', SW + 'generic_implicit.py', "        if self.coll.right_is_node and not self.params.do_coll_update:\n            # a copy is sufficient\n            L.uend = P.dtype_u(L.u[-1])\n", "        if self.coll.right_is_node and not self.params.do_coll_update:\n            # a copy is sufficient\n            L.uend[:] = L.u[-1]\n", 'C13.R3', 'generic_implicit.compute_end_point', note='the previous step\'s logged/returned uend object is overwritten'),
    Case('sweeper_writes_u0_in_place', SW + 'explicit.py', "            L.u[m + 1] = P.dtype_u(integral[m])\n", "            L.u[m + 1] = P.dtype_u(integral[m])\n            L.u[0][:] = L.u[0]\n", 'C13.R3', 'explicit.update_nodes'),
    Case('verlet_slot_not_fresh', SW + 'verlet.py', '            L.u[m + 1] = P.dtype_u(integral[m])\n', '            L.u[m + 1] = integral[m]\n', 'C13.R3', 'verlet.update_nodes'),
    Case('storeuold_aliases', 'pySDC/implementations/convergence_controller_classes/store_uold.py', 'L.uold[i] = L.prob.dtype_u(L.u[i])', 'L.uold[i] = L.u[i]', 'C13.R4', 'StoreUOld'),
    Case('predict_shares_u0', 'pySDC/core/sweeper.py', "            if self.params.initial_guess == 'spread':\n                L.u[m] = P.dtype_u(L.u[0])\n", "            if self.params.initial_guess == 'spread':\n                L.u[m] = L.u[0]\n", 'C13.R4', 'Sweeper.predict'),
    Case('uend_from_foreign_object', SW + 'explicit.py', '            L.uend = P.dtype_u(L.u[-1])\n', '            L.uend = L.tau[-1]\n', 'C13.R4', 'explicit.compute_end_point'),
    Case('init_step_keeps_callers_object_when_type_matches', 'pySDC/core/step.py', "        self.levels[0].u[0] = P.dtype_u(u0)", "        self.levels[0].u[0] = u0 if type(u0) is P.dtype_u else P.dtype_u(u0)", 'C13.R4', 'Step.init_step'),
    Case('uend_alias_where_nodes_are_written_in_place', 'pySDC/implementations/sweeper_classes/generic_implicit.py', "            L.uend = P.dtype_u(L.u[-1])", "            L.uend = L.u[-1]", 'C13.R4', 'generic_implicit.compute_end_point', note='SemiImplicitDAE delegates here and overwrites node values in place in the next sweep'),
    # twins
    Case('twin_uend_alias_without_inplace_writers', 'pySDC/implementations/sweeper_classes/explicit.py', "            L.uend = P.dtype_u(L.u[-1])", "            L.uend = L.u[-1]", benign=True, note='no sweeper resolving to explicit.compute_end_point writes node values in place: alias is the documented exception (as in Runge_Kutta / Multistep today)'),
    Case('twin_alloc_in_both_arms', SW + 'verlet.py', '            L.u[m + 1] = P.dtype_u(integral[m])\n', '            if m % 2 == 0:\n                L.u[m + 1] = P.dtype_u(integral[m])\n            else:\n                L.u[m + 1] = P.dtype_u(integral[m])\n', benign=True, note='hmm: changes the C02 signature but not C13'),
    Case('twin_helper_dunder', DT + 'particles.py', "    def __abs__(self):\n        \"\"\"\n        Overloading the abs operator", "    def __repr__(self):\n        return 'particles'\n\n    def __abs__(self):\n        \"\"\"\n        Overloading the abs operator", benign=True),
]
