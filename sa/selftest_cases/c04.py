from ..selftest import Case

RK = 'pySDC/implementations/sweeper_classes/Runge_Kutta.py'
AD = 'pySDC/implementations/convergence_controller_classes/adaptivity.py'
EE = 'pySDC/implementations/convergence_controller_classes/estimate_embedded_error.py'
SWP = 'pySDC/core/sweeper.py'

CASES = [
    Case('stage_uses_row_of_previous_stage', RK, "                rhs += lvl.dt * self.QI[m + 1, j] * self.get_full_f(lvl.f[j])", "                rhs += lvl.dt * self.QI[m, j] * self.get_full_f(lvl.f[j])", 'C04.R1', 'RungeKutta.update_nodes'),
    Case('stage_sum_includes_itself', RK, "            rhs = prob.dtype_u(lvl.u[0])\n            for j in range(1, m + 1):", "            rhs = prob.dtype_u(lvl.u[0])\n            for j in range(1, m + 2):", 'C04.R1', 'RungeKutta.update_nodes'),
    Case('imex_explicit_part_with_implicit_matrix', RK, "rhs += lvl.dt * (self.QI[m + 1, j] * lvl.f[j].impl + self.QE[m + 1, j] * lvl.f[j].expl)", "rhs += lvl.dt * (self.QI[m + 1, j] * lvl.f[j].impl + self.QI[m + 1, j] * lvl.f[j].expl)", 'C04.R1', 'RungeKuttaIMEX.update_nodes'),
    Case('implicit_solve_at_previous_node_time', RK, "                    rhs, lvl.dt * self.QI[m + 1, m + 1], lvl.u[m], lvl.time + lvl.dt * self.coll.nodes[m + 1]\n                )\n            else:\n                lvl.u[m + 1] = rhs\n", "                    rhs, lvl.dt * self.QI[m + 1, m + 1], lvl.u[m], lvl.time + lvl.dt * self.coll.nodes[m]\n                )\n            else:\n                lvl.u[m + 1] = rhs\n", 'C04.R1', 'RungeKutta.update_nodes'),
    Case('primary_uses_embedded_row', RK, "                    lvl.uend += lvl.dt * w1 * k\n                    self.u_secondary += lvl.dt * w2 * k", "                    lvl.uend += lvl.dt * w2 * k\n                    self.u_secondary += lvl.dt * w1 * k", 'C04.R2', 'RungeKutta.compute_end_point'),
    Case('stiffly_accurate_secondary_with_primary_weights', RK, "                for w2, k in zip(self.coll.weights[1], lvl.f[1:], strict=True):", "                for w2, k in zip(self.coll.weights[0], lvl.f[1:], strict=True):", 'C04.R2', 'RungeKutta.compute_end_point'),
    Case('imex_secondary_explicit_weights_of_primary', RK, "                    self.coll_explicit.weights[0],\n                    self.coll_explicit.weights[1],\n                    lvl.f[1:],", "                    self.coll_explicit.weights[0],\n                    self.coll_explicit.weights[0],\n                    lvl.f[1:],", 'C04.R2', 'RungeKuttaIMEX.compute_end_point'),
    Case('weights_paired_with_shifted_stages', RK, "                for w, k in zip(self.coll.weights, lvl.f[1:], strict=True):", "                for w, k in zip(self.coll.weights, lvl.f[:-1], strict=True):", 'C04.R2', 'RungeKutta.compute_end_point'),
    Case('embedded_class_without_embedded_coefficients', RK, "    generator = RK_SCHEMES[\"ESDIRK43\"]()\n    nodes, weights, matrix = generator.genCoeffs(embedded=True)", "    generator = RK_SCHEMES[\"ESDIRK43\"]()\n    nodes, weights, matrix = generator.genCoeffs()", 'C04.R3', 'ESDIRK43'),
    Case('controller_ignores_documented_order', AD, "defaults['update_order'] = params.get('update_order', description['sweeper_class'].get_update_order())", "defaults['update_order'] = params.get('update_order', 2)", 'C04.R3', 'AdaptivityRK.setup'),
    Case('estimate_against_start_value', EE, "                return abs(L.uend - L.sweep.u_secondary)\n", "                return abs(L.u[0] - L.sweep.u_secondary)\n", 'C04.R3', 'estimate_embedded_error_serial'),
    Case('spread_shares_u0', SWP, "                L.u[m] = P.dtype_u(L.u[0])\n                L.f[m] = P.eval_f(L.u[m], L.time + L.dt * self.coll.nodes[m - 1])", "                L.u[m] = P.dtype_u(L.u[0])\n                L.f[m] = P.eval_f(L.u[m], L.time)", 'C04.R4', 'Sweeper.predict'),
    # twins
    Case('twin_stage_term_order', RK, "                rhs += lvl.dt * self.QI[m + 1, j] * self.get_full_f(lvl.f[j])", "                rhs += self.QI[m + 1, j] * lvl.dt * self.get_full_f(lvl.f[j])", benign=True),
    Case('twin_loop_names', RK, "                for w, k in zip(self.coll.weights, lvl.f[1:], strict=True):\n                    lvl.uend += lvl.dt * w * k", "                for b, stage in zip(self.coll.weights, lvl.f[1:], strict=True):\n                    lvl.uend += lvl.dt * b * stage", benign=True),
]
