from ..selftest import Case

CO = 'pySDC/core/collocation.py'
SWP = 'pySDC/core/sweeper.py'

CASES = [
    Case('interval_not_passed_on', CO, "tLeft=tleft, tRight=tright", "tLeft=0, tRight=1", 'C05.R1', 'generator built', note='every interval other than [0,1] gets reference-interval coefficients'),
    Case('interval_swapped', CO, "tLeft=tleft, tRight=tright", "tLeft=tright, tRight=tleft", 'C05.R1', 'generator built'),
    Case('degenerate_interval_accepted', CO, "        if not tleft < tright:", "        if not tleft <= tright:", 'C05.R1', 'raise CollocationError'),
    Case('reported_order_is_node_count', CO, "        self.order = self.generator.order", "        self.order = num_nodes", 'C05.R1', 'reported attributes'),
    Case('radau_left_claims_right_node', CO, "self.right_is_node = self.quad_type in ['LOBATTO', 'RADAU-RIGHT']", "self.right_is_node = self.quad_type in ['LOBATTO', 'RADAU-RIGHT', 'RADAU-LEFT']", 'C05.R2', 'right_is_node'),
    Case('gauss_never_switches_to_coll_update', SWP, "        if not self.coll.right_is_node and not self.params.do_coll_update:", "        if not self.coll.left_is_node and not self.params.do_coll_update:", 'C05.R2', 'Sweeper.__init__', expect_error=False),
    Case('Q_not_padded_row', CO, "        Q[1:, 1:] = self.generator.Q", "        Q[1:, 1:] = self.generator.Q\n        Q[0, 1:] = self.generator.weights", 'C05.R3', 'self.Qmat'),
    Case('S_from_cumulative_Q', CO, "        S[1:, 1:] = super(self.generator.__class__, self.generator).S", "        S[1:, 1:] = self.generator.Q", 'C05.R3', 'self.Smat'),
    Case('weights_shared_with_generator', CO, "        self.weights = self.generator.weights.copy()", "        self.weights = self.generator.weights", 'C05.R3', 'nodes and weights'),
    Case('delta_from_zero', CO, "        delta[0] = self.nodes[0] - self.tleft", "        delta[0] = self.nodes[0]", 'C05.R4', '_gen_deltas'),
    Case('sweeper_filters_collocation_params', SWP, "        self.coll: CollBase = params['collocation_class'](**params)", "        self.coll: CollBase = params['collocation_class'](**{k: params[k] for k in ('num_nodes', 'tleft', 'tright', 'quad_type') if k in params})", 'C05.R1', 'Sweeper.__init__', note='node_type is silently dropped'),
    Case('qdelta_generator_without_left_end', 'pySDC/core/sweeper.py', "QDELTA_GENERATORS[qdType](qGen=self.coll.generator, tLeft=self.coll.tleft)", "QDELTA_GENERATORS[qdType](qGen=self.coll.generator)", 'C05.R5', 'Sweeper.buildGenerator', note='seed C05c_3'),
    Case('verlet_end_weights_operands_swapped', 'pySDC/implementations/sweeper_classes/verlet.py', "np.dot(self.coll.weights, self.coll.Qmat[1:, 1:])", "np.dot(self.coll.Qmat[1:, 1:], self.coll.weights)", 'C05.R6', 'verlet', note='seed C05c_2'),
    Case('collocation_kept_when_selected_parameters_agree', 'pySDC/core/sweeper.py', "        self.coll: CollBase = params['collocation_class'](**params)\n", "        key_ = (params['num_nodes'], params.get('quad_type'))\n        if getattr(self, '_coll_key', None) != key_:\n            self.coll: CollBase = params['collocation_class'](**params)\n            self._coll_key = key_\n", 'C05.R7', 'Sweeper.__init__', note='seed C05d_3'),
    # twins
    Case('twin_local_names', CO, "        Q = np.zeros([num_nodes + 1, num_nodes + 1], dtype=float)\n        Q[1:, 1:] = self.generator.Q\n        self.Qmat = Q", "        Qpad = np.zeros([num_nodes + 1, num_nodes + 1], dtype=float)\n        Qpad[1:, 1:] = self.generator.Q\n        self.Qmat = Qpad", benign=True),
    Case('twin_flag_tuple', CO, "self.left_is_node = self.quad_type in ['LOBATTO', 'RADAU-LEFT']", "self.left_is_node = self.quad_type in ('RADAU-LEFT', 'LOBATTO')", benign=True),
]
