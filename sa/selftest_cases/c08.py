from ..selftest import Case

MPI = 'pySDC/implementations/controller_classes/controller_MPI.py'
SW = 'pySDC/implementations/sweeper_classes/'
CC = 'pySDC/implementations/convergence_controller_classes/'
TC = 'pySDC/implementations/transfer_classes/'

CASES = [
    Case('bcast_only_on_root', SW + 'generic_implicit_MPI.py', "            self.comm.Bcast(L.uend, root=root)\n", "            if self.comm.rank == root:\n                self.comm.Bcast(L.uend, root=root)\n", 'C08.R1', 'SweeperMPI.compute_end_point', note='deadlock: non-root ranks never enter the broadcast'),
    Case('allreduce_skipped_when_first', CC + 'check_convergence.py', "            S.status.done = comm.allreduce(sendobj=S.status.done, op=self.MPI_LAND)\n", "            if not S.status.first:\n                S.status.done = comm.allreduce(sendobj=S.status.done, op=self.MPI_LAND)\n", 'C08.R1', 'communicate_convergence'),
    Case('reduce_under_slot_guard', TC + 'BaseTransferMPI.py', "        G.f[0] = PG.eval_f(G.u[0], G.time)\n", "        G.f[0] = PG.eval_f(G.u[0], G.time)\n        if CF.rank > 0:\n            CF.Barrier()\n", 'C08.R1', 'base_transfer_MPI.restrict'),
    Case('collective_in_iteration_loop', CC + 'hotrod.py', '    def determine_restart(self, controller, S, MS, **kwargs):\n', "    def determine_restart(self, controller, S, MS, **kwargs):\n        comm = kwargs.get('comm', None)\n        if comm is not None:\n            comm.allreduce(S.status.restart)\n", 'C08.R1b', 'HotRod.determine_restart', note='ranks leave the iteration loop in different iterations'),
    Case('tag_without_level', MPI, "                dest=self.S.next, tag=level * 100 + self.S.status.iter, comm=comm\n", "                dest=self.S.next, tag=self.S.status.iter, comm=comm\n", 'C08.R2', 'controller_MPI', note='messages of different levels in the same iteration are confused only in multi-level runs'),
    Case('send_guard_not_mirrored', CC + 'check_convergence.py', "            # send status forward\n            if not S.status.last:\n", "            # send status forward\n            if not S.status.last and not S.status.done:\n", 'C08.R2', 'communicate_convergence', note='a posted receive is never matched once the sender is done'),
    Case('restart_buffer_shape_drift', CC + 'basic_restarting.py', "            buff = np.empty(3, dtype=bool)\n            buff[0] = S.status.restart\n", "            buff = np.empty(2, dtype=bool)\n            buff[0] = S.status.restart\n", 'C08.R2', 'BasicRestartingMPI.determine_restart'),
    Case('embedded_error_recv_from_self', CC + 'estimate_embedded_error.py', "self.buffers.e_em_last = self.recv(comm, S.status.slot - 1)", "self.buffers.e_em_last = self.recv(comm, S.status.slot)", 'C08.R2', 'EstimateEmbeddedErrorLinearizedMPI'),
    Case('uend_recomputed_before_wait', MPI, "        if not blocking:\n            self.wait_with_interrupt(request=self.req_send[level])\n            if self.S.status.force_done:\n                return None\n\n        self.S.levels[level].sweep.compute_end_point()\n", "        self.S.levels[level].sweep.compute_end_point()\n\n        if not blocking:\n            self.wait_with_interrupt(request=self.req_send[level])\n            if self.S.status.force_done:\n                return None\n", 'C08.R3', 'send_full', note='the buffer of the outstanding isend is overwritten before the send completes'),
    Case('done_forgets_status_request', MPI, "                if self.req_status is not None:\n                    self.req_status.Wait()\n", "", 'C08.R3', 'it_check'),
    Case('mpi_skips_residual_after_fine_sweep', MPI, "            self.S.levels[0].sweep.compute_residual(stage='IT_FINE')\n\n            for hook in self.hooks:\n                hook.post_sweep(step=self.S, level_number=0)\n", "            self.S.levels[0].sweep.compute_residual(stage='IT_FINE')\n", 'C08.R5', 'IT_FINE', note='callbacks differ from the serial sibling'),
    Case('mpi_goes_up_after_down', MPI, "        self.S.status.stage = 'IT_COARSE'\n\n    def it_coarse", "        self.S.status.stage = 'IT_UP'\n\n    def it_coarse", 'C08.R5', 'IT_DOWN'),
    Case('mpi_predictor_fills_next_node', SW + 'generic_implicit_MPI.py', "            L.u[m + 1] = P.dtype_u(L.u[0])\n            L.f[m + 1] = P.eval_f(L.u[m + 1], L.time + L.dt * self.coll.nodes[m])", "            L.u[m + 1] = P.dtype_u(L.u[0])\n            L.f[m + 1] = P.eval_f(L.u[m + 1], L.time + L.dt * self.coll.nodes[m + 1])", 'C08.R9', 'SweeperMPI.predict'),
    # twins
    Case('twin_collective_under_uniform_guard', SW + 'generic_implicit_MPI.py', "            self.comm.Bcast(L.uend, root=root)\n", "            if self.coll.num_nodes > 0:\n                self.comm.Bcast(L.uend, root=root)\n", benign=True),
    Case('twin_pair_kwargs_order', CC + 'check_convergence.py', "self.Send(comm, dest=S.status.slot + 1, buffer=[buff, self.MPI_BOOL])", "self.Send(comm, buffer=[buff, self.MPI_BOOL], dest=S.status.slot + 1)", benign=True),
]
