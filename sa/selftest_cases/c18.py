from ..selftest import Case

PH = 'pySDC/helpers/problem_helper.py'

CASES = [
    Case('values_as_positions_back', PH, '        for i in range(len(steps)):\n            A_1d += coeff[i] * sp.eye(size, k=steps[i])', '        for i in steps:\n            A_1d += coeff[i] * sp.eye(size, k=steps[i])', 'C18.R1', None, note='the defect repaired by fix 1ce7787 (F1) comes back; right by accident for every contiguous stencil'),
    Case('weight_offset_shifted', PH, 'A_1d += coeff[i] * sp.eye(size, k=steps[i])\n', 'A_1d += coeff[i] * sp.eye(size, k=steps[i - 1])\n', 'C18.R1', 'periodic diagonal'),
    Case('wrap_sign_wrong', PH, 'A_1d += coeff[i] * sp.eye(size, k=-size + steps[i])', 'A_1d += coeff[i] * sp.eye(size, k=size + steps[i])', 'C18.R2', 'wrap-around'),
    Case('wrap_only_positive', PH, "            if steps[i] < 0:\n                A_1d += coeff[i] * sp.eye(size, k=size + steps[i])\n", "", 'C18.R2', 'wrap'),
    Case('sort_steps_first', PH, "    coeff = coeff[np.argsort(steps)]\n    steps = np.sort(steps)\n", "    steps = np.sort(steps)\n    coeff = coeff[np.argsort(steps)]\n", 'C18.R3', 'argsort', note='weights stay in the unsorted order: wrong for backward/upwind layouts only'),
    Case('kron_3d_duplicate_position', PH, '+ sp.kron(sp.kron(sp.eye(size), A_1d), sp.eye(size))', '+ sp.kron(sp.kron(A_1d, sp.eye(size)), sp.eye(size))', 'C18.R4', 'dim == 3'),
    Case('kron_2d_missing_term', PH, 'A = sp.kron(A_1d, sp.eye(size)) + sp.kron(sp.eye(size), A_1d)', 'A = sp.kron(A_1d, sp.eye(size))', 'C18.R4', 'dim == 2'),
    Case('caller_positional_swap', 'pySDC/implementations/problem_classes/generic_ND_FD.py', "            derivative=derivative,\n            order=order,\n            stencil_type=stencil_type,\n            dx=dx,", "            order,\n            derivative,\n            stencil_type=stencil_type,\n            dx=dx,", 'C18.R5', 'GenericNDimFinDiff'),
    # twins
    Case('twin_enumerate', PH, '        for i in range(len(steps)):\n            A_1d += coeff[i] * sp.eye(size, k=steps[i])\n            if steps[i] > 0:\n                A_1d += coeff[i] * sp.eye(size, k=-size + steps[i])\n            if steps[i] < 0:\n                A_1d += coeff[i] * sp.eye(size, k=size + steps[i])', '        for i in range(0, len(coeff)):\n            A_1d += sp.eye(size, k=steps[i]) * coeff[i]\n            if steps[i] < 0:\n                A_1d += coeff[i] * sp.eye(size, k=steps[i] + size)\n            if steps[i] > 0:\n                A_1d += coeff[i] * sp.eye(size, k=steps[i] - size)', benign=True),
]
