from ..selftest import Case

SW = 'pySDC/implementations/sweeper_classes/'
GI = SW + 'generic_implicit.py'
IMEX = SW + 'imex_1st_order.py'

CASES = [
    # ---- mutants: each breaks one coefficient position / sign / term of the (Q - QD) splitting
    Case('gi_addback_includes_diagonal', GI, 'for j in range(1, m + 1):\n                rhs +=', 'for j in range(1, m + 2):\n                rhs +=', 'C02.R2', 'generic_implicit.update_nodes', note='j <= n double counts the diagonal'),
    Case('gi_wrong_sign_subtract', GI, 'integral[m] -= L.dt * self.QI[m + 1, j] * L.f[j]', 'integral[m] += L.dt * self.QI[m + 1, j] * L.f[j]', 'C02.R2', 'generic_implicit.update_nodes'),
    Case('gi_drop_tau', GI, '            if L.tau[m] is not None:\n                integral[m] += L.tau[m]\n', '', 'C02.R2', 'generic_implicit.update_nodes'),
    Case('gi_double_tau', GI, '                integral[m] += L.tau[m]\n', '                integral[m] += L.tau[m]\n                integral[m] += L.tau[m]\n', 'C02.R2', 'generic_implicit.update_nodes'),
    Case('gi_solver_factor_offdiag', GI, 'alpha = L.dt * self.QI[m + 1, m + 1]', 'alpha = L.dt * self.QI[m + 1, m]', 'C02.R2', 'generic_implicit.update_nodes'),
    Case('gi_f_at_old_node_time', GI, 'L.f[m + 1] = P.eval_f(L.u[m + 1], L.time + L.dt * self.coll.nodes[m])', 'L.f[m + 1] = P.eval_f(L.u[m + 1], L.time + L.dt * self.coll.nodes[m - 1])', 'C02.R2', 'generic_implicit.update_nodes'),
    Case('gi_f_before_solve', GI, '            alpha = L.dt * self.QI[m + 1, m + 1]\n', '            L.f[m + 1] = P.eval_f(L.u[m + 1], L.time + L.dt * self.coll.nodes[m])\n            alpha = L.dt * self.QI[m + 1, m + 1]\n', 'C02.R2', 'generic_implicit.update_nodes'),
    Case('gi_weights_pair_shift', GI, 'L.uend += L.dt * self.coll.weights[m] * L.f[m + 1]', 'L.uend += L.dt * self.coll.weights[m] * L.f[m]', 'C02.R4', 'generic_implicit.compute_end_point'),
    Case('gi_endpoint_branch_swapped', GI, 'if self.coll.right_is_node and not self.params.do_coll_update:', 'if not (self.coll.right_is_node and not self.params.do_coll_update):', 'C02.R4', 'generic_implicit.compute_end_point'),
    Case('gi_integrate_transposed', GI, 'me[-1] += L.dt * self.coll.Qmat[m, j] * L.f[j]', 'me[-1] += L.dt * self.coll.Qmat[j, m] * L.f[j]', 'C02.R1', 'generic_implicit.integrate'),
    Case('imex_swapped_matrices_addback', IMEX, 'rhs += L.dt * (self.QI[m + 1, j] * L.f[j].impl + self.QE[m + 1, j] * L.f[j].expl)', 'rhs += L.dt * (self.QE[m + 1, j] * L.f[j].impl + self.QI[m + 1, j] * L.f[j].expl)', 'C02.R2', 'imex_1st_order.update_nodes'),
    Case('imex_integrate_drops_expl', IMEX, "me[m - 1] += L.dt * self.coll.Qmat[m, j] * (L.f[j].impl + L.f[j].expl)", "me[m - 1] += L.dt * self.coll.Qmat[m, j] * (L.f[j].impl)", 'C02.R1', 'imex_1st_order.integrate'),
    Case('verlet_vel_diag_before_feval', SW + 'verlet.py', 'L.u[m + 1].vel += L.dt * self.QT[m + 1, m + 1] * L.f[m + 1]', 'L.u[m + 1].vel += L.dt * self.QT[m + 1, m + 1] * L.f[m]', 'C02.R2', 'verlet.update_nodes'),
    Case('rk_guess_and_time', SW + 'Runge_Kutta.py', 'rhs += lvl.dt * self.QI[m + 1, j] * self.get_full_f(lvl.f[j])', 'rhs += lvl.dt * self.QI[m, j] * self.get_full_f(lvl.f[j])', 'C02.R2', 'RungeKutta.update_nodes'),
    Case('padding_block_shifted', 'pySDC/core/sweeper.py', 'QDmat[1:, 1:] = self.genQI.genCoeffs(k=k)', 'QDmat[:-1, :-1] = self.genQI.genCoeffs(k=k)', 'C02.R5', 'get_Qdelta_implicit'),
    Case('triangular_assert_removed', 'pySDC/core/sweeper.py', "        np.testing.assert_array_equal(np.triu(QDmat, k=0), np.zeros(QDmat.shape), err_msg=err_msg)\n", '', 'C02.R5', 'get_Qdelta_explicit'),
    Case('varcoeff_after_sweep', 'pySDC/implementations/controller_classes/controller_nonMPI.py', '                S.levels[0].sweep.updateVariableCoeffs(k + 1)  # update QDelta coefficients if variable preconditioner\n                S.levels[0].sweep.update_nodes()\n', '                S.levels[0].sweep.update_nodes()\n                S.levels[0].sweep.updateVariableCoeffs(k + 1)\n', 'C02.R6', 'it_fine'),
    Case('varcoeff_wrong_index', 'pySDC/implementations/controller_classes/controller_nonMPI.py', 'S.levels[0].sweep.updateVariableCoeffs(k + 1)', 'S.levels[0].sweep.updateVariableCoeffs(k)', 'C02.R6', 'it_fine'),
    Case('mpi_reduce_wrong_row', SW + 'generic_implicit_MPI.py', 'L.dt * self.coll.Qmat[m + 1, self.rank + 1] * L.f[self.rank + 1], recvBuf', 'L.dt * self.coll.Qmat[self.rank + 1, m + 1] * L.f[self.rank + 1], recvBuf', 'C02.R7', 'generic_implicit_MPI.integrate'),
    Case('cached_alias_of_QI_read_by_the_sweep', IMEX, "        self.QE = self.get_Qdelta_explicit(qd_type=self.params.QE)\n", "        self.QE = self.get_Qdelta_explicit(qd_type=self.params.QE)\n        self.QIc = self.QI\n", 'C02.R6b', 'imex_1st_order ::', more=[("integral[m] -= L.dt * (self.QI[m + 1, j] * L.f[j].impl", "integral[m] -= L.dt * (self.QIc[m + 1, j] * L.f[j].impl")], note='after updateVariableCoeffs rebinds self.QI the cached name still holds QI(1)'),
    Case('mpi_sweeper_f_at_next_node_time', SW + 'generic_implicit_MPI.py', "L.f[self.rank + 1] = P.eval_f(L.u[self.rank + 1], L.time + L.dt * self.coll.nodes[self.rank])", "L.f[self.rank + 1] = P.eval_f(L.u[self.rank + 1], L.time + L.dt * self.coll.nodes[self.rank + 1])", 'C02.R10', 'generic_implicit_MPI'),
    Case('sweep_index_clamped', 'pySDC/core/sweeper.py', "        if hasattr(self, \"genQI\") and self.genQI.isKDependent():", "        k = min(k, self.coll.num_nodes + 1)\n        if hasattr(self, \"genQI\") and self.genQI.isKDependent():", 'C02.R6', 'updateVariableCoeffs'),
    # ---- benign twins: behaviour-preserving edits that must stay silent
    Case('twin_cached_constant_matrix', IMEX, "        self.QE = self.get_Qdelta_explicit(qd_type=self.params.QE)\n", "        self.QE = self.get_Qdelta_explicit(qd_type=self.params.QE)\n        self.QIunused = self.QI\n", benign=True, note='a stale copy nobody reads changes nothing'),
    Case('twin_rename_locals', GI, 'integral', 'known_terms', benign=True, count=7),
    Case('twin_shift_loop', GI, '        for m in range(M):\n            # get -QdF(u^k)_m\n            for j in range(1, M + 1):\n                integral[m] -= L.dt * self.QI[m + 1, j] * L.f[j]\n\n            # add initial value\n            integral[m] += L.u[0]\n            # add tau if associated\n            if L.tau[m] is not None:\n                integral[m] += L.tau[m]',
         '        for m in range(1, M + 1):\n            for j in range(0, M):\n                integral[m - 1] += -(L.dt * self.QI[m, j + 1] * L.f[j + 1])\n            if L.tau[m - 1] is not None:\n                integral[m - 1] += L.tau[m - 1]\n            integral[m - 1] += L.u[0]', benign=True, note='1-based loop, negated +=, reordered independent statements'),
    Case('twin_factor_order', IMEX, 'rhs += L.dt * (self.QI[m + 1, j] * L.f[j].impl + self.QE[m + 1, j] * L.f[j].expl)', 'rhs += self.QE[m + 1, j] * L.f[j].expl * L.dt\n                rhs += L.f[j].impl * L.dt * self.QI[m + 1, j]', benign=True, note='split statement, commuted factors'),
    Case('twin_alias_names', GI, '        L = self.level\n        P = L.prob\n\n        # only if the level has been touched before', '        lvl = self.level\n        L = lvl\n        P = lvl.prob\n\n        # only if the level has been touched before', benign=True),
]
