from ..selftest import Case

PC = 'pySDC/implementations/problem_classes/'

CASES = [
    Case('piline_alias_back', PC + 'Piline.py', '                me[:] = u_init\n', '                me = u_init\n', 'C12.R1', 'piline.u_exact', note='the defect repaired by fix 6214e51 comes back'),
    Case('boris_inplace_back', PC + 'PenningTrap_3D.py', 'cn = c[:, n] + dt / 2 * a', 'c[:, n] += dt / 2 * a', 'C12.R1', 'penningtrap.boris_solver', more=[('Emean[:, n] + cn / 2\n            # rotation', 'Emean[:, n] + c[:, n] / 2\n            # rotation'), ('vel[:, n] = vp + dt / 2 * a * Emean[:, n] + cn / 2', 'vel[:, n] = vp + dt / 2 * a * Emean[:, n] + c[:, n] / 2')], note='fix 7c54d72 reverted'),
    Case('solve_into_rhs', PC + 'TestEquation_0D.py', '        me = self.dtype_u(self.init)\n        L = 1 - factor * self.lambdas\n', '        me = rhs\n        L = 1 - factor * self.lambdas\n', 'C12.R1', 'testequation0d.solve_system', note='the sweeper keeps using rhs afterwards'),
    Case('eval_f_scales_argument_via_view', PC + 'HeatEquation_ND_FD.py', '        f = self.f_init\n        f.impl[:] = self.A.dot(u.flatten()).reshape(self.nvars)', '        f = self.f_init\n        v = u.reshape(-1)\n        v[:] *= 1.0\n        f.impl[:] = self.A.dot(u.flatten()).reshape(self.nvars)', 'C12.R1', 'heatNd_forced.eval_f'),
    Case('write_through_helper', PC + 'Lorenz.py', '    def eval_f(self, u, t):', '    def _scale(self, x):\n        x[0] = 2.0 * x[0]\n\n    def eval_f(self, u, t):', 'C12.R1', 'LorenzAttractor.eval_f', more=[('        f = self.dtype_f(self.init)\n\n        f[0]', '        f = self.dtype_f(self.init)\n        self._scale(u)\n\n        f[0]')], note='two cooperating sites: each looks harmless alone'),
    Case('out_kwarg_into_argument', PC + 'Van_der_Pol_implicit.py', "        f = self.f_init\n", "        f = self.f_init\n        np.multiply(u, 1.0, out=u)\n", 'C12.R1', 'vanderpol.eval_f'),
    Case('return_cached_buffer', PC + 'Lorenz.py', '        f = self.dtype_f(self.init)\n\n        f[0]', '        if not hasattr(self, "_fbuf"):\n            self._fbuf = self.dtype_f(self.init)\n        f = self._fbuf\n\n        f[0]', 'C12.R2', 'LorenzAttractor.eval_f', note='every f slot of the level would alias one buffer'),
    Case('return_argument', PC + 'TestEquation_0D.py', '        me[:] = rhs\n        me /= L\n        return me\n\n    def u_exact(self, t, u_init=None, t_init=None):\n        """\n        Routine to compute the exact solution at time t.', '        me[:] = rhs\n        me /= L\n        return me if factor != 0 else rhs\n\n    def u_exact(self, t, u_init=None, t_init=None):\n        """\n        Routine to compute the exact solution at time t.', 'C12.R2', 'solve_system', count=2),
    # twins
    Case('twin_local_copy_then_write', PC + 'Lorenz.py', '        f = self.dtype_f(self.init)\n\n        f[0]', '        f = self.dtype_f(self.init)\n        w = u.copy()\n        w[0] = 0.0\n\n        f[0]', benign=True),
    Case('twin_rebinding_augassign', PC + 'Van_der_Pol_implicit.py', "        f = self.f_init\n", "        f = self.f_init\n        v = u\n        v = v + 0.0\n        v[0] = v[0]\n", benign=True, note='v is rebound to a fresh value before the store'),
]
