from ..selftest import Case

HK = 'pySDC/core/hooks.py'
H = 'pySDC/implementations/hooks/'
SH = 'pySDC/helpers/stats_helper.py'
PC = 'pySDC/implementations/problem_classes/'

CASES = [
    Case('record_without_iter', H + 'log_step_size.py', "            iter=step.status.iter,\n", "", 'C14.R1', 'LogStepSize.post_step', note='keys of different iterations collide'),
    Case('record_time_of_other_level', H + 'log_restarts.py', '            time=L.time,\n', '            time=step.levels[0].time + step.dt,\n', 'C14.R1', 'LogRestarts.post_step'),
    Case('record_process_constant', H + 'log_solution.py', "        self.add_to_stats(\n            process=step.status.slot,\n            time=L.time + L.dt,\n            level=L.level_index,\n            iter=step.status.iter,\n            sweep=L.status.sweep,\n            type='u',\n            value=L.uend,\n        )\n\n\nclass LogSolutionAfterIteration", "        self.add_to_stats(\n            process=0,\n            time=L.time + L.dt,\n            level=L.level_index,\n            iter=step.status.iter,\n            sweep=L.status.sweep,\n            type='u',\n            value=L.uend,\n        )\n\n\nclass LogSolutionAfterIteration", 'C14.R1', 'LogSolution.post_step'),
    Case('num_restarts_overridable', HK, "            **self.meta_data,\n            **kwargs,\n            'num_restarts': self.__num_restarts,\n", "            **self.meta_data,\n            'num_restarts': self.__num_restarts,\n            **kwargs,\n", 'C14.R1', 'Hooks.add_to_stats'),
    Case('logwork_super_removed', H + 'log_work.py', "        super().post_step(step, level_number)\n\n        L = step.levels[level_number]\n        for key in self.__work_last_step", "        L = step.levels[level_number]\n        for key in self.__work_last_step", 'C14.R2', 'LogWork.post_step', note='the defect repaired by fix 10561b1 comes back'),
    Case('super_after_record', H + 'log_step_size.py', "        super().post_step(step, level_number)\n", "", 'C14.R2', 'LogStepSize.post_step', more=[("            value=L.dt,\n        )\n", "            value=L.dt,\n        )\n        super().post_step(step, level_number)\n")]),
    Case('super_of_other_callback', H + 'log_restarts.py', 'super().post_step(step, level_number)', 'super().pre_step(step, level_number)', 'C14.R2', 'LogRestarts.post_step'),
    Case('base_callback_does_not_refresh', HK, "    def post_sweep(self, step: Optional['Step'], level_number: int) -> None:", "    def post_sweep(self, step: Optional['Step'], level_number: int) -> None:\n        return None\n\n    def _unused_post_sweep(self, step: Optional['Step'], level_number: int) -> None:", 'C14.R2', 'Hooks.post_sweep'),
    Case('recomputed_only_start_time', H + 'default_hook.py', 'for t in [L.time, L.time + L.dt]:', 'for t in [L.time]:', 'C14.R3', '_recomputed'),
    Case('recomputed_literal_drift', SH, "filter_stats(stats, type='_recomputed', recomputed=False, comm=comm)", "filter_stats(stats, type='_recompute', recomputed=False, comm=comm)", 'C14.R3', 'filter_stats'),
    Case('rhs_tick_missing_call', PC + 'AdvectionDiffusionEquation_1D_FFT.py', "        f[:] = np.fft.irfft(tmp)\n\n        self.work_counters['rhs']()\n", "        f[:] = np.fft.irfft(tmp)\n\n        self.work_counters['rhs']\n", 'C14.R5', 'advectiondiffusion1d_implicit.eval_f', note='the defect repaired by fix 2b62a96 comes back'),
    Case('rhs_tick_twice', PC + 'Lorenz.py', "        self.work_counters['rhs']()\n", "        self.work_counters['rhs']()\n        self.work_counters['rhs']()\n", 'C14.R5', 'LorenzAttractor.eval_f'),
    Case('rhs_tick_only_one_branch', PC + 'Van_der_Pol_implicit.py', "        self.work_counters['rhs']()\n        return f", "        if t > 0:\n            self.work_counters['rhs']()\n        return f", 'C14.R5', 'vanderpol.eval_f'),
    Case('filter_any_key', SH, 'if all([k._asdict().get(k2, None) == v2', 'if any([k._asdict().get(k2, None) == v2', 'C14.R6', 'filter_stats'),
    Case('sort_descending', SH, 'sorted_data = sorted(result, key=lambda tup: tup[0])', 'sorted_data = sorted(result, key=lambda tup: tup[0], reverse=True)', 'C14.R6', 'sort_stats'),
    Case('logwork_baseline_first_seen_only', H + 'log_work.py', "        if level_number == 0:\n            self.__work_last_step[step.status.slot] = [", "        if level_number == 0 and step.status.slot not in self.__work_last_step:\n            self.__work_last_step[step.status.slot] = [", 'C14.R8', 'LogWork.pre_step', note='work done between steps is charged to the next step'),
    Case('logwork_baseline_rolled_in_post_step', H + 'log_work.py', "                value=L.prob.work_counters[key].niter - self.__work_last_step[step.status.slot][level_number][key],\n            )\n", "                value=L.prob.work_counters[key].niter - self.__work_last_step[step.status.slot][level_number][key],\n            )\n            self.__work_last_step[step.status.slot][level_number][key] = L.prob.work_counters[key].niter\n", 'C14.R8', 'LogWork ::'),
    Case('logwork_records_absolute_counter', H + 'log_work.py', "value=L.prob.work_counters[key].niter - self.__work_last_step[step.status.slot][level_number][key],", "value=L.prob.work_counters[key].niter,", 'C14.R8', 'LogWork.post_step'),
    Case('filter_generation_per_time_only', SH, "restarts[me.type] = max([restarts.get(me.type, 0), me.num_restarts])", "restarts[me.type] = max([max(restarts.values(), default=0), me.num_restarts])", 'C14.R7', 'filter_stats'),
    # twins
    Case('twin_logwork_local_alias', H + 'log_work.py', "        L = step.levels[level_number]\n        for key in self.__work_last_step[step.status.slot][level_number].keys():", "        L = step.levels[level_number]\n        lvl = level_number\n        for key in self.__work_last_step[step.status.slot][level_number].keys():", benign=True),
    Case('twin_kwargs_reordered', H + 'log_step_size.py', "            process=step.status.slot,\n            time=L.time,\n", "            time=L.time,\n            process=step.status.slot,\n", benign=True),
    Case('twin_tick_first', PC + 'Lorenz.py', "        f = self.dtype_f(self.init)\n", "        self.work_counters['rhs']()\n        f = self.dtype_f(self.init)\n", benign=True, more=[("        self.work_counters['rhs']()\n        return f", "        return f")]),
]
