from ..selftest import Case

BT = 'pySDC/core/base_transfer.py'
TC = 'pySDC/implementations/transfer_classes/'
NONMPI = 'pySDC/implementations/controller_classes/controller_nonMPI.py'

CASES = [
    Case('tau_sign_flipped', BT, 'G.tau[m] = tauFG[m] - tauG[m]', 'G.tau[m] = tauG[m] - tauFG[m]', 'C10.R1', 'tau[n] = + restricted fine integral'),
    Case('tau_wrong_index', BT, 'G.tau[m] = tauFG[m] - tauG[m]', 'G.tau[m] = tauFG[m] - tauG[m - 1]', 'C10.R1', 'tau[n] = + restricted fine integral'),
    Case('inherited_tau_not_restricted', BT, "        if F.tau[0] is not None:\n", "        if False and F.tau[0] is not None:\n", 'C10.R1', 'inherited fine tau', note='three-level runs lose the fine correction'),
    Case('inherited_tau_assigned', BT, 'G.tau[n] += self.Rcoll[n, m] * tmp_tau[m]', 'G.tau[n] = self.Rcoll[n, m] * tmp_tau[m]', 'C10.R1', None),
    Case('rcoll_row_truncated', BT, "            for m in range(1, SF.coll.num_nodes):\n                G.u[n] += self.Rcoll[n - 1, m] * tmp_u[m]", "            for m in range(1, SF.coll.num_nodes - 1):\n                G.u[n] += self.Rcoll[n - 1, m] * tmp_u[m]", 'C10.R1', 'FULL row'),
    Case('coarse_integral_before_feval', BT, "        # build coarse level tau correction part\n        tauG = G.sweep.integrate()\n", "", 'C10.R1', None, more=[("        # re-evaluate f on coarse level\n", "        tauG = G.sweep.integrate()\n        # re-evaluate f on coarse level\n")], note='tauG built from the OLD coarse f'),
    Case('coarse_f_at_fine_times', BT, 'G.f[m] = PG.eval_f(G.u[m], G.time + G.dt * SG.coll.nodes[m - 1])', 'G.f[m] = PG.eval_f(G.u[m], G.time + G.dt * SF.coll.nodes[m - 1])', 'C10.R1', 'coarse f re-evaluated'),
    Case('uold_aliases_u', BT, 'G.uold[m] = PG.dtype_u(G.u[m])', 'G.uold[m] = G.u[m]', 'C10.R1', 'uold/fold'),
    Case('prolong_full_values', BT, "        for m in range(1, SG.coll.num_nodes + 1):\n            tmp_u.append(self.space_transfer.prolong(G.u[m] - G.uold[m]))\n\n        # interpolate values in collocation\n        for n in range(1, SF.coll.num_nodes + 1):\n            for m in range(SG.coll.num_nodes):\n                F.u[n] += self.Pcoll[n - 1, m] * tmp_u[m]\n\n        # re-evaluate f on fine level", "        for m in range(1, SG.coll.num_nodes + 1):\n            tmp_u.append(self.space_transfer.prolong(G.u[m]))\n\n        # interpolate values in collocation\n        for n in range(1, SF.coll.num_nodes + 1):\n            for m in range(SG.coll.num_nodes):\n                F.u[n] += self.Pcoll[n - 1, m] * tmp_u[m]\n\n        # re-evaluate f on fine level", 'C10.R2', 'only the coarse correction'),
    Case('prolong_f_reevaluates_nothing_but_drops_fold', BT, 'tmp_f.append(self.space_transfer.prolong(G.f[m] - G.fold[m]))', 'tmp_f.append(self.space_transfer.prolong(G.f[m]))', 'C10.R2', 'prolong_f'),
    Case('prolong_no_feval', BT, "        # re-evaluate f on fine level\n        for m in range(1, SF.coll.num_nodes + 1):\n            F.f[m] = PF.eval_f(F.u[m], F.time + F.dt * SF.coll.nodes[m - 1])\n\n        return None\n\n    def prolong_f", "        return None\n\n    def prolong_f", 'C10.R2', 'fine f re-evaluated'),
    Case('mass_prolong_assigns', TC + 'BaseTransfer_mass.py', 'F.u[n] += self.Pcoll[n - 1, m] * tmp_u[m]\n\n        # re-evaluate f on fine level', 'F.u[n] = self.Pcoll[n - 1, m] * tmp_u[m]\n\n        # re-evaluate f on fine level', 'C10.R3', 'base_transfer_mass.prolong'),
    Case('mpi_inherited_tau_unguarded_sign', TC + 'BaseTransferMPI.py', 'G.tau[CG.rank] += recvBuf[CG.rank]', 'G.tau[CG.rank] -= recvBuf[CG.rank]', 'C10.R3', 'base_transfer_MPI.restrict'),
    Case('mpi_tau_sum', TC + 'BaseTransferMPI.py', 'G.tau[CG.rank] = tauFG - tauG', 'G.tau[CG.rank] = tauFG + tauG', 'C10.R3', 'base_transfer_MPI.restrict'),
    Case('down_sweep_before_first_restrict', NONMPI, "        for S in local_MS_running:\n            S.transfer(source=S.levels[0], target=S.levels[1])\n\n        for l in range(1, self.nlevels - 1):", "        for l in range(1, self.nlevels - 1):", 'C10.R4', 'it_down'),
    Case('up_sweeps_on_finest', NONMPI, '            if l - 1 > 0:\n                for k in range(self.nsweeps[l - 1]):', '            if l - 1 >= 0:\n                for k in range(self.nsweeps[l - 1]):', 'C10.R4', 'it_up'),
    Case('registry_swapped', 'pySDC/core/step.py', "        if self.base_transfer.params.finter:\n            self.__transfer_dict[(coarse_level, fine_level)] = self.base_transfer.prolong_f\n        else:\n            self.__transfer_dict[(coarse_level, fine_level)] = self.base_transfer.prolong", "        if self.base_transfer.params.finter:\n            self.__transfer_dict[(coarse_level, fine_level)] = self.base_transfer.prolong\n        else:\n            self.__transfer_dict[(coarse_level, fine_level)] = self.base_transfer.prolong_f", 'C10.R4', 'connect_levels'),
    # twins
    Case('twin_unpeeled_row', BT, "            G.u[n] = self.Rcoll[n - 1, 0] * tmp_u[0]\n            for m in range(1, SF.coll.num_nodes):\n                G.u[n] += self.Rcoll[n - 1, m] * tmp_u[m]", "            G.u[n] = PG.dtype_u(PG.init, val=0.0)\n            for m in range(SF.coll.num_nodes):\n                G.u[n] += self.Rcoll[n - 1, m] * tmp_u[m]", benign=True, note='loop not peeled'),
    Case('twin_rename_tmp', BT, 'tmp_tau', 'restricted', benign=True, count=7),
]
