from ..selftest import Case

NONMPI = 'pySDC/implementations/controller_classes/controller_nonMPI.py'
LV = 'pySDC/core/level.py'

CASES = [
    Case('stats_not_reset', NONMPI, "        for hook in self.hooks:\n            hook.reset_stats()\n", "", 'C19.R1', 'controller_nonMPI.run', note='the second run on one controller returns the records of both runs'),
    Case('stats_reset_after_first_block', NONMPI, "        for hook in self.hooks:\n            hook.reset_stats()\n", "", 'C19.R1', 'controller_nonMPI.run', more=[("        # call pre-run hook\n", "        for hook in self.hooks:\n            hook.reset_stats()\n        # call pre-run hook\n")]),
    Case('restart_block_keeps_force_done', NONMPI, "            self.MS[p].status.force_done = False\n", "", 'C19.R1', 'restart_block', note='a forced stop of the previous run leaks into the next one'),
    Case('reset_level_keeps_tau', LV, "        self.tau = [None] * self.sweep.coll.num_nodes\n\n    @property", "\n    @property", 'C19.R1', 'reset_level', note='a single-level run after an MLSDC run on the same step would reuse the old FAS correction'),
    Case('level_status_not_renewed', LV, "        if reset_status:\n            self.status = _Status()\n", "", 'C19.R1', 'reset_level'),
    Case('class_level_iteration_counter', 'pySDC/implementations/convergence_controller_classes/check_convergence.py', "        S.status.done = self.check_convergence(S, self)\n", "        type(self).calls = getattr(type(self), 'calls', 0) + 1\n        S.status.done = self.check_convergence(S, self) or type(self).calls > 10**6\n", 'C19.R2', 'CheckConvergence.check_iteration_status', note='two controllers in one process influence each other'),
    Case('module_global_cache', 'pySDC/core/sweeper.py', "    def predict(self) -> None:\n", "    def predict(self) -> None:\n        global _LAST_PREDICT\n        _LAST_PREDICT = self\n", 'C19.R2', 'Sweeper.predict'),
    Case('global_rng_in_predict', 'pySDC/core/sweeper.py', "L.u[m] = P.dtype_u(init=P.init, val=self.rng.rand(1)[0])", "L.u[m] = P.dtype_u(init=P.init, val=np.random.rand(1)[0])", 'C19.R3', 'Sweeper.predict'),
    Case('steps_share_one_object', NONMPI, "                self.MS.append(dill.copy(self.MS[0]))\n", "                self.MS.append(self.MS[0])\n", 'C19.R4', 'controller_nonMPI.__init__'),
    Case('dict_to_list_shortcut_returns_callers_dict', 'pySDC/core/step.py', "        max_val = 1\n        for _, v in in_dict.items():", "        if not any(type(v) is list for v in in_dict.values()):\n            return [in_dict]\n        max_val = 1\n        for _, v in in_dict.items():", 'C19.R7', 'Step.__dict_to_list', note='sweeper defaults are then written into the dictionary of the caller'),
    Case('level_gets_callers_sweeper_params', 'pySDC/core/step.py', "                sweeper_params=descr_list[l]['sweeper_params'],", "                sweeper_params=descr['sweeper_params'],", 'C19.R7', 'Step.__generate_hierarchy'),
    Case('restart_counter_zeroed_on_own_slot', 'pySDC/implementations/convergence_controller_classes/basic_restarting.py', "            MS[restart_from - S.status.slot].status.restarts_in_a_row = 0", "            S.status.restarts_in_a_row = 0", 'C19.R8', 'prepare_next_block', note='another coverage pattern than the recorded finding F20: reported as new'),
    # twins
    Case('twin_dict_to_list_comprehension', 'pySDC/core/step.py', "        ld = [{} for _ in range(max_val)]", "        ld = [dict() for _ in range(max_val)]", benign=True),
    Case('twin_reset_order', LV, "        self.uold = [None] * (self.sweep.coll.num_nodes + 1)\n        self.f = [None] * (self.sweep.coll.num_nodes + 1)\n", "        self.f = [None] * (self.sweep.coll.num_nodes + 1)\n        self.uold = [None] * (self.sweep.coll.num_nodes + 1)\n", benign=True),
    Case('twin_instance_counter', 'pySDC/implementations/convergence_controller_classes/check_convergence.py', "        S.status.done = self.check_convergence(S, self)\n", "        self.calls = getattr(self, 'calls', 0) + 1\n        S.status.done = self.check_convergence(S, self)\n", benign=True, note='instance state, not class state'),
]
