from ..selftest import Case

SH = 'pySDC/helpers/spectral_helper.py'

CASES = [
    Case('itransform_restarts_from_input_per_axis', SH, "            _u /= norm[(*expansion,)]\n\n            # continue with the next axis from what has been normalised so far\n            u = _u\n", "            _u /= norm[(*expansion,)]\n", 'C17.R1', 'ChebychevHelper.itransform', note='the defect repaired by bb05198 re-introduced'),
    Case('nd_itransform_uses_input_not_running', SH, "                u_hat = self.axes[i].itransform(u_hat, axes=(_axis,))", "                u_hat = self.axes[i].itransform(u, axes=(_axis,))", 'C17.R1', 'SpectralHelper.itransform'),
    Case('idct_other_type', SH, "        return self.fft_lib.idctn(_u, *args, axes=axes, type=2, **kwargs)", "        return self.fft_lib.idctn(_u, *args, axes=axes, type=3, **kwargs)", 'C17.R2', 'DCT-II'),
    Case('backward_multiplies_norm', SH, "            _u /= norm[(*expansion,)]", "            _u *= norm[(*expansion,)]", 'C17.R2', 'MULTIPLIED'),
    Case('norm_first_coefficient_not_halved', SH, "        norm[0] /= 2\n        return norm", "        return norm", 'C17.R2', 'get_norm'),
    Case('ifft_not_divided', SH, "        return plan(u, *args, axes=axes, **kwargs) / np.prod([u.shape[axis] for axis in axes])", "        return plan(u, *args, axes=axes, **kwargs) / u.shape[axes[0]]", 'C17.R2', 'FFTHelper'),
    Case('cheby_derivative_forgets_interval', SH, "        return self.sparse_lib.csc_matrix(self.xp.linalg.matrix_power(D, p)) / self.lin_trf_fac**p", "        return self.sparse_lib.csc_matrix(self.xp.linalg.matrix_power(D, p)) / self.lin_trf_fac", 'C17.R3', 'ChebychevHelper.get_differentiation_matrix'),
    Case('ultraspherical_integral_divides', SH, "            @ self.get_basis_change_matrix(p_out=1, p_in=0)\n            * self.lin_trf_fac", "            @ self.get_basis_change_matrix(p_out=1, p_in=0)\n            / self.lin_trf_fac", 'C17.R3', 'UltrasphericalHelper.get_integration_matrix'),
    Case('wavenumbers_unit_interval', SH, "        return self.xp.fft.fftfreq(self.N, 1.0 / self.N) * 2 * np.pi / self.L", "        return self.xp.fft.fftfreq(self.N, 1.0 / self.N) * 2 * np.pi", 'C17.R3', 'FFTHelper.get_wavenumbers'),
    Case('grid_offset_is_left_end', SH, "        self.lin_trf_off = (x1 + x0) / 2", "        self.lin_trf_off = x0", 'C17.R3', 'ChebychevHelper.__init__'),
    Case('kron_3d_order', SH, "            mat = sp.kron(mats[0], sp.kron(*mats[1:]))", "            mat = sp.kron(sp.kron(*mats[1:]), mats[0])", 'C17.R4', '3-d'),
    Case('identity_of_aligned_axis_size', SH, "            axis = axes[0]\n            I1D = sp.eye(self.axes[axis].N)", "            axis = axes[0]\n            I1D = sp.eye(self.axes[aligned].N)", 'C17.R4', '2-d'),
    Case('nd_diff_expands_on_first_axis', SH, "            D = D @ self.expand_matrix_ND(_D, axis)", "            D = D @ self.expand_matrix_ND(_D, axes[0])", 'C17.R4', 'SpectralHelper.get_differentiation_matrix'),
    Case('bc_factor_stored_before_identities', SH, "                mats[ax] = self.get_local_slice_of_1D_matrix(self.axes[ax].get_Id() @ _Id, axis=ax)\n\n            mats[axis] = self.get_local_slice_of_1D_matrix(BC, axis=axis)\n", "                mats[ax] = self.get_local_slice_of_1D_matrix(self.axes[ax].get_Id() @ _Id, axis=ax)\n", 'C17.R5', '3-d', more=[("            for ax in range(ndim):\n                if ax == axis:\n                    continue\n", "            mats[axis] = self.get_local_slice_of_1D_matrix(BC, axis=axis)\n            for ax in range(ndim):\n                if ax == axis:\n                    continue\n")], note='a negative axis is then overwritten by an identity'),
    Case('bc_kron_2d_reversed', SH, "            mat = self.sparse_lib.csc_matrix(self.sparse_lib.kron(*mats))", "            mat = self.sparse_lib.csc_matrix(self.sparse_lib.kron(*mats[::-1]))", 'C17.R5', '2-d'),
    # twins
    Case('twin_nd_fold_names', SH, "            _S = self.axes[axis].get_integration_matrix()\n            S = S @ self.expand_matrix_ND(_S, axis)", "            S1 = self.axes[axis].get_integration_matrix()\n            S = S @ self.expand_matrix_ND(S1, axis)", benign=True),
    Case('twin_carry_at_loop_start', SH, "        for axis in axes:\n\n            if self.N == u.shape[axis]:\n                _u = u.copy()", "        for axis in axes:\n\n            if self.N == u.shape[axis]:\n                _u = u.copy()  # u is the running array, see end of the loop", benign=True),
    Case('twin_norm_local', SH, "        N = self.N if N is None else N\n        norm = self.xp.ones(N) / N", "        N = self.N if N is None else N\n        ones = self.xp.ones(N)\n        norm = ones / N", benign=True),
]
