"""Normal form of short straight-line helper functions: single-assignment locals are substituted into the expressions that use
them, locals that are mutated afterwards (x[...] = ..) are renamed by order of definition (_v1, _v2, ..).  The result is a list
of facts ('assign', name, expr) / ('store', target, expr, guards) / ('return', expr, guards) that is insensitive to the names
of locals and to splitting an expression over several statements."""

import ast
import copy

from .cfg import FuncCFG, walk_no_nested


def _norm_ws(node):
    return ast.unparse(node)


def facts(fn, keep=()):
    stmts = sorted((s for s in walk_no_nested(fn) if isinstance(s, (ast.Assign, ast.AugAssign, ast.Return))), key=lambda s: (s.lineno, s.col_offset))
    cfg = FuncCFG(fn)
    count = {}
    mutated = set()
    for s in stmts:
        tg = s.targets if isinstance(s, ast.Assign) else [s.target] if isinstance(s, ast.AugAssign) else []
        for t in tg:
            for e in (t.elts if isinstance(t, ast.Tuple) else [t]):
                if isinstance(e, ast.Name):
                    count[e.id] = count.get(e.id, 0) + (2 if isinstance(s, ast.AugAssign) else 1)
                elif isinstance(e, (ast.Subscript, ast.Attribute)):
                    b = e
                    while isinstance(b, (ast.Subscript, ast.Attribute)):
                        b = b.value
                    if isinstance(b, ast.Name):
                        mutated.add(b.id)
    in_loop = set()
    for l in walk_no_nested(fn):
        if isinstance(l, (ast.For, ast.While)):
            for s in ast.walk(l):
                if isinstance(s, ast.Assign):
                    for t in s.targets:
                        if isinstance(t, ast.Name):
                            in_loop.add(t.id)
    env = {}
    ren = {}

    class Sub(ast.NodeTransformer):
        def visit_Name(self, n):
            if isinstance(n.ctx, ast.Load) and n.id in env:
                return copy.deepcopy(env[n.id])
            if n.id in ren:
                return ast.copy_location(ast.Name(ren[n.id], n.ctx), n)
            return n

    def sub(e):
        return ast.unparse(Sub().visit(copy.deepcopy(e)))

    def guards(s):
        return tuple(sorted((sub(t) if pol else f'not ({sub(t)})') for t, pol in cfg.guards.get(id(s), ())))

    out = []
    for s in stmts:
        if isinstance(s, ast.Return):
            out.append(('return', sub(s.value) if s.value is not None else 'None', guards(s)))
            continue
        if isinstance(s, ast.AugAssign):
            out.append(('aug', sub(s.target), type(s.op).__name__, sub(s.value), guards(s)))
            continue
        t = s.targets[0]
        if len(s.targets) == 1 and isinstance(t, ast.Name):
            simple = count.get(t.id) == 1 and t.id not in in_loop and not cfg.guards.get(id(s)) and t.id not in keep
            if simple and t.id not in mutated:
                env[t.id] = Sub().visit(copy.deepcopy(s.value))
                continue
            if t.id in mutated and t.id not in ren:
                ren[t.id] = f'_v{len(ren) + 1}'
            out.append(('assign', ren.get(t.id, t.id), sub(s.value), guards(s)))
        else:
            val = sub(s.value)
            if isinstance(t, ast.Tuple):
                for e in t.elts:
                    if isinstance(e, ast.Name) and e.id in mutated and e.id not in ren:
                        ren[e.id] = f'_v{len(ren) + 1}'
            out.append(('store', sub(t), val, guards(s)))
    return out


def inline_block(stmts):
    """Straight-line block: names assigned once in the block are substituted into the later statements of the block.
    Returns the remaining statements (stores / augmented assignments / returns / expression calls) as text."""
    env = {}
    count = {}
    for s in stmts:
        if isinstance(s, ast.Assign) and len(s.targets) == 1 and isinstance(s.targets[0], ast.Name):
            count[s.targets[0].id] = count.get(s.targets[0].id, 0) + 1

    class Sub(ast.NodeTransformer):
        def visit_Name(self, n):
            if isinstance(n.ctx, ast.Load) and n.id in env:
                return copy.deepcopy(env[n.id])
            return n

    out = []
    for s in stmts:
        if isinstance(s, ast.Assign) and len(s.targets) == 1 and isinstance(s.targets[0], ast.Name) and count[s.targets[0].id] == 1:
            env[s.targets[0].id] = Sub().visit(copy.deepcopy(s.value))
            continue
        out.append(ast.unparse(Sub().visit(copy.deepcopy(s))))
    return out
