"""Signatures: merged normal-form contribution lines of a function, compared against lines generated from a template.

A *line* is ``target op terms | loops | guards``; ``+=`` contributions with the same target, loops and guards are merged
into one sorted multiset of signed factor products, so splitting or joining statements does not change a signature.
Locals are renamed by role before rendering (the list assigned from ``self.integrate()`` is ``KNOWN`` whatever it is
called), so renaming a local does not change a signature either.
"""

import ast
import re

from .norm import Normalizer, assigned_names


def render_terms(terms):
    ts = sorted(terms, key=lambda t: (t[1], -t[0]))
    return ' '.join(('+' if s > 0 else '-') + ('·'.join(f) if f else '1') for s, f in ts)


def render_loops(loops):
    return ', '.join(repr(l) for l in loops)


class Line:
    def __init__(self, target, op, terms, rhs, loops, guards, stmts):
        self.target, self.op, self.terms, self.rhs, self.loops, self.guards, self.stmts = target, op, terms, rhs, loops, guards, stmts

    def text(self):
        body = render_terms(self.terms) if self.op == '+=' else self.rhs
        return f'{self.target} {self.op} {body} | {self.loops} | {" and ".join(f"({g})" if " or " in g or " if " in g else g for g in self.guards)}'

    def lineno(self):
        return self.stmts[0].lineno if self.stmts else 0


def T(target, op, body, loops='', guards=''):
    """template line; for '+=' body is a list of (sign, [factors])"""
    if op == '+=':
        body = render_terms([(s, tuple(sorted(f))) for s, f in body])
    return f'{target} {op} {body} | {loops} | {guards}'


class Signature:
    def __init__(self, fn, rename=None, inline_scalars=True):
        self.fn = fn
        self.N = Normalizer(fn, inline_scalars=inline_scalars)
        self.rename = dict(rename or {})
        self.lines = self._build()

    def _rn(self, s):
        for a, b in self.rename.items():
            s = re.sub(rf'(?<![\w.]){re.escape(a)}(?![\w])', b, s)
        return s

    def _build(self):
        merged = {}
        order = []
        epoch = {}

        def _base(t):
            return re.split(r'[\[.]', t, maxsplit=1)[0] if not t.startswith(('L.', 'self.')) else t.split('[')[0]

        for c in self.N.contribs:
            if c.target in self.N.env.alias and c.op == '=':
                continue
            tgt = self._rn(c.target)
            loops = self._rn(render_loops(c.loops))
            guards = tuple(self._rn(g) for g in c.guards)
            if c.op == '+=' and c.terms is not None:
                terms = [(s, tuple(sorted(self._rn(x) for x in f))) for s, f in c.terms]
                key = (tgt, '+=', loops, guards, epoch.get(_base(tgt), 0))
                if key not in merged:
                    merged[key] = Line(tgt, '+=', [], None, loops, guards, [])
                    order.append(key)
                merged[key].terms.extend(terms)
                merged[key].stmts.append(c.stmt)
            else:
                key = (tgt, c.op, loops, guards, len(order))
                # a plain assignment closes the open `+=` groups of that variable (no merging across a re-definition)
                epoch[_base(tgt)] = epoch.get(_base(tgt), 0) + 1
                merged[key] = Line(tgt, c.op, None, self._rn(c.rhs) if c.rhs else c.rhs, loops, guards, [c.stmt])
                order.append(key)
        return [merged[k] for k in order]

    def select(self, pattern):
        rx = re.compile(pattern)
        return [l for l in self.lines if rx.search(l.target)]

    def texts(self, pattern):
        return [l.text() for l in self.select(pattern)]


def _canon_guard(text):
    """`target op body | loops | guards` with the guard part replaced by its negation normal form (De Morgan, double negation,
    order of conjuncts do not matter)"""
    import ast as _ast
    from .norm import nnf
    head, sep, g = text.rpartition(' | ')
    if not sep or not g.strip():
        return text
    try:
        nf = nnf(_ast.parse(g, mode='eval').body, lambda n: _ast.unparse(n))
    except SyntaxError:
        return text
    return head + sep + repr(nf)


def compare(found_lines, expected_texts, alternatives=None):
    """Multiset comparison (guards compared in negation normal form). `alternatives` maps an expected text to a list of other
    accepted texts.  Returns (missing, extra) in the original spelling."""
    found = [l.text() for l in found_lines]
    rest = list(found)
    rest_c = [_canon_guard(x) for x in rest]
    missing = []
    for e in expected_texts:
        cands = [e] + list((alternatives or {}).get(e, []))
        for c in cands:
            cc = _canon_guard(c)
            if cc in rest_c:
                i = rest_c.index(cc)
                rest.pop(i)
                rest_c.pop(i)
                break
        else:
            missing.append(e)
    return missing, rest


def local_assigned_from(fn, N, predicate):
    """names of locals with an assignment whose canonical rhs satisfies predicate(str)"""
    out = []
    for c in N.contribs:
        if c.op == '=' and c.rhs and re.fullmatch(r'[A-Za-z_]\w*', c.target) and predicate(c.rhs):
            if c.target not in out:
                out.append(c.target)
    return out


def vocabulary_ok(lines, allowed_patterns):
    """True when every factor of every '+=' line and every rhs matches one of the allowed regexes (recognised idioms)."""
    rxs = [re.compile(p) for p in allowed_patterns]
    bad = []
    for l in lines:
        items = [x for _, f in (l.terms or []) for x in f] if l.op == '+=' else [l.rhs or '']
        for it in items:
            if not any(r.fullmatch(it) for r in rxs):
                bad.append(it)
    return bad
