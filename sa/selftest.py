"""Both-ways test of the checker (thorough tier): mutants must be reported, benign twins must stay silent.

A case is an exact-text edit of one in-scope file that still compiles.  It is applied to a scratch copy of the in-scope
tree (mkdtemp outside /repo and /verif, removed afterwards), the rules of the property run with --root on that copy,
and the outcome is compared with the expectation: the named rule fires on the named construct (mutant) or nothing
fires (benign twin).  Cases whose anchor text is no longer present in the tree are reported as inapplicable.
"""

import importlib
import os
import shutil
import tempfile
import multiprocessing as mp

from .model import LIB_DIRS, AnalysisError


class Case:
    def __init__(self, cid, relpath, old, new, rule=None, where=None, benign=False, count=1, note='', expect_error=False, more=()):
        self.cid, self.relpath, self.old, self.new = cid, relpath, old, new
        self.rule, self.where, self.benign, self.count, self.note = rule, where, benign, count, note
        self.expect_error = expect_error
        self.more = list(more)  # further (old, new) edits in the same file, each expected exactly once


def cases_for(prop):
    try:
        mod = importlib.import_module(f'sa.selftest_cases.{prop.lower()}')
    except ModuleNotFoundError:
        return []
    return list(mod.CASES)


def _copy_tree(root, dst):
    for d in LIB_DIRS:
        shutil.copytree(os.path.join(root, d), os.path.join(dst, d), ignore=shutil.ignore_patterns('__pycache__', 'tests', 'data', '*.pyc'))


def _run_case(args):
    prop, root, case = args
    from . import runner

    tmp = tempfile.mkdtemp(prefix='pysdc_sa_')
    try:
        _copy_tree(root, tmp)
        path = os.path.join(tmp, case.relpath)
        with open(path) as fh:
            src = fh.read()
        if src.count(case.old) != case.count:
            return (case.cid, 'inapplicable', f'anchor text occurs {src.count(case.old)}x, expected {case.count}x')
        new_src = src.replace(case.old, case.new)
        for o, n in case.more:
            if new_src.count(o) != 1:
                return (case.cid, 'inapplicable', f'anchor text of a further edit occurs {new_src.count(o)}x')
            new_src = new_src.replace(o, n)
        try:
            compile(new_src, path, 'exec')
        except SyntaxError as e:
            return (case.cid, 'broken-case', f'mutated file does not compile: {e}')
        with open(path, 'w') as fh:
            fh.write(new_src)
        try:
            runs = runner.run_property(prop, tmp, 'quick', 0)
        except AnalysisError as e:
            if case.expect_error:
                return (case.cid, 'ok', f'ANALYSIS-ERROR as expected: {str(e)[:120]}')
            return (case.cid, 'fail', f'ANALYSIS-ERROR: {str(e)[:200]}')
        kf, viol = runner.classify(prop, runs)
        if case.benign:
            if viol:
                return (case.cid, 'fail', f'benign twin raised {viol[0].rule} on {viol[0].construct}')
            return (case.cid, 'ok', 'silent')
        if case.expect_error:
            return (case.cid, 'fail', 'expected ANALYSIS-ERROR, analysis passed')
        hit = [v for v in viol if (case.rule is None or v.rule == case.rule) and (case.where is None or case.where in v.construct or case.where in v.where)]
        if hit:
            return (case.cid, 'ok', f'{hit[0].rule} :: {hit[0].construct}')
        if viol:
            return (case.cid, 'fail', f'reported elsewhere: {viol[0].rule} :: {viol[0].construct}; expected {case.rule} at {case.where}')
        return (case.cid, 'fail', f'mutant survived (expected {case.rule} at {case.where})')
    finally:
        shutil.rmtree(tmp, ignore_errors=True)


def run_for(prop, root, seed=0, jobs=16):
    cases = cases_for(prop)
    if not cases:
        return {'selftest': {'cases': 0}}, []
    with mp.Pool(min(jobs, len(cases))) as pool:
        res = pool.map(_run_case, [(prop, root, c) for c in cases])
    table = []
    fails = []
    by = {c.cid: c for c in cases}
    for cid, status, detail in res:
        c = by[cid]
        table.append({'case': cid, 'kind': 'benign-twin' if c.benign else 'mutant', 'file': c.relpath, 'expect': 'silent' if c.benign else f'{c.rule} @ {c.where}', 'status': status, 'detail': detail, 'note': c.note})
        if status in ('fail', 'broken-case'):
            fails.append(f'{cid}: {detail}')
    n_mut = sum(1 for c in cases if not c.benign)
    n_ben = sum(1 for c in cases if c.benign)
    extra = {
        'selftest': {
            'cases': len(cases), 'mutants': n_mut, 'benign_twins': n_ben,
            'killed': sum(1 for t in table if t['kind'] == 'mutant' and t['status'] == 'ok'),
            'twins_silent': sum(1 for t in table if t['kind'] == 'benign-twin' and t['status'] == 'ok'),
            'inapplicable': sum(1 for t in table if t['status'] == 'inapplicable'),
            'table': table,
        }
    }
    for t in table:
        print(f"selftest {t['case']:34s} {t['kind']:11s} {t['status']:12s} {t['detail'][:110]}")
    return extra, fails


def main():
    """python -m sa.selftest C02 [--root /repo]"""
    import sys

    prop = sys.argv[1].upper()
    root = sys.argv[3] if len(sys.argv) > 3 else '/repo'
    extra, fails = run_for(prop, root)
    print('FAILS:', fails)
    return 1 if fails else 0


if __name__ == '__main__':
    import sys

    sys.exit(main())
