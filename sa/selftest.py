"""Both-ways test of the checker (thorough tier): mutants must be reported, benign twins must stay silent.

A case is an exact-text edit of one in-scope file that still compiles.  It is applied to a scratch copy of the in-scope
tree (mkdtemp outside /repo and /verif, removed afterwards), the rules of the property run with --root on that copy,
and the outcome is compared with the expectation: the named rule fires on the named construct (mutant) or nothing
fires (benign twin).  Cases whose anchor text is no longer present in the tree are reported as inapplicable.
"""

import importlib
import os
import shutil
import tempfile
import multiprocessing as mp

from .model import LIB_DIRS, AnalysisError


# frozen minimum detection ratio of the AST-computed mutants per property (measured on the pinned tree minus a margin)
AUTO_FLOOR = {  # 0.6 x the detection ratio measured with VERIF_SEED=1 on /repo 5b8da99 with the final rule set (sampling noise of 400
    # mutants is about +-0.03).  The ratios of C03, C07, C15, C17, C19, C20 are low because shared / inventory rules put hundreds of
    # functions into the pool of which they look at one clause only (e.g. C20.R12 scans every function for `self.params.x = ..`).
    'C01': 0.30, 'C02': 0.24, 'C03': 0.09, 'C04': 0.45, 'C05': 0.52, 'C06': 0.29, 'C07': 0.13, 'C08': 0.20, 'C09': 0.25, 'C10': 0.52,
    'C11': 0.36, 'C12': 0.43, 'C13': 0.03, 'C14': 0.14, 'C15': 0.25, 'C16': 0.24, 'C17': 0.15, 'C18': 0.17, 'C19': 0.06, 'C20': 0.07,
}
# properties about aliasing are probed with the value-semantics operators only (sign / index mutants cannot create an alias)
# C02 re-measured in the continuation round (DESIGN 11.7): C02.R17 / R19 / R20 put the controllers and every sweeper of the projects into
# its pool (2.2x the mutation points, most of them outside the clauses C02 decides): ratio 0.40 -> floor 0.24.
AUTO_OPS = {'C12': {'uncopy', 'aliasparam'}, 'C13': {'uncopy', 'aliasparam', 'delete', 'swap'}}


class Case:
    def __init__(self, cid, relpath, old, new, rule=None, where=None, benign=False, count=1, note='', expect_error=False, more=()):
        self.cid, self.relpath, self.old, self.new = cid, relpath, old, new
        self.rule, self.where, self.benign, self.count, self.note = rule, where, benign, count, note
        self.expect_error = expect_error
        self.more = list(more)  # further (old, new) edits in the same file, each expected exactly once


def cases_for(prop):
    try:
        mod = importlib.import_module(f'sa.selftest_cases.{prop.lower()}')
    except ModuleNotFoundError:
        return []
    return list(mod.CASES)


def _copy_tree(root, dst):
    for d in LIB_DIRS:
        shutil.copytree(os.path.join(root, d), os.path.join(dst, d), ignore=shutil.ignore_patterns('__pycache__', 'tests', 'data', '*.pyc'))
    # the python sources of the projects (rules that follow class hierarchies into project code, e.g. C03.R11)
    proj = os.path.join(root, 'pySDC', 'projects')
    for dp, dn, fn in os.walk(proj):
        dn[:] = [x for x in dn if x not in ('__pycache__', 'tests', 'data')]
        for f in fn:
            if f.endswith('.py'):
                src = os.path.join(dp, f)
                tgt = os.path.join(dst, os.path.relpath(src, root))
                if not os.path.exists(tgt):
                    os.makedirs(os.path.dirname(tgt), exist_ok=True)
                    shutil.copyfile(src, tgt)


def _run_case(args):
    prop, root, case = args
    from . import runner

    tmp = tempfile.mkdtemp(prefix='pysdc_sa_')
    try:
        _copy_tree(root, tmp)
        path = os.path.join(tmp, case.relpath)
        with open(path) as fh:
            src = fh.read()
        if src.count(case.old) != case.count:
            return (case.cid, 'inapplicable', f'anchor text occurs {src.count(case.old)}x, expected {case.count}x')
        new_src = src.replace(case.old, case.new)
        for o, n in case.more:
            if new_src.count(o) != 1:
                return (case.cid, 'inapplicable', f'anchor text of a further edit occurs {new_src.count(o)}x')
            new_src = new_src.replace(o, n)
        try:
            compile(new_src, path, 'exec')
        except SyntaxError as e:
            return (case.cid, 'broken-case', f'mutated file does not compile: {e}')
        with open(path, 'w') as fh:
            fh.write(new_src)
        try:
            runs = runner.run_property(prop, tmp, 'quick', 0)
        except AnalysisError as e:
            if case.expect_error:
                return (case.cid, 'ok', f'ANALYSIS-ERROR as expected: {str(e)[:120]}')
            return (case.cid, 'fail', f'ANALYSIS-ERROR: {str(e)[:200]}')
        kf, viol = runner.classify(prop, runs)
        if case.benign:
            if viol:
                return (case.cid, 'fail', f'benign twin raised {viol[0].rule} on {viol[0].construct}')
            return (case.cid, 'ok', 'silent')
        if case.expect_error:
            return (case.cid, 'fail', 'expected ANALYSIS-ERROR, analysis passed')
        hit = [v for v in viol if (case.rule is None or v.rule == case.rule) and (case.where is None or case.where in v.construct or case.where in v.where)]
        if hit:
            return (case.cid, 'ok', f'{hit[0].rule} :: {hit[0].construct}')
        if viol:
            return (case.cid, 'fail', f'reported elsewhere: {viol[0].rule} :: {viol[0].construct}; expected {case.rule} at {case.where}')
        return (case.cid, 'fail', f'mutant survived (expected {case.rule} at {case.where})')
    finally:
        shutil.rmtree(tmp, ignore_errors=True)


def run_for(prop, root, seed=0, jobs=16):
    cases = cases_for(prop)
    if not cases:
        return {'selftest': {'cases': 0}}, []
    with mp.Pool(min(jobs, len(cases))) as pool:
        res = pool.map(_run_case, [(prop, root, c) for c in cases])
    table = []
    fails = []
    by = {c.cid: c for c in cases}
    for cid, status, detail in res:
        c = by[cid]
        table.append({'case': cid, 'kind': 'benign-twin' if c.benign else 'mutant', 'file': c.relpath, 'expect': 'silent' if c.benign else f'{c.rule} @ {c.where}', 'status': status, 'detail': detail, 'note': c.note})
        if status in ('fail', 'broken-case'):
            fails.append(f'{cid}: {detail}')
    n_mut = sum(1 for c in cases if not c.benign)
    n_ben = sum(1 for c in cases if c.benign)
    extra = {
        'selftest': {
            'cases': len(cases), 'mutants': n_mut, 'benign_twins': n_ben,
            'killed': sum(1 for t in table if t['kind'] == 'mutant' and t['status'] == 'ok'),
            'twins_silent': sum(1 for t in table if t['kind'] == 'benign-twin' and t['status'] == 'ok'),
            'inapplicable': sum(1 for t in table if t['status'] == 'inapplicable'),
            'table': table,
        }
    }
    for t in table:
        print(f"selftest {t['case']:34s} {t['kind']:11s} {t['status']:12s} {t['detail'][:110]}")
    if os.environ.get('SA_NO_AUTO'):
        return extra, fails
    auto = auto_mutants(prop, root, seed)
    extra.update(auto)
    a = auto['auto_mutants']
    print(f"auto-mutants: {a['mutants_run']} of {a['mutation_points']} points run, {a['reported_as_violation']} violations, {a['reported_as_analysis_error']} analysis errors, {a['survived']} survived (detection {a['detection_ratio']})")
    floor = AUTO_FLOOR.get(prop)
    if floor is not None and a['detection_ratio'] < floor:
        fails.append(f"auto-mutant detection ratio {a['detection_ratio']} fell below the frozen floor {floor}")
    return extra, fails


def _run_auto(args):
    prop, root, relpath, source, item = args
    from . import runner, mutate

    fname, op = item[0], item[1]
    made = mutate.realise(source, item)
    if made is None:
        return (relpath, fname, op, 'not applicable', 'skipped', '')
    desc, src = made

    tmp = tempfile.mkdtemp(prefix='pysdc_sa_')
    try:
        _copy_tree(root, tmp)
        with open(os.path.join(tmp, relpath), 'w') as fh:
            fh.write(src)
        try:
            runs = runner.run_property(prop, tmp, 'quick', 0)
        except AnalysisError as e:
            return (relpath, fname, op, desc, 'analysis-error', str(e)[:100])
        except Exception as e:  # a mutant may break the checker's own assumptions: count as analysis error
            return (relpath, fname, op, desc, 'analysis-error', f'{type(e).__name__}: {e}'[:100])
        kf, viol = runner.classify(prop, runs)
        if viol:
            return (relpath, fname, op, desc, 'violation', f'{viol[0].rule} :: {viol[0].construct}'[:120])
        return (relpath, fname, op, desc, 'survived', '')
    finally:
        shutil.rmtree(tmp, ignore_errors=True)


def auto_mutants(prop, root, seed=0, cap=400, jobs=16):
    """AST-computed single-point mutants of every function the rules of `prop` analysed on the clean tree."""
    from . import runner, mutate

    runs = runner.run_property(prop, root, 'quick', seed)
    by_file = {}
    for rr in runs:
        for w in rr.analysed['functions']:
            if ':' not in w:
                continue
            rel, fn = w.split(':', 1)
            if '/' in fn or ' ' in fn:
                continue
            by_file.setdefault(rel, set()).add(fn)
    plans = []
    sources = {}
    for rel, names in sorted(by_file.items()):
        path = os.path.join(root, rel)
        if not os.path.isfile(path):
            continue
        with open(path) as fh:
            sources[rel] = fh.read()
        for item in mutate.plan(sources[rel], names):
            if prop in AUTO_OPS and item[1] not in AUTO_OPS[prop]:
                continue
            plans.append((rel, item))
    total = len(plans)
    import random

    rnd = random.Random(seed)
    cap = int(os.environ.get('VERIF_MUTANTS', cap))
    if len(plans) > cap:
        plans = rnd.sample(plans, cap)
    jobs_ = [(prop, root, rel, sources[rel], item) for rel, item in plans]
    with mp.Pool(min(jobs, max(1, len(jobs_)))) as pool:
        res = pool.map(_run_auto, jobs_, chunksize=2)
    res = [r for r in res if r[4] != 'skipped']
    by_op = {}
    for rel, fname, op, desc, status, detail in res:
        d = by_op.setdefault(op, {'violation': 0, 'analysis-error': 0, 'survived': 0})
        d[status] += 1
    detected = sum(1 for r in res if r[4] != 'survived')
    surv = [{'file': r[0], 'function': r[1], 'mutation': r[3]} for r in res if r[4] == 'survived']
    return {
        'auto_mutants': {
            'functions_mutated': sum(len(v) for v in by_file.values()), 'mutation_points': total, 'mutants_run': len(res), 'sampled_with_seed': seed if total > cap else None,
            'reported_as_violation': sum(1 for r in res if r[4] == 'violation'), 'reported_as_analysis_error': sum(1 for r in res if r[4] == 'analysis-error'),
            'survived': len(surv), 'detection_ratio': round(detected / max(1, len(res)), 3), 'by_operator': by_op,
            'survivors': surv[:60],
            'note': 'survivors are equivalent mutants, mutations outside the structural clauses of the property (logging, messages, unrelated branches of an analysed function) or gaps; they are listed, not hidden',
        }
    }


def main():
    """python -m sa.selftest C02 [--root /repo]"""
    import sys

    prop = sys.argv[1].upper()
    root = sys.argv[3] if len(sys.argv) > 3 else '/repo'
    os.environ.setdefault('SA_NO_AUTO', '1')  # the module CLI is the developer loop: hand-written cases only
    extra, fails = run_for(prop, root)
    print('FAILS:', fails)
    return 1 if fails else 0


if __name__ == '__main__':
    import sys

    sys.exit(main())
