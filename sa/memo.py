"""Memoisation patterns and the completeness of their keys.

Two shapes are recognised inside one function:

P1  dictionary memo      if K not in C: C[K] = V ... use C[K]         (C a local dict, an attribute of self, or a class attribute)
P2  compare-key memo     if K != self.k (or getattr(self, 'k', ..)): self.v = V; self.k = K

For both the analysis computes what V depends on (its ROOTS: parameters of the function, loop variables, and - for caches that
are shared between instances - attributes of self) by a forward def-use pass over the function, and requires every root of V to
be a root of the key K.  A `**params` / whole-dict use in V is only covered by a key that contains the whole dict, not by a
selection of its entries.  For P1 the guards under which the value is stored must also hold (or be part of the key) wherever the
stored value is taken from the cache.

Nothing is executed; the result is a list of `Memo` records with the missing roots / guards.
"""

import ast

from .cfg import FuncCFG, walk_no_nested


class Memo:
    def __init__(self, kind, cache, key, value, lineno):
        self.kind, self.cache, self.key, self.value, self.lineno = kind, cache, key, value, lineno
        self.missing = []   # roots of the value that the key does not carry
        self.guards = []    # guards of the store that a lookup does not repeat
        self.shared = False

    def describe(self):
        return f'{self.kind} memo {self.cache}[{self.key}] (line {self.lineno})'


def _base(e):
    while isinstance(e, (ast.Subscript,)):
        e = e.value
    return e


def _txt(e):
    return ast.unparse(e)


def _env(fn):
    """name -> set of roots, flow-insensitive closure over the assignments of fn (parameters and loop variables are their own
    roots; `self` is not a root, `self.x` is the root 'self.x')"""
    params = [a.arg for a in fn.args.args + fn.args.kwonlyargs if a.arg not in ('self', 'cls')]
    if fn.args.vararg:
        params.append(fn.args.vararg.arg)
    if fn.args.kwarg:
        params.append(fn.args.kwarg.arg)
    env = {p: {p} for p in params}
    loopvars = set()
    for s in ast.walk(fn):
        if isinstance(s, (ast.For, ast.comprehension)):
            for x in ast.walk(s.target):
                if isinstance(x, ast.Name):
                    loopvars.add(x.id)
    for v in loopvars:
        env.setdefault(v, set()).add(v)
    assigns = []
    for s in walk_no_nested(fn):
        if isinstance(s, (ast.Assign, ast.AugAssign, ast.AnnAssign)) and s.value is not None:
            tg = s.targets if isinstance(s, ast.Assign) else [s.target]
            names = []
            for t in tg:
                for e in (t.elts if isinstance(t, (ast.Tuple, ast.List)) else [t]):
                    if isinstance(e, ast.Name):
                        names.append(e.id)
            if names:
                assigns.append((names, s.value))
    changed = True
    while changed:
        changed = False
        for names, val in assigns:
            r = roots(val, env)
            for n in names:
                if n in params or n in loopvars:
                    continue
                if not r <= env.get(n, set()):
                    env[n] = env.get(n, set()) | r
                    changed = True
    return env


def whole_uses(e, fn, params, depth=0):
    """parameters that expression e uses as a whole object (bare name, **name), following local definitions"""
    out = set()
    sub_bases = {id(x.value) for x in ast.walk(e) if isinstance(x, ast.Subscript) and isinstance(x.value, ast.Name)}
    sub_bases |= {id(x.func.value) for x in ast.walk(e) if isinstance(x, ast.Call) and isinstance(x.func, ast.Attribute) and x.func.attr in ('get', 'pop') and isinstance(x.func.value, ast.Name)}
    for x in ast.walk(e):
        if isinstance(x, ast.Name) and id(x) not in sub_bases:
            if x.id in params:
                out.add(x.id)
            elif depth < 4:
                for s in walk_no_nested(fn):
                    if isinstance(s, ast.Assign) and any(isinstance(t, ast.Name) and t.id == x.id for t in s.targets):
                        out |= whole_uses(s.value, fn, params, depth + 1)
    return out


def roots(e, env, whole=None):
    """roots of expression e; `whole` collects the names of dicts that are used as a whole (bare name or **name)"""
    out = set()
    sub_bases = set()
    bound = set()  # names bound by comprehensions inside e itself
    for x in ast.walk(e):
        if isinstance(x, ast.Subscript) and isinstance(x.value, ast.Name):
            sub_bases.add(id(x.value))
        if isinstance(x, ast.comprehension):
            bound |= {y.id for y in ast.walk(x.target) if isinstance(y, ast.Name)}
    for x in ast.walk(e):
        if isinstance(x, ast.Name) and x.id in bound:
            continue
        if isinstance(x, ast.Name) and x.id in env:
            out |= env[x.id]
            if whole is not None and id(x) not in sub_bases:
                whole |= env[x.id]
        elif isinstance(x, ast.Attribute) and isinstance(x.value, ast.Name) and x.value.id == 'self':
            out.add('self.' + x.attr)
    return out


def find(fn, class_attrs=()):
    """memo patterns of fn; class_attrs = names assigned in the class body (caches shared by all instances)"""
    cfg = FuncCFG(fn)
    env = _env(fn)
    out = []
    stmts = list(cfg.stmt_of.values())
    # ---------------- P1
    for s in stmts:
        if not (isinstance(s, ast.Assign) and len(s.targets) == 1 and isinstance(s.targets[0], ast.Subscript)):
            continue
        t = s.targets[0]
        c = t.value
        if not (isinstance(c, ast.Name) or (isinstance(c, ast.Attribute) and isinstance(c.value, (ast.Name, ast.Call)))):
            continue
        ctxt, ktxt = _txt(c), _txt(t.slice)
        # a membership test / lookup with the same key on the same container somewhere in the function
        tests = []
        for x in ast.walk(fn):
            if isinstance(x, ast.Compare) and len(x.ops) == 1 and isinstance(x.ops[0], (ast.In, ast.NotIn)) and _txt(x.left) == ktxt:
                cc = x.comparators[0]
                if isinstance(cc, ast.Call) and isinstance(cc.func, ast.Attribute) and cc.func.attr == 'keys':
                    cc = cc.func.value
                if _txt(cc) == ctxt:
                    tests.append(x)
        if not tests:
            continue
        if isinstance(t.slice, ast.Constant):
            continue  # `if 'QI' not in params: params['QI'] = ..` fills in a default, it does not memoise
        neg = any((ctxt in ast.unparse(tst) and ktxt in ast.unparse(tst)) and ((isinstance(tst, ast.Compare) and isinstance(tst.ops[0], ast.NotIn) and pol) or (isinstance(tst, ast.Compare) and isinstance(tst.ops[0], ast.In) and not pol) or isinstance(tst, ast.BoolOp)) for tst, pol in cfg.guards.get(id(s), ()))
        if not neg or any(_txt(x) == ctxt for x in ast.walk(s.value) if isinstance(x, (ast.Name, ast.Attribute))):
            continue  # an accumulator (the stored value reads the container) or an unconditional store
        if any(isinstance(x, ast.AugAssign) and isinstance(x.target, ast.Subscript) and _txt(x.target.value) == ctxt for x in ast.walk(fn)):
            continue  # an accumulator: the entry is created once and updated in place afterwards
        m = Memo('dictionary', ctxt, ktxt, _txt(s.value)[:60], s.lineno)
        shared = isinstance(c, ast.Attribute) and (c.attr in class_attrs or _txt(c.value) in ('cls', 'type(self)', 'self.__class__'))
        m.shared = shared
        prm = {p_ for p_, r_ in env.items() if r_ == {p_}}
        rv, rk = roots(s.value, env), roots(t.slice, env)
        wv, wk = whole_uses(s.value, fn, prm), whole_uses(t.slice, fn, prm)
        if not shared:
            rv = {r for r in rv if not r.startswith('self.')}
        rv.discard('self.' + c.attr if isinstance(c, ast.Attribute) else '')
        m.missing = sorted(rv - rk) + sorted(f'**{w}' for w in (wv - wk) if w in rk and w in rv and _is_dictlike(fn, w))
        # guards of the store vs guards of the loads of C[K]
        gs = {(ast.unparse(tst), pol) for tst, pol in cfg.guards.get(id(s), ()) if ctxt not in ast.unparse(tst)}
        for l in stmts:
            if l is s:
                continue
            for x in ast.walk(l) if not isinstance(l, (ast.If, ast.For, ast.While, ast.With, ast.Try)) else []:
                if isinstance(x, ast.Subscript) and isinstance(x.ctx, ast.Load) and _txt(x.value) == ctxt and _txt(x.slice) == ktxt:
                    gl = {(ast.unparse(tst), pol) for tst, pol in cfg.guards.get(id(l), ())}
                    lack = sorted(f'{"" if pol else "not "}{g}' for g, pol in gs - gl if not _in_key(g, rk, env, shared))
                    if lack:
                        m.guards.append(f'line {l.lineno}: taken from the cache without {lack}')
        out.append(m)
    # ---------------- P2
    for s in stmts:
        if not isinstance(s, ast.If):
            continue
        tst = s.test
        if not (isinstance(tst, ast.Compare) and len(tst.ops) == 1 and isinstance(tst.ops[0], (ast.NotEq, ast.Eq))):
            continue
        sides = [tst.left, tst.comparators[0]]
        keyattr = None
        kexpr = None
        for a, b in (sides, sides[::-1]):
            ka = None
            if isinstance(a, ast.Attribute) and isinstance(a.value, ast.Name) and a.value.id == 'self':
                ka = a.attr
            if isinstance(a, ast.Call) and _txt(a.func) == 'getattr' and len(a.args) >= 2 and _txt(a.args[0]) == 'self' and isinstance(a.args[1], ast.Constant):
                ka = a.args[1].value
            if ka:
                keyattr, kexpr = ka, b
        if keyattr is None:
            continue
        body = s.body if isinstance(tst.ops[0], ast.NotEq) else s.orelse
        def tgs(x):
            return x.targets if isinstance(x, ast.Assign) else [x.target]
        asg = [x for st in body for x in ast.walk(st) if isinstance(x, (ast.Assign, ast.AnnAssign)) and x.value is not None]
        keystore = [x for x in asg if any(_txt(tt) == f'self.{keyattr}' for tt in tgs(x))]
        if not keystore:
            continue
        vals = [x for x in asg if all(_txt(tt).startswith('self.') and _txt(tt) != f'self.{keyattr}' for tt in tgs(x))]
        for v in vals:
            m = Memo('compare-key', 'self.' + keyattr, _txt(kexpr)[:60], f'{_txt(tgs(v)[0])} = {_txt(v.value)[:50]}', v.lineno)
            prm = {p_ for p_, r_ in env.items() if r_ == {p_}}
            rv = {r for r in roots(v.value, env) if not r.startswith('self.')}
            rk = roots(kexpr, env)
            wv, wk = whole_uses(v.value, fn, prm), whole_uses(kexpr, fn, prm)
            m.missing = sorted(rv - rk) + sorted(f'**{w}' for w in (wv - wk) if w in rv and _is_dictlike(fn, w))
            out.append(m)
    # ---------------- P3: lazily cached attribute   if self.a is None / not hasattr(self, 'a'): self.a = V
    import re
    for s in stmts:
        if not (isinstance(s, (ast.Assign, ast.AnnAssign)) and s.value is not None):
            continue
        tg = s.targets if isinstance(s, ast.Assign) else [s.target]
        if len(tg) != 1 or not (isinstance(tg[0], ast.Attribute) and isinstance(tg[0].value, ast.Name) and tg[0].value.id == 'self'):
            continue
        a = tg[0].attr
        lazy = False
        for tst, pol in cfg.guards.get(id(s), ()):
            tt = ast.unparse(tst)
            if (tt in (f"getattr(self, '{a}', None) is None", f'getattr(self, "{a}", None) is None') and pol) or (tt == f'self.{a} is None' and pol) or (tt == f'self.{a} is not None' and not pol) or (tt in (f"hasattr(self, '{a}')", f'hasattr(self, "{a}")') and not pol) or (tt in (f"not hasattr(self, '{a}')",) and pol):
                lazy = True
        if not lazy:
            continue
        m = Memo('lazy-attribute', 'self', a, _txt(s.value)[:60], s.lineno)
        vol = sorted({mm.group(0) for mm in re.finditer(r'(?<![\w])(?:self\.level|lvl|L|S|step|self\.S)\.(?:dt|time|status\.\w+|u\b|f\b|uend|tau)\b|(?<![\w])self\.params\.\w+', _txt(s.value))})
        # follow locals of the value one level
        for x in ast.walk(s.value):
            if isinstance(x, ast.Name) and x.id in env:
                for st in walk_no_nested(fn):
                    if isinstance(st, ast.Assign) and any(isinstance(t_, ast.Name) and t_.id == x.id for t_ in st.targets):
                        vol += sorted({mm.group(0) for mm in re.finditer(r'(?<![\w])(?:self\.level|lvl|L|S|step|self\.S)\.(?:dt|time|status\.\w+|u\b|f\b|uend|tau)\b', _txt(st.value))})
        m.missing = sorted(set(vol))
        out.append(m)
    return out


def _is_dictlike(fn, name):
    """the root is used with a string subscript somewhere (so it is a dictionary of named entries)"""
    for x in ast.walk(fn):
        if isinstance(x, ast.Subscript) and isinstance(x.value, ast.Name) and x.value.id == name and isinstance(x.slice, ast.Constant) and isinstance(x.slice.value, str):
            return True
        if isinstance(x, ast.Call) and isinstance(x.func, ast.Attribute) and x.func.attr in ('get', 'pop') and isinstance(x.func.value, ast.Name) and x.func.value.id == name:
            return True
    return False


def _in_key(guard_text, key_roots, env, shared):
    """the guard is decided by what the key carries (its roots are roots of the key), so a lookup with that key implies it"""
    try:
        g = ast.parse(guard_text, mode='eval')
    except SyntaxError:
        return False
    gr = roots(g, env)
    if not shared:
        gr = {r for r in gr if not r.startswith('self.')}
    return gr <= key_roots


CONTROL = '''
class K:
    _ops = {}
    def __init__(self, nvars, coeff, derivative, order):
        key = (nvars, coeff, order)
        if key not in self._ops:
            self._ops[key] = build(derivative=derivative, order=order, size=nvars) * coeff
        self.A = self._ops[key]
    def sides(self, flags, n):
        memo = {}
        for side in (0, 1):
            reduce = flags[side]
            for i in range(n):
                if i in memo:
                    st = memo[i]
                elif reduce:
                    st = small(i)
                    memo[i] = st
                else:
                    st = big(i)
    def init(self, params):
        key = (params['num_nodes'], params['quad_type'])
        if key != getattr(self, '_key', None):
            self.coll = make(**params)
            self._key = key
'''


def control():
    """the three embedded examples must be recognised with their defects"""
    k = ast.parse(CONTROL).body[0]
    fns = {f.name: f for f in k.body if isinstance(f, ast.FunctionDef)}
    a = find(fns['__init__'], class_attrs={'_ops'})
    b = find(fns['sides'])
    c = find(fns['init'])
    ok = len(a) == 1 and a[0].missing == ['derivative'] and len(b) == 1 and b[0].guards and len(c) == 1 and c[0].missing == ['**params']
    return ok, [(m.describe(), m.missing, m.guards) for m in a + b + c]


def check(ctx, R, where, what, lazy_ok=None):
    """run the memo analysis over the functions selected by `where(module)`; returns the number of memo patterns seen"""
    from .model import AnalysisError, qual
    ok, detail = control()
    if not ok:
        raise AnalysisError(f'memo analysis: embedded control examples not recognised: {detail}')
    R.ok('positive control :: an incomplete dictionary key, a lookup that skips the guard of the store and a partial compare-key are recognised in the embedded examples', 'sa/memo.py:CONTROL', found='3 defects in 3 examples')
    lazy_ok = lazy_ok or {}
    repo = ctx.repo
    n = 0
    for m, ci, fn in repo.all_functions():
        if not where(m):
            continue
        ca = {t.id for s in (ci.node.body if ci else []) if isinstance(s, ast.Assign) for t in s.targets if isinstance(t, ast.Name)}
        for x in find(fn, ca):
            n += 1
            w = qual(m, ci, fn)
            R.fn(w)
            name = f'{(ci.name + ".") if ci else ""}{fn.name}'
            c = f'{name} :: {x.kind} cache {x.cache}[{x.key}] - the key carries everything the cached value depends on'
            if x.kind == 'lazy-attribute':
                c = f'{name} :: self.{x.key} is computed once and kept - it depends on nothing that changes from step to step'
                if (name, x.key) in lazy_ok:
                    R.exc(c, w, lazy_ok[(name, x.key)])
                    continue
            R.check(not x.missing and not x.guards, c, w, 'every parameter / loop variable / (for shared caches) attribute the value is computed from is part of the key, and a value is only taken from the cache where the condition it was stored under holds', x.missing + x.guards)
    R.ok(f'{what} :: scanned for memoisation patterns', what, found=f'{n} pattern(s)')
    return n
