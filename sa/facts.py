"""E5 - fact extractors over the whole library: attribute writes, call sites, raise sites, string dispatch chains."""

import ast

from .cfg import walk_no_nested, terminates
from .model import qual


class Write:
    __slots__ = ('module', 'cls', 'fn', 'target', 'attr', 'receiver', 'op', 'value', 'stmt', 'qual')

    def __init__(self, module, cls, fn, target, op, value, stmt):
        self.module, self.cls, self.fn, self.stmt, self.op, self.value = module, cls, fn, stmt, op, value
        self.target = ast.unparse(target)
        self.attr = target.attr
        self.receiver = ast.unparse(target.value)
        self.qual = qual(module, cls, fn)

    def where(self):
        return self.qual

    def rhs(self):
        return ast.unparse(self.value) if self.value is not None else None


def _targets(t):
    if isinstance(t, (ast.Tuple, ast.List)):
        for e in t.elts:
            yield from _targets(e)
    elif isinstance(t, ast.Starred):
        yield from _targets(t.value)
    else:
        yield t


def all_defs(repo, lib_only=True):
    """(module, class|None, FunctionDef) incl. nested defs (attributed to the enclosing top-level def's owner)."""
    for m, ci, fn in repo.all_functions(lib_only=lib_only):
        yield m, ci, fn


def attr_writes(repo, lib_only=True):
    out = []
    for m, ci, fn in all_defs(repo, lib_only):
        for st in ast.walk(fn):
            if isinstance(st, ast.Assign):
                for t0 in st.targets:
                    for t in _targets(t0):
                        if isinstance(t, ast.Attribute):
                            out.append(Write(m, ci, fn, t, '=', st.value, st))
            elif isinstance(st, ast.AugAssign) and isinstance(st.target, ast.Attribute):
                out.append(Write(m, ci, fn, st.target, type(st.op).__name__ + '=', st.value, st))
            elif isinstance(st, ast.AnnAssign) and isinstance(st.target, ast.Attribute) and st.value is not None:
                out.append(Write(m, ci, fn, st.target, '=', st.value, st))
    return out


class CallSite:
    __slots__ = ('module', 'cls', 'fn', 'call', 'callee', 'name', 'receiver', 'qual')

    def __init__(self, module, cls, fn, call):
        self.module, self.cls, self.fn, self.call = module, cls, fn, call
        self.callee = ast.unparse(call.func)
        if isinstance(call.func, ast.Attribute):
            self.name = call.func.attr
            self.receiver = ast.unparse(call.func.value)
        elif isinstance(call.func, ast.Name):
            self.name = call.func.id
            self.receiver = None
        else:
            self.name = None
            self.receiver = None
        self.qual = qual(module, cls, fn)

    def kw(self, name):
        for k in self.call.keywords:
            if k.arg == name:
                return k.value
        return None


def call_sites(repo, lib_only=True):
    out = []
    for m, ci, fn in all_defs(repo, lib_only):
        for x in ast.walk(fn):
            if isinstance(x, ast.Call):
                out.append(CallSite(m, ci, fn, x))
    return out


def guard_strings(cfg, st):
    out = []
    for t, p in cfg.guards.get(id(st), []):
        s = ast.unparse(t)
        out.append(s if p else f'not ({s})')
    return out


def dispatch_chains(fn):
    """if/elif chains comparing one subject against constants.

    Yields dicts: subject (str), names (list of constants, None for `is None`), else_kind ('raise'|'super'|'other'|'missing'), node."""
    seen = set()
    for st in walk_no_nested(fn):
        if not isinstance(st, ast.If) or id(st) in seen:
            continue
        chain = []
        cur = st
        subject = None
        while True:
            sub, names = _dispatch_test(cur.test)
            if sub is None or (subject is not None and sub != subject):
                break
            subject = sub
            chain.append((cur, names))
            seen.add(id(cur))
            if len(cur.orelse) == 1 and isinstance(cur.orelse[0], ast.If):
                cur = cur.orelse[0]
                continue
            break
        if len(chain) < 2 or subject is None:
            continue
        last = chain[-1][0]
        # did the chain end because the next `elif` tests something else?
        tail = last.orelse
        if len(tail) == 1 and isinstance(tail[0], ast.If) and id(tail[0]) not in seen:
            else_kind = 'other-test'
        elif not tail:
            else_kind = 'missing'
        elif any(isinstance(x, ast.Raise) for s in tail for x in walk_no_nested(s)) and terminates(tail):
            else_kind = 'raise'
        elif any(isinstance(x, ast.Call) and ast.unparse(x.func).startswith('super()') for s in tail for x in ast.walk(s)):
            else_kind = 'super'
        else:
            else_kind = 'other'
        yield {'subject': subject, 'names': [n for _, ns in chain for n in ns], 'else_kind': else_kind, 'node': st, 'arms': chain}


def _dispatch_test(test):
    """`X == 'c'` | `X is None` | `X in ('a','b')` | `X == 'a' or X == 'b'`  -> (subject string, [constants])"""
    if isinstance(test, ast.Compare) and len(test.ops) == 1:
        op, l, r = test.ops[0], test.left, test.comparators[0]
        if isinstance(op, ast.Eq) and isinstance(r, ast.Constant) and isinstance(r.value, str):
            return ast.unparse(l), [r.value]
        if isinstance(op, ast.Eq) and isinstance(l, ast.Constant) and isinstance(l.value, str):
            return ast.unparse(r), [l.value]
        if isinstance(op, ast.Is) and isinstance(r, ast.Constant) and r.value is None:
            return ast.unparse(l), [None]
        if isinstance(op, ast.In) and isinstance(r, (ast.Tuple, ast.List, ast.Set)) and all(isinstance(e, ast.Constant) and isinstance(e.value, str) for e in r.elts):
            return ast.unparse(l), [e.value for e in r.elts]
    if isinstance(test, ast.BoolOp) and isinstance(test.op, ast.Or):
        subs, names = set(), []
        for v in test.values:
            s, n = _dispatch_test(v)
            if s is None:
                return None, []
            subs.add(s)
            names += n
        if len(subs) == 1:
            return subs.pop(), names
    return None, []
