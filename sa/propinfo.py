"""Per-property text for the evidence files: what the static rules decide and what they do not."""

INFO = {}


def _p(pid, explanation, not_decided):
    INFO[pid] = {'explanation': explanation, 'not_decided': not_decided}


_p('C01',
   'Static rules over the AST/CFG of /repo: (R1) in every Q-Delta sweeper the dt*QD*f terms subtracted into the known terms and the ones '
   'added back during forward substitution use the same matrix, the same f component, the same index coupling and the solver factor is the '
   'diagonal of that matrix, so QD cancels at the fixed point for every preconditioner; (R2) tau is added in sweep, residual and end point '
   'under the is-not-None guard; (R3) end-point mode branch and node-type flag tables; (R4) forward transfer copies uend and refreshes f(u0); '
   '(R5) stopping reads the finest level only. Each is a necessary condition of the statement.',
   ['that the iteration contracts', 'the size of the tolerance multiple', 'correctness of solve_system (C12 numeric part)', 'quadrature coefficients (C05)', 'spatial transfer (C11)'])
_p('C02',
   'Every library sweeper method integrate/update_nodes/compute_end_point is reduced to a normal form (aliases inlined, loops shifted to 1-based '
   'canonical variables, sums flattened with signs, products distributed and sorted, += groups merged, locals renamed by role) and compared, as '
   'a multiset of lines plus the data-dependency order between them, with the reference signature derived from the formula in the property '
   '(sa/specs/sweeper_signatures.json). Further rules: zero padding and triangularity assertions of the QDelta builders, refresh of k-dependent '
   'coefficients before each fine sweep, reduction payloads of the node-parallel sweepers. Unknown vocabulary gives ANALYSIS-ERROR, not a violation.',
   ['numeric matrix entries (qmat)', 'that solve_system inverts what it should (C12)', 'MultiStep / QDiagonalization / RungeKuttaNystrom algebra (no formula in the statement; listed as uncovered)'])
_p('C03',
   'Rules: (R1) Sweeper.compute_residual adds integrate()+u0-u (+tau under its guard), takes abs per node and dispatches on residual_type with a raising else; '
   '(R2) every other compute_residual implementation that reduces a norm list has the same four-way dispatch; (R3) in IT_CHECK send_full(0), recv_full(0), '
   'compute_residual(stage=IT_CHECK) dominate one another in this order and the decision loop follows the residual loop, the handler stores nothing into level '
   'data; (R4) boolean normal form of check_convergence; (R5) writers of status.iter/done/force_continue; (R6) logged fields are the deciding fields.',
   ['the numeric value of the residual', 'that abs() is a norm (C13)', 'convergence-controller side effects on level data (HotRod discards a sweep by design)'])
_p('C04',
   'ONLY structural clauses about the Runge-Kutta sweepers and the start value: (R1) update_nodes of RungeKutta / RungeKuttaIMEX are the stage equations of a Butcher tableau (strictly lower row of THIS stage, '
   'implicit factor dt*a[m,m] at the node time, explicit stages take the sum, f re-evaluated, one sweep only); (R2) primary end point with weight row 0, embedded with row 1 over the same stage derivatives, last stage '
   'copied exactly when stiffly accurate, IMEX sibling with explicit weights on the explicit part; (R3) embedded wiring: genCoeffs(embedded=True) <=> ButcherTableauEmbedded, every embedded class documents an update order, '
   'AdaptivityRK takes that order, the estimate is |primary - embedded|; (R4) spread predictor copies u0 to every node, unknown guesses raise, RK stages start from zero and disable restol.',
   ['order min(k, p) of k SDC sweeps', 'stability function of the converged iteration', 'that any tableau attains its documented order', 'that any embedded pair differs at the order get_update_order returns (the integers themselves are NOT checked against the tableaux, which live in qmat)',
    '- all statements about Taylor coefficients: NOT decided by this check'])
_p('C05',
   'ONLY the structural clauses of the statement: (R1) the qmat generator is asked for exactly (num_nodes, node_type, quad_type, tleft, tright) - the affine map is delegated, nothing is rescaled afterwards - and '
   'bad counts/intervals raise; (R2) left/right end-point flags as membership tables of the quadrature type, automatic collocation update when the right end is no node; (R3) Qmat/Smat are zeros(M+1,M+1) with '
   'the generator Q / parent-class S (row differences of Q) in [1:,1:] and nothing else stored, nodes/weights are copies, no library code stores into them later; (R4) node distances.',
   ['that nodes are increasing and inside the interval', 'exactness of weights, Q and S on polynomials', 'that S really is the row difference of Q inside qmat', 'affine covariance of the generator output - all properties of coefficients computed by the external qmat package at run time: NOT decided'])
_p('C06',
   'Rules over run()/restart_block() of the three controllers: definitions reaching the carried value (None | u[0] of the first restarted step | uend of the last step), '
   'its use as third argument of restart_block and first element of the return; init_step copies through the datatype; block start time on both arms, later slots = '
   'predecessor + predecessor dt after prepare_next_block; level times from time[p]; all activity tests have the normal form t < Tend - 10*eps; kept steps are '
   'MS_active[:restart_at]; absolute eps thresholds are reported as the scale-unaware pattern (7 sites = known finding F3).',
   ['float arithmetic ("smallest N up to rounding")', 'histories of restarts and step-size changes'])
_p('C07',
   'The callback grammar start (predict)? (iteration-start (sweep)+ iteration-end)* end is decomposed into local obligations on the CFG of every stage handler '
   '(handler table read from the switcher dict): emission sites of pre_step/pre_predict/post_predict/pre_iteration/post_iteration/post_step, pre_sweep/post_sweep '
   'brackets with matching level around every update_nodes, successor stages per handler, a stage write on every normal path for every running step, stage choice '
   'independent of per-step status outside IT_CHECK, unknown stage raises, done := done and prev_done, all_to_done, handlers use only their parameter, tag tuples '
   'agree by role, transfers refuse locked levels.',
   ['termination for all residual sequences', 'exhaustive exploration of convergence patterns (state exploration is another family)'])
_p('C09',
   'Table-driven who-may-write rules (restart, dt_new, params.dt, restarts_in_a_row), comparison operator and operands of the retry bound and of the restart test, '
   'crash condition, accumulation of the restart buffer and its reset at the end of IT_CHECK, counter re-mapping, the step size written to all levels of every step '
   'from one step, normal form beta*dt*(e_tol/e_est)**(1/order) and its call sites, clamp direction/bound agreement, effective default control orders folded from '
   'setup() dict merges along the MRO against the required partial order, min/max skeleton of the Tend limit in both flavours.',
   ['that a run always advances (history property)', 'numeric quality of error estimates', 'MPI flavour cannot be executed (F4 by reading)'])
_p('C10',
   'BaseTransfer.restrict/prolong/prolong_f are decided clause by clause on the normalised contributions: spatial restriction of all fine nodes, full row of Rcoll with '
   'vector index = column (peeled or plain loops, merged as intervals), coarse f re-evaluated before the coarse integral, tau = +restricted fine integral - coarse '
   'integral, inherited tau restricted and ADDED under its guard, uold/fold datatype copies after the last write, unlock; prolongation of coarse - coarse_old with += '
   'over the full Pcoll row, f re-evaluated (prolong) or prolonged as a difference (prolong_f); shape rules for the mass and MPI siblings; down/coarse/up order; registry.',
   ['exactness of Rcoll/Pcoll/space transfers (C11)', 'the multigrid iteration-matrix clause'])
_p('C11',
   'ONLY the structural last sentence of the statement and the R = c*P^T / Kronecker mechanism are decided: (R1) restrict/prolong of every shipped space-transfer class '
   'construct their result through the data type of the argument on the target grid, return that object and never write the argument; (R2) multi-component data are '
   'handled component by component with the same operator (generic loop over .components, or impl/expl arms that are identical up to the component name); (R3) restriction '
   'uses Rspace and coarse shapes, prolongation Pspace and fine shapes; (R4) Rspace = restr_factor * Pspace.T with restr_factor = 0.5 for rorder > 0 and 1.0 for injection in '
   'the 1-d and n-d branches, the transposed order-rorder interpolation otherwise, odd orders raise; (R5) n-d operators are Kronecker products in direction order for P and R alike; '
   '(R6) base_transfer: Rcoll/Pcoll built by get_transfer_matrix_Q(fine->coarse / coarse->fine), applied with the right one in restrict/prolong.',
   ['polynomial exactness of interpolation_matrix_1d / get_transfer_matrix_Q', 'rows summing to one', 'restriction after prolongation = identity', 'FFT band-limit exactness',
    'boundary rows of padded stencils - all numeric statements about matrix entries: NOT decided by this check'])
_p('C12',
   'Purity clause: for each of the contract methods (eval_f*, solve_system*, solve_jacobian, u_exact, apply_mass_matrix, build_f, boris_solver, ...) of every library '
   'problem class a flow-sensitive abstract value (fresh / view-of-parameter / alias-of-parameter / attribute-of-self) is propagated through assignments, branches '
   '(joined) and loops (two passes); subscript/attribute stores, augmented stores into views, .fill()-like methods, out= and receive buffers whose target may reach a '
   'parameter are violations, also through one level of self.helper(); returned values of eval_f/solve_system* must be fresh. '
   'Splitting clause where it is symbolic (R4): for sibling classes that override eval_f with another splitting, the locally inlined component expressions are '
   'turned into sympy expressions (operators opaque, reshape/flatten transparent, FFTs linear) and the sums are compared, including the shift of a stabilised variant. '
   'Per-dimension sums (R3): in a sum written once per dimension no single term deviates from the form the others share.',
   ['residual of the implicit solve', 'closed-form solutions beyond the per-dimension sibling rule', 'splittings whose eval_f branches on data or on a spectral/physical switch (reported as NOTE, not decided)'])
_p('C13',
   'Datatype side: no in-place dunder in any datatype class (positive control embedded), __array_ufunc__ binds and drops out, binary dunders do not store into operands, '
   'copy constructors allocate and copy, abs reduces with max/norm. Client side: the same alias lattice with level data slots (X.u[i], X.f[i], X.uend, ...) as sources '
   'over all run-time functions gives the inventory of in-place writes; each must be dominated by an allocating assignment of that slot in the same function or be an '
   'entry of table B4 (one reason each). Every writer of uend rebinds it; boundaries (StoreUOld, predict) copy.',
   ['dtype/shape closure of arithmetic on all inputs', 'norm axioms numerically'])
_p('C14',
   'Every add_to_stats/increment_stats call of the library hooks carries process, time, level, iter, sweep, type with the roles of the step/level of the callback; '
   'Hooks.add_to_stats places num_restarts after **kwargs; all base callbacks refresh the restart count and every recording override calls super().<same callback> '
   'first (hook objects are shared by the steps of a block); _recomputed is written at both ends of the step and read with the same literal; consumed type literals '
   'are produced; every eval_f of a class with a registered rhs counter ticks it exactly once on every path (CFG must-pass-through and at-most-once).',
   ['behaviour of filter_stats(recomputed=...) on arbitrary histories'])
_p('C08',
   'Source-only rules (mpi4py is absent, nothing can run): every collective call site (and self.helper() containing one) has a guard set free of rank-dependent atoms '
   '(.rank, status.slot/first/last/prev_done/done/restart, prev/next) apart from tabled exceptions; no collective on the time communicator is reachable from the '
   'convergence-controller entry points called inside `while not done` except the synchronising all_to_done reduction; each send site has a receive site with mirrored '
   'guard (not last <-> not first and not prev_done), mirrored peer, identical tag and buffer shape; in send_full the wait on the previous request precedes the '
   'recomputation of uend which precedes isend; the DONE arm waits/cancels all requests; serial and MPI siblings agree on stage graph, callbacks, swept levels, dispatch '
   'names and comparison operators.',
   ['deadlock freedom and equality of results under all interleavings (schedule exploration is another family)', 'completion timing of non-blocking operations'])
_p('C15',
   'ONLY the pairing and pipeline structure: (R1) the helper matrices after inlining of locals: orthonormal DFT matrix, J and J^-1 from the same weights, forward = F @ J^-1, backward = J @ conj(F), '
   'alpha-circulant E, per-step factor from the same weights; (R2) step l is built with G_inv(l, n_steps, alpha), FFT_in_time/iFFT_in_time apply the forward/backward matrix for (n_steps, alpha); '
   '(R3) it_ParaDiag runs Jacobians -> residual -> FFT(residual) -> local solves -> iFFT(increment) -> u += increment with CFG dominance between consecutive stages and one def-use chain of '
   'residual/increment; (R4) apply_matrix and mat_vec are matrix-vector products with the right index coupling, accumulated in fresh storage and written back afterwards; (R5) QDiagonalization '
   'diagonalises Q[1:,1:] @ G_inv and update_nodes applies S^-1, the node-wise solves with w[m] dt, S and G_inv in this order.',
   ['that the transforms are inverse to each other and diagonalise the alpha-circulant matrix (matrix identities over n and alpha)', 'exactness of the diagonalisation sweeper for linear problems',
    'agreement of a converged run with sequential collocation', 'conditioning for small alpha - all numeric: NOT decided by this check'])
_p('C16',
   'All open() calls of fieldsIO use rb/ab/w+b, the single truncating open is in FieldsIO.initialize and is dominated by the ALLOW_OVERWRITE/isfile test that raises; '
   'addField appends time then field after asserting dtype and size; header dtype sequences and counts written by hInfos equal those read by readHeader for every '
   'registered structure; records are read with T_DTYPE x1 and self.dtype x nItems; nFields is a floor division by the record size and every record read is preceded by '
   'formatIndex (0 <= idx < nFields) or loops over range(nFields).',
   ['bit exactness of numpy file I/O', 'the crash-point quantifier (needs fault injection)', 'BlockDecomposition tiles the grid (integer arithmetic identity)'])
_p('C17',
   'ONLY clauses whose truth is in the shape of the code: (R1) every `for axis in axes` loop carries its result from axis to axis (a value used after the loop is never restarted from the untouched input '
   'inside it) and the serial n-d path applies the 1-d transforms to the running array; (R2) forward/backward pairing: DCT-II and its inverse with the same default norm, multiply/divide by the same '
   'normalisation (1/N, first coefficient halved), FFT forward unnormalised and inverse divided by the transformed lengths over the same axes; (R3) where the interval map enters: grid = fac*reference+offset, '
   'derivatives / fac^p, ultraspherical integral * fac, wavenumbers * 2 pi / L; (R4) n-d operators are Kronecker products in axis order of the 1-d operator and identities, and the four n-d builders are '
   'products of such expansions over the requested axes.',
   ['that any operator matrix agrees with exact polynomial / Fourier calculus (differentiation, integration, conversion, boundary rows) for every N', 'mutual inverse of the basis conversions', 'agreement of sparse ultraspherical and dense Chebychev operators',
    'padding / dealiasing paths and the mpi4py-fft path - numeric or not executable here: NOT decided by this check'])
_p('C18',
   'In the periodic arm of get_finite_difference_matrix every diagonal is coeff[p]*eye(k=steps[p] (+-size)) with p ranging over positions; no loop variable bound by '
   '`for v in X` is used as subscript of X anywhere in the helper (positive control embedded); the two wrap diagonals have the right sign; coeff is permuted with '
   'argsort(steps) before steps is sorted; the Kronecker sum for dimension d has d terms with A_1d in d distinct tensor positions and identities of total size size**(d-1); '
   'library callers pass the geometric arguments by keyword.',
   ['the stencil weights (Taylor system solve) and boundary closures', 'exactness degrees'])
_p('C19',
   'run() clears the statistics of every hook before restart_block and the first callback; restart_block unconditionally assigns done, prev_done, iter, stage, force_done, '
   'first, last, slot, time_size, calls reset_step before init_step and resets the convergence controllers; reset_level rebinds every data slot declared in Level.__init__ '
   '(three tabled exceptions) and renews the level status; every write to a class attribute or module global from a method is an entry of table B5 with a reason; no '
   'global RNG draw in run-time modules; per-instance generators must be re-seeded (F6); steps are dill copies or fresh constructions.',
   ['bit identity of repeated runs', 'interaction of arbitrarily configured controllers'])
_p('C20',
   'Dispatch chains over configuration names end in raise/super (four tabled non-configuration chains); the thirteen construction guards of Step, Sweeper, CollBase, '
   'controller_nonMPI and ParaDiagController raise the stated error class under guards whose negation normal form mentions the stated quantities; all frozen classes '
   'freeze on every normal exit and FrozenClass.__setattr__ raises before storing; __dict__ stores only at the sanctioned sites; RegisterParams rejects read-only names; '
   '__dict_to_list distributes with min(level, len-1); convergence controllers are instantiated once, argsorted by control_order and iterated in that order; in every '
   'setup() the user-carrying part comes last (fold along the MRO).',
   ['the behaviour of every description generated from the grammar (generation = testing)'])
