"""Per-property text for the evidence files: what the static rules decide and what they do not."""

INFO = {}


def _p(pid, explanation, not_decided):
    INFO[pid] = {'explanation': explanation, 'not_decided': not_decided}


_p('C01',
   'Static rules over the AST/CFG of /repo: (R1) in every Q-Delta sweeper the dt*QD*f terms subtracted into the known terms and the ones '
   'added back during forward substitution use the same matrix, the same f component, the same index coupling and the solver factor is the '
   'diagonal of that matrix, so QD cancels at the fixed point for every preconditioner; (R2) tau is added in sweep, residual and end point '
   'under the is-not-None guard; (R3) end-point mode branch and node-type flag tables; (R4) forward transfer copies uend and refreshes f(u0); '
   '(R5) stopping reads the finest level only. Each is a necessary condition of the statement.',
   ['that the iteration contracts', 'the size of the tolerance multiple', 'correctness of solve_system (C12 numeric part)', 'quadrature coefficients (C05)', 'spatial transfer (C11)'])
_p('C02',
   'Every library sweeper method integrate/update_nodes/compute_end_point is reduced to a normal form (aliases inlined, loops shifted to 1-based '
   'canonical variables, sums flattened with signs, products distributed and sorted, += groups merged, locals renamed by role) and compared, as '
   'a multiset of lines plus the data-dependency order between them, with the reference signature derived from the formula in the property '
   '(sa/specs/sweeper_signatures.json). Further rules: zero padding and triangularity assertions of the QDelta builders, refresh of k-dependent '
   'coefficients before each fine sweep, reduction payloads of the node-parallel sweepers. Unknown vocabulary gives ANALYSIS-ERROR, not a violation.',
   ['numeric matrix entries (qmat)', 'that solve_system inverts what it should (C12)', 'MultiStep / QDiagonalization / RungeKuttaNystrom algebra (no formula in the statement; listed as uncovered)'])
for pid in ['C03', 'C06', 'C07', 'C08', 'C09', 'C10', 'C12', 'C13', 'C14', 'C16', 'C18', 'C19', 'C20']:
    _p(pid, 'static rules over the AST/CFG of /repo (see DESIGN.md section 4 for the clause list)', ['behavioural remainder, see DESIGN.md'])
