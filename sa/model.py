"""E1 - program model: modules, imports, classes, C3 linearisation, method resolution.

Everything is built from the source text with ``ast``; nothing from pySDC is imported or executed.
"""

import ast
import os
import warnings

LIB_DIRS = (
    'pySDC/core',
    'pySDC/helpers',
    'pySDC/implementations',
    'pySDC/projects/DAE/sweepers',
    'pySDC/projects/DAE/misc',
)
CLIENT_DIRS = ('pySDC/projects', 'pySDC/tutorial', 'pySDC/playgrounds')


_AST_CACHE = {}


class AnalysisError(Exception):
    """The analysis itself is broken (anchor vanished, idiom not recognised, floor not met)."""


class Module:
    def __init__(self, root, relpath):
        self.relpath = relpath
        self.path = os.path.join(root, relpath)
        self.name = relpath[:-3].replace('/', '.')
        if self.name.endswith('.__init__'):
            self.name = self.name[: -len('.__init__')]
        with open(self.path, 'r', encoding='utf-8') as fh:
            self.source = fh.read()
        key = (relpath, hash(self.source))
        tree = _AST_CACHE.get(key)
        if tree is None:
            try:
                with warnings.catch_warnings():
                    warnings.simplefilter('ignore', SyntaxWarning)
                    tree = ast.parse(self.source, filename=self.path)
            except SyntaxError as e:  # a file that does not parse breaks the analysis, it is not a violation
                raise AnalysisError(f'{relpath} does not parse: {e}')
            _AST_CACHE[key] = tree  # trees are never modified by the rules (substitutions work on deep copies)
        self.tree = tree
        self.imports = {}  # local name -> dotted target
        self.classes = {}
        self.functions = {}
        self._collect()

    def _collect(self):
        for node in ast.walk(self.tree):
            if isinstance(node, ast.Import):
                for a in node.names:
                    self.imports[a.asname or a.name.split('.')[0]] = a.name if a.asname else a.name.split('.')[0]
            elif isinstance(node, ast.ImportFrom):
                mod = node.module or ''
                if node.level:
                    base = self.name.split('.')
                    base = base[: len(base) - node.level]
                    mod = '.'.join(base + ([mod] if mod else []))
                for a in node.names:
                    self.imports[a.asname or a.name] = f'{mod}.{a.name}'
        for node in self.tree.body:
            self._collect_stmt(node)

    def _collect_stmt(self, node):
        if isinstance(node, ast.ClassDef):
            self.classes[node.name] = node
        elif isinstance(node, (ast.FunctionDef, ast.AsyncFunctionDef)):
            self.functions[node.name] = node
        elif isinstance(node, (ast.If, ast.Try)):
            # classes defined under `if TYPE_CHECKING`/try-import guards at module level
            for sub in ast.iter_child_nodes(node):
                if isinstance(sub, ast.stmt):
                    self._collect_stmt(sub)
                elif isinstance(sub, ast.ExceptHandler):
                    for s in sub.body:
                        self._collect_stmt(s)


class ClassInfo:
    def __init__(self, module, node):
        self.module = module
        self.node = node
        self.name = node.name
        self.qname = f'{module.name}.{node.name}'
        self.methods = {}
        self.class_assigns = {}  # name -> value expr (class-body assignments)
        self.borrowed = {}  # name -> (OtherClassName, method)   `integrate = imex_1st_order.integrate`
        for st in node.body:
            if isinstance(st, (ast.FunctionDef, ast.AsyncFunctionDef)):
                # keep the last definition (property setter after getter: keep getter under name, setter separately)
                deco = [ast.unparse(d) for d in st.decorator_list]
                if any(d.endswith('.setter') for d in deco):
                    self.methods[st.name + '.setter'] = st
                else:
                    self.methods[st.name] = st
            elif isinstance(st, ast.Assign):
                for t in st.targets:
                    if isinstance(t, ast.Name):
                        self.class_assigns[t.id] = st.value
                        if isinstance(st.value, ast.Attribute) and isinstance(st.value.value, ast.Name):
                            self.borrowed[t.id] = (st.value.value.id, st.value.attr)
            elif isinstance(st, ast.AnnAssign) and isinstance(st.target, ast.Name) and st.value is not None:
                self.class_assigns[st.target.id] = st.value
        self.base_exprs = [ast.unparse(b) for b in node.bases]
        self.bases = []  # resolved ClassInfo or str (external)
        self.mro = None

    def __repr__(self):
        return f'<Class {self.qname}>'


class Repo:
    def __init__(self, root, extra_dirs=()):
        self.root = os.path.abspath(root)
        self.modules = {}  # dotted name -> Module
        self.by_relpath = {}
        self.classes = {}  # qname -> ClassInfo
        self.by_simple = {}  # simple name -> [ClassInfo]
        dirs = list(LIB_DIRS) + list(extra_dirs)
        seen = set()
        for d in dirs:
            full = os.path.join(self.root, d)
            if not os.path.isdir(full):
                raise AnalysisError(f'directory {d} not found under {self.root}')
            for dp, dn, fn in os.walk(full):
                dn[:] = sorted(x for x in dn if x not in ('__pycache__', 'tests', 'data'))
                for f in sorted(fn):
                    if f.endswith('.py'):
                        rel = os.path.relpath(os.path.join(dp, f), self.root)
                        if rel in seen:
                            continue
                        seen.add(rel)
                        m = Module(self.root, rel)
                        self.modules[m.name] = m
                        self.by_relpath[rel] = m
        for m in self.modules.values():
            for cn, node in m.classes.items():
                ci = ClassInfo(m, node)
                self.classes[ci.qname] = ci
                self.by_simple.setdefault(cn, []).append(ci)
        for ci in self.classes.values():
            ci.bases = [self._resolve_base(ci, b) for b in ci.node.bases]
        for ci in self.classes.values():
            self._mro(ci)

    # ------------------------------------------------------------------ lookup
    def module(self, relpath):
        m = self.by_relpath.get(relpath)
        if m is None:
            raise AnalysisError(f'anchor file vanished: {relpath}')
        return m

    def cls(self, relpath, name):
        m = self.module(relpath)
        ci = self.classes.get(f'{m.name}.{name}')
        if ci is None:
            raise AnalysisError(f'anchor class vanished: {relpath}:{name}')
        return ci

    def func(self, relpath, name):
        """`Class.method` or module-level `function` -> FunctionDef (own definition only)."""
        m = self.module(relpath)
        if '.' in name:
            c, f = name.split('.', 1)
            ci = self.cls(relpath, c)
            fn = ci.methods.get(f)
            if fn is None:
                raise AnalysisError(f'anchor method vanished: {relpath}:{name}')
            return fn
        fn = m.functions.get(name)
        if fn is None:
            raise AnalysisError(f'anchor function vanished: {relpath}:{name}')
        return fn

    def resolve_name(self, module, dotted):
        """Resolve a (possibly dotted) name used in `module` to a ClassInfo if it is a repo class."""
        parts = dotted.split('.')
        head = parts[0]
        if head in module.classes and len(parts) == 1:
            return self.classes.get(f'{module.name}.{head}')
        tgt = module.imports.get(head)
        if tgt is None:
            return None
        full = '.'.join([tgt] + parts[1:])
        if full in self.classes:
            return self.classes[full]
        # `from pkg import module` then module.Class
        return None

    def _resolve_base(self, ci, bexpr):
        s = ast.unparse(bexpr)
        if isinstance(bexpr, (ast.Name, ast.Attribute)):
            r = self.resolve_name(ci.module, s)
            if r is not None:
                return r
        return s  # external

    def _mro(self, ci, stack=()):
        if ci.mro is not None:
            return ci.mro
        if ci in stack:
            raise AnalysisError(f'cyclic inheritance at {ci.qname}')
        seqs = []
        for b in ci.bases:
            if isinstance(b, ClassInfo):
                seqs.append(list(self._mro(b, stack + (ci,))))
            else:
                seqs.append([b])
        seqs.append([b for b in ci.bases])
        def same(a, b):
            return a is b or (isinstance(a, str) and isinstance(b, str) and a == b)

        res = [ci]
        seqs = [list(s) for s in seqs if s]
        while seqs:
            for s in seqs:
                cand = s[0]
                if not any(same(cand, x) for t in seqs for x in t[1:]):
                    break
            else:
                raise AnalysisError(f'no consistent MRO for {ci.qname}')
            res.append(cand)
            seqs = [[x for x in s if not same(x, cand)] for s in seqs]
            seqs = [s for s in seqs if s]
        ci.mro = res
        return res

    # ------------------------------------------------------------------ queries
    def resolve(self, ci, method):
        """Return (defining ClassInfo, FunctionDef) following the MRO and class-body borrowings."""
        for c in ci.mro:
            if not isinstance(c, ClassInfo):
                continue
            if method in c.methods:
                return c, c.methods[method]
            if method in c.borrowed:
                oc, om = c.borrowed[method]
                other = self.resolve_name(c.module, oc)
                if other is not None:
                    r = self.resolve(other, om)
                    if r:
                        return r
        return None

    def is_subclass(self, ci, base):
        return any(c is base for c in ci.mro)

    def subclasses(self, base, strict=False):
        out = [c for c in self.classes.values() if self.is_subclass(c, base) and not (strict and c is base)]
        return sorted(out, key=lambda c: c.qname)

    def external_bases(self, ci):
        return [c for c in ci.mro if not isinstance(c, ClassInfo)]

    def overriders(self, base, method):
        return [c for c in self.subclasses(base) if method in c.methods]

    def is_library(self, ci_or_mod):
        m = ci_or_mod.module if isinstance(ci_or_mod, ClassInfo) else ci_or_mod
        return any(m.relpath.startswith(d + '/') for d in LIB_DIRS)

    def all_functions(self, lib_only=True):
        """Yield (module, class or None, FunctionDef) for every def (nested ones included under their owner)."""
        for m in sorted(self.modules.values(), key=lambda x: x.relpath):
            if lib_only and not self.is_library(m):
                continue
            for fn in m.functions.values():
                yield m, None, fn
            for cn in m.classes:
                ci = self.classes[f'{m.name}.{cn}']
                for fn in ci.methods.values():
                    yield m, ci, fn


def qual(module, ci, fn):
    return f'{module.relpath}:{(ci.name + ".") if ci else ""}{fn.name}'


def loc(module, node):
    return f'{module.relpath}:{getattr(node, "lineno", 0)}'
