"""debug/spec helper: print role-renamed signature lines of sweeper methods"""
import sys, json
sys.path.insert(0, '/verif')
from sa.model import Repo
from sa import sweepers as sw
r = Repo(sys.argv[1] if len(sys.argv) > 1 else '/repo')
out = {}
for rel, cn in sw.QD_SERIAL + sw.QD_MPI + sw.QD_DAE + sw.SECOND_ORDER + sw.RK:
    ci = r.cls(rel, cn)
    for m in ('integrate', 'update_nodes', 'compute_end_point'):
        owner, fn, sig = sw.method_sig(r, ci, m)
        if owner is not ci and m != 'integrate' and (rel, owner.name) in [(a, b) for a, b in sw.QD_SERIAL + sw.QD_MPI + sw.QD_DAE + sw.SECOND_ORDER + sw.RK]:
            continue
        key = f'{owner.name}.{m}'
        if key in out: continue
        out[key] = sig.texts(sw.TRACKED) + ['RETURN ' + x for x in sw.return_exprs(fn, sig)]
json.dump(out, sys.stdout, indent=1, ensure_ascii=False)
