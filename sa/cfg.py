"""E2 - statement-level control-flow graph with dominator / must-pass-through queries and guard sets.

Nodes are simple statements and the tests of compound statements.  Edges follow if/elif/else, for/while (+else),
break/continue, try/except/else/finally, with, return, raise and assert.  Expressions are never evaluated; a branch
test is an opaque node with two successors.
"""

import ast
import networkx as nx

from .model import AnalysisError

ENTRY, EXIT, RAISE = 'ENTRY', 'EXIT', 'RAISE'


def terminates(body):
    """True if the statement list cannot complete normally (ends in return/raise/continue/break on all arms)."""
    if not body:
        return False
    last = body[-1]
    if isinstance(last, (ast.Return, ast.Raise, ast.Continue, ast.Break)):
        return True
    if isinstance(last, ast.If):
        return bool(last.orelse) and terminates(last.body) and terminates(last.orelse)
    if isinstance(last, ast.With):
        return terminates(last.body)
    if isinstance(last, ast.Try):
        if last.finalbody and terminates(last.finalbody):
            return True
        arms = [last.body + last.orelse] + [h.body for h in last.handlers]
        return all(terminates(a) for a in arms)
    return False


class FuncCFG:
    def __init__(self, fn):
        self.fn = fn
        self.g = nx.DiGraph()
        self.g.add_node(ENTRY)
        self.g.add_node(EXIT)
        self.g.add_node(RAISE)
        self.stmt_of = {}  # node id -> ast node
        self.node_of = {}  # id(ast stmt) -> node id (for compound statements: the test node)
        self.guards = {}  # id(ast stmt) -> list[(test expr, polarity)]
        self.loops_of = {}  # id(ast stmt) -> list[For/While ast] (enclosing loops, outermost first)
        self._n = 0
        self._loop_stack = []  # (continue target, break collector list)
        self._handler_stack = []  # list of lists of handler entry nodes
        outs = self._block(fn.body, [ENTRY], [], [])
        for o in outs:
            self.g.add_edge(o, EXIT)
        self._idom = None
        self._ipdom = None

    # ----------------------------------------------------------------- construction
    def _new(self, stmt):
        self._n += 1
        nid = self._n
        self.g.add_node(nid)
        self.stmt_of[nid] = stmt
        return nid

    def _link(self, preds, nid):
        for p in preds:
            self.g.add_edge(p, nid)

    def _may_raise(self, nid):
        # inside a try body every statement may transfer to each handler
        if self._handler_stack:
            for h in self._handler_stack[-1]:
                self.g.add_edge(nid, h)

    def _block(self, body, preds, guards, loops):
        """Wire a statement list; returns the list of nodes from which control falls out of the block."""
        guards = list(guards)
        for st in body:
            self.guards[id(st)] = list(guards)
            self.loops_of[id(st)] = list(loops)
            preds = self._stmt(st, preds, guards, loops)
            # early-exit idiom: `if c: return/raise/continue/break` contributes `not c` to what follows
            if isinstance(st, ast.If):
                if terminates(st.body) and not terminates(st.orelse):
                    guards.append((st.test, False))
                elif st.orelse and terminates(st.orelse) and not terminates(st.body):
                    guards.append((st.test, True))
            elif isinstance(st, ast.Assert):
                guards.append((st.test, True))
        return preds

    def _stmt(self, st, preds, guards, loops):
        if isinstance(st, ast.If):
            t = self._new(st)
            self.node_of[id(st)] = t
            self._link(preds, t)
            self._may_raise(t)
            b = self._block(st.body, [t], guards + [(st.test, True)], loops)
            if st.orelse:
                e = self._block(st.orelse, [t], guards + [(st.test, False)], loops)
            else:
                e = [t]
            return b + e
        if isinstance(st, (ast.For, ast.AsyncFor, ast.While)):
            t = self._new(st)
            self.node_of[id(st)] = t
            self._link(preds, t)
            self._may_raise(t)
            breaks = []
            self._loop_stack.append((t, breaks))
            g2 = guards + ([(st.test, True)] if isinstance(st, ast.While) else [])
            b = self._block(st.body, [t], g2, loops + [st])
            self._loop_stack.pop()
            self._link(b, t)
            outs = [t]
            if st.orelse:
                outs = self._block(st.orelse, [t], guards, loops)
            if isinstance(st, ast.While) and isinstance(st.test, ast.Constant) and st.test.value is True:
                outs = []  # `while True` leaves only through break
            return outs + breaks
        if isinstance(st, (ast.With, ast.AsyncWith)):
            t = self._new(st)
            self.node_of[id(st)] = t
            self._link(preds, t)
            self._may_raise(t)
            return self._block(st.body, [t], guards, loops)
        if isinstance(st, ast.Try) or st.__class__.__name__ == 'TryStar':
            hnodes = []
            for h in st.handlers:
                hn = self._new(h)
                self.node_of[id(h)] = hn
                hnodes.append(hn)
            # an exception raised by the statement *entering* the try comes from preds as well
            self._handler_stack.append(hnodes)
            for p in preds:
                for hn in hnodes:
                    if p not in (ENTRY,):
                        pass
            b = self._block(st.body, preds, guards, loops)
            self._handler_stack.pop()
            if st.orelse:
                b = self._block(st.orelse, b, guards, loops)
            outs = list(b)
            for h, hn in zip(st.handlers, hnodes):
                outs += self._block(h.body, [hn], guards, loops)
            if st.finalbody:
                outs = self._block(st.finalbody, outs, guards, loops)
            return outs
        if isinstance(st, ast.Match):
            t = self._new(st)
            self.node_of[id(st)] = t
            self._link(preds, t)
            outs = [t]
            for case in st.cases:
                outs += self._block(case.body, [t], guards, loops)
            return outs
        # simple statements ---------------------------------------------------
        n = self._new(st)
        self.node_of[id(st)] = n
        self._link(preds, n)
        self._may_raise(n)
        if isinstance(st, ast.Return):
            self.g.add_edge(n, EXIT)
            return []
        if isinstance(st, ast.Raise):
            if self._handler_stack:
                return []  # already linked to the handlers
            self.g.add_edge(n, RAISE)
            return []
        if isinstance(st, ast.Continue):
            if not self._loop_stack:
                raise AnalysisError('continue outside loop')
            self.g.add_edge(n, self._loop_stack[-1][0])
            return []
        if isinstance(st, ast.Break):
            if not self._loop_stack:
                raise AnalysisError('break outside loop')
            self._loop_stack[-1][1].append(n)
            return []
        if isinstance(st, ast.Assert):
            self.g.add_edge(n, RAISE)
        return [n]

    # ----------------------------------------------------------------- queries
    def nodes_where(self, pred):
        """Node ids whose statement (or, for compound statements, header) satisfies pred(ast node)."""
        return [n for n, s in self.stmt_of.items() if pred(s)]

    def header_exprs(self, st):
        """The expressions evaluated *at* the node of statement st (not its nested blocks)."""
        if isinstance(st, ast.If) or isinstance(st, ast.While):
            return [st.test]
        if isinstance(st, (ast.For, ast.AsyncFor)):
            return [st.iter]
        if isinstance(st, (ast.With, ast.AsyncWith)):
            return [i.context_expr for i in st.items]
        if isinstance(st, ast.ExceptHandler):
            return []
        if isinstance(st, ast.Match):
            return [st.subject]
        return [st]

    def calls_at(self, nid):
        out = []
        for e in self.header_exprs(self.stmt_of[nid]):
            for x in ast.walk(e):
                if isinstance(x, ast.Call):
                    out.append(x)
        return out

    def idom(self):
        if self._idom is None:
            self._idom = nx.immediate_dominators(self.g, ENTRY)
        return self._idom

    def dominates(self, a, b):
        """Every path ENTRY -> b passes through a."""
        idom = self.idom()
        if b not in idom:
            return True  # b unreachable
        x = b
        while True:
            if x == a:
                return True
            nx_ = idom.get(x)
            if nx_ is None or nx_ == x:
                return x == a
            x = nx_

    def postdominates(self, a, b):
        """Every path b -> EXIT (normal completion) passes through a."""
        if self._ipdom is None:
            rg = self.g.reverse(copy=True)
            rg.remove_node(RAISE)
            self._ipdom = nx.immediate_dominators(rg, EXIT)
        ip = self._ipdom
        if b not in ip:
            return True  # b never completes normally
        x = b
        while True:
            if x == a:
                return True
            nx_ = ip.get(x)
            if nx_ is None or nx_ == x:
                return x == a
            x = nx_

    def reachable(self, src, dst, without=()):
        g = self.g
        if without:
            g = g.subgraph([n for n in g.nodes if n not in set(without)])
        if src not in g or dst not in g:
            return False
        return nx.has_path(g, src, dst)

    def must_pass(self, src, dst, via):
        """Every path src -> dst passes through a node of `via` (vacuously true if dst unreachable)."""
        return not self.reachable(src, dst, without=[v for v in via if v not in (src, dst)])

    def succ_stmts(self, nid):
        return [self.stmt_of[s] for s in self.g.successors(nid) if s in self.stmt_of]

    def in_loop(self, st):
        return bool(self.loops_of.get(id(st)))


def walk_no_nested(node):
    """ast.walk that does not descend into nested function/class definitions or lambdas."""
    todo = [node]
    first = True
    while todo:
        n = todo.pop()
        if not first and isinstance(n, (ast.FunctionDef, ast.AsyncFunctionDef, ast.ClassDef, ast.Lambda)):
            continue
        first = False
        yield n
        todo.extend(ast.iter_child_nodes(n))


def statements(fn):
    """All statements of a function in source order (nested defs excluded), with the FunctionDef's own body only."""
    out = []

    def rec(body):
        for st in body:
            out.append(st)
            for fld in ('body', 'orelse', 'finalbody'):
                sub = getattr(st, fld, None)
                if isinstance(sub, list) and sub and isinstance(sub[0], ast.stmt):
                    if not isinstance(st, (ast.FunctionDef, ast.AsyncFunctionDef, ast.ClassDef)):
                        rec(sub)
            for h in getattr(st, 'handlers', []) or []:
                rec(h.body)
            for c in getattr(st, 'cases', []) or []:
                rec(c.body)

    rec(fn.body)
    return out
