"""E6 - small state machines of the controllers: handler table, stage writes, callback emissions."""

import ast
import re

from .cfg import FuncCFG, walk_no_nested
from .model import AnalysisError
from . import facts

CTRL = 'pySDC/implementations/controller_classes/'
NONMPI = (CTRL + 'controller_nonMPI.py', 'controller_nonMPI', 'pfasst')
MPI = (CTRL + 'controller_MPI.py', 'controller_MPI', 'pfasst')
PARADIAG = (CTRL + 'controller_ParaDiag_nonMPI.py', 'controller_ParaDiag_nonMPI', 'ParaDiag')
ALL = (NONMPI, MPI, PARADIAG)

CALLBACKS = ['pre_setup', 'pre_run', 'pre_predict', 'pre_step', 'pre_iteration', 'pre_sweep', 'pre_comm', 'post_comm', 'post_sweep',
             'post_iteration', 'post_step', 'post_predict', 'post_run', 'post_setup']


class Handler:
    def __init__(self, stage, name, fn, rel, cn):
        self.stage, self.name, self.fn, self.rel, self.cn = stage, name, fn, rel, cn
        self.cfg = FuncCFG(fn)
        self.where = f'{rel}:{cn}.{name}'

    def emissions(self, cb=None):
        """[(node, callback name, call)] of `hook.<callback>(...)` sites"""
        out = []
        for n in self.cfg.stmt_of:
            for c in self.cfg.calls_at(n):
                if isinstance(c.func, ast.Attribute) and c.func.attr in CALLBACKS and (cb is None or c.func.attr == cb):
                    out.append((n, c.func.attr, c))
        return out

    def calls(self, name):
        out = []
        for n in self.cfg.stmt_of:
            for c in self.cfg.calls_at(n):
                if isinstance(c.func, ast.Attribute) and c.func.attr == name:
                    out.append((n, c))
        return out

    def stage_writes(self):
        """[(node, stage constant | None, guards)]"""
        out = []
        for n, s in self.cfg.stmt_of.items():
            if isinstance(s, ast.Assign) and len(s.targets) == 1 and ast.unparse(s.targets[0]).endswith('.status.stage'):
                v = s.value.value if isinstance(s.value, ast.Constant) else None
                out.append((n, v, self.cfg.guards[id(s)], s))
        return out

    def guard_strs(self, node):
        return facts.guard_strings(self.cfg, self.cfg.stmt_of[node])


def handler_table(repo, spec):
    rel, cn, driver = spec
    ci = repo.cls(rel, cn)
    fn = repo.func(rel, f'{cn}.{driver}')
    table = None
    for st in walk_no_nested(fn):
        if isinstance(st, ast.Assign) and isinstance(st.value, ast.Dict) and ast.unparse(st.targets[0]) == 'switcher':
            table = {}
            for k, v in zip(st.value.keys, st.value.values):
                if not (isinstance(k, ast.Constant) and isinstance(v, ast.Attribute) and ast.unparse(v.value) == 'self'):
                    raise AnalysisError(f'{rel}:{cn}.{driver}: switcher entry not of the form <const>: self.<handler>')
                table[k.value] = v.attr
    if table is None:
        raise AnalysisError(f'{rel}:{cn}.{driver}: handler table `switcher = {{...}}` not found')
    handlers = {}
    for stage, name in table.items():
        if name not in ci.methods:
            raise AnalysisError(f'{rel}:{cn}: handler {name} for stage {stage} not defined in the class')
        handlers[stage] = Handler(stage, name, ci.methods[name], rel, cn)
    return fn, handlers
