"""E4 - flow-sensitive freshness lattice for data values: which locals may alias / view a parameter (or state of self).

Abstract value of a local = set of tags:
    ('fresh',)                 allocated in this call (constructor, arithmetic, .copy(), numpy allocation, unknown call)
    ('param', name, 'alias')   the very object passed in
    ('param', name, 'view')    a view into it (slice, component attribute, reshape, asarray, ...)
    ('self', attr)             an attribute of self (cached buffer) or a view of one
The walk is syntax-directed: branches are joined (set union), loop bodies are visited twice.  Nothing is executed.
"""

import ast

from .cfg import walk_no_nested

FRESH = ('fresh',)
# properties of Problem that allocate on every access (checked by C12.R2: `return self.dtype_u(self.init)`)
FRESH_SELF_PROPERTIES = {'u_init', 'f_init'}
VIEW_ATTRS = {'impl', 'expl', 'comp1', 'comp2', 'pos', 'vel', 'diff', 'alg', 'real', 'imag', 'T', 'flat', 'values', 'elec', 'magn', 'q', 'm'}
VIEW_METHODS = {'reshape', 'view', 'ravel', 'squeeze', 'transpose', 'swapaxes', '__getitem__', 'get_local_array', 'getArray', 'vector', 'sub', 'dat'}
COPY_METHODS = {'copy', 'flatten', 'astype', 'conj', 'conjugate', 'round', 'clip', 'tolist', 'item', 'sum', 'dot', 'get', 'asnumpy', 'duplicate', 'norm', 'max', 'min', 'mean'}
VIEW_FUNCS = {'np.asarray', 'np.reshape', 'np.ravel', 'np.squeeze', 'np.transpose', 'np.atleast_1d', 'np.atleast_2d', 'np.asanyarray', 'np.real', 'np.imag', 'self.xp.asarray', 'xp.asarray', 'np.moveaxis', 'np.swapaxes'}
INPLACE_METHODS = {'fill', 'sort', 'put', 'itemset', 'resize', 'setfield', 'partition', 'byteswap', 'setflags', 'axpy', 'aypx', 'scale', 'set', 'setArray', 'assign', 'setValues', 'shift', 'zeroEntries', 'copy_', 'Bcast', 'Recv', 'Irecv', 'irecv', 'bcast_inplace'}
INPLACE_FUNCS = {'np.copyto': 0, 'np.put': 0, 'np.place': 0, 'np.putmask': 0, 'np.fill_diagonal': 0}


_CALLEE_CACHE = {}
import re
# a level data slot: <level expr>.u[i] / .f[i] / .uold[i] / .fold[i] / .tau[i] / .residual[i] / .increment[i] / .uend
SLOT_RX = re.compile(r'^(?!self\.(u|f)\b)[\w\.\[\]\-\+ ]*\.(?:(?:u|f|uold|fold|tau|residual|increment|u_avg)\[[^\]]+\]|uend)$')


class Hit:
    def __init__(self, kind, node, target, tags, detail):
        self.kind, self.node, self.target, self.tags, self.detail = kind, node, target, tags, detail

    def params(self):
        return sorted({t[1] for t in self.tags if t[0] == 'param'})


class Purity:
    def __init__(self, fn, params=None, track_self=False, resolver=None, _depth=0, slots=False):
        self.fn = fn
        self.slots = slots  # treat reads of level data slots (X.u[i], X.f[i], X.uend, ...) as tracked sources
        self.resolver = resolver  # method name -> FunctionDef (same class / MRO), for one level of call-through
        self._depth = _depth
        a = fn.args
        names = [x.arg for x in a.posonlyargs + a.args + a.kwonlyargs]
        if a.vararg:
            names.append(a.vararg.arg)
        if a.kwarg:
            names.append(a.kwarg.arg)
        self.params = [n for n in names if n not in ('self', 'cls')] if params is None else list(params)
        self.track_self = track_self
        self.hits = []      # in-place writes reaching a parameter / self buffer
        self.aug_alias = []  # `x op= ..` on a name that aliases/views a parameter (correct only for value-semantic datatypes)
        self.returns = []   # (Return node, tags)
        self._seen = set()
        st = {p: frozenset({('param', p, 'alias')}) for p in self.params}
        self._block(fn.body, st)

    # ------------------------------------------------------------------ abstract evaluation
    def val(self, e, st):
        if e is None:
            return frozenset({FRESH})
        if isinstance(e, ast.Name):
            return st.get(e.id, frozenset({FRESH}))
        if self.slots and isinstance(e, (ast.Attribute, ast.Subscript)):
            txt = ast.unparse(e)
            if SLOT_RX.search(txt):
                return frozenset({('param', 'slot:' + txt, 'alias')})
        if isinstance(e, ast.Attribute):
            if isinstance(e.value, ast.Name) and e.value.id == 'self':
                if e.attr in FRESH_SELF_PROPERTIES:
                    return frozenset({FRESH})
                return frozenset({('self', e.attr)}) if self.track_self else frozenset({FRESH})
            base = self.val(e.value, st)
            if e.attr in VIEW_ATTRS:
                return self._as_view(base)
            return frozenset({FRESH})
        if isinstance(e, ast.Subscript):
            base = self.val(e.value, st)
            return self._as_view(base)
        if isinstance(e, ast.Starred):
            return self.val(e.value, st)
        if isinstance(e, ast.IfExp):
            return self.val(e.body, st) | self.val(e.orelse, st)
        if isinstance(e, ast.BoolOp):
            out = frozenset()
            for v in e.values:
                out |= self.val(v, st)
            return out
        if isinstance(e, ast.NamedExpr):
            v = self.val(e.value, st)
            st[e.target.id] = v
            return v
        if isinstance(e, ast.Call):
            f = ast.unparse(e.func)
            if f in VIEW_FUNCS and e.args:
                return self._as_view(self.val(e.args[0], st))
            if isinstance(e.func, ast.Attribute):
                if e.func.attr in VIEW_METHODS:
                    return self._as_view(self.val(e.func.value, st))
                return frozenset({FRESH})
            return frozenset({FRESH})
        if isinstance(e, (ast.Tuple, ast.List)):
            out = frozenset()
            for v in e.elts:
                out |= self.val(v, st)
            return out or frozenset({FRESH})
        return frozenset({FRESH})

    @staticmethod
    def _as_view(tags):
        out = set()
        for t in tags:
            if t[0] == 'param':
                out.add(('param', t[1], 'view'))
            else:
                out.add(t)
        return frozenset(out)

    @staticmethod
    def _dirty(tags):
        return frozenset(t for t in tags if t[0] in ('param', 'self'))

    def _hit(self, kind, node, target, tags, detail):
        key = (kind, id(node), target)
        if key in self._seen:
            return
        self._seen.add(key)
        self.hits.append(Hit(kind, node, target, self._dirty(tags), detail))

    # ------------------------------------------------------------------ statements
    def _block(self, body, st):
        for s in body:
            st = self._stmt(s, st)
        return st

    def _join(self, a, b):
        out = dict(a)
        for k, v in b.items():
            out[k] = out.get(k, frozenset()) | v if k in out else v
        for k in a:
            if k not in b:
                out[k] = a[k]
        return out

    def _assign_target(self, t, v, st, node):
        if isinstance(t, ast.Name):
            st[t.id] = v
        elif isinstance(t, (ast.Tuple, ast.List)):
            for e in t.elts:
                self._assign_target(e, v, st, node)
        elif isinstance(t, ast.Starred):
            self._assign_target(t.value, v, st, node)
        elif isinstance(t, ast.Subscript):
            base = self.val(t.value, st)
            if self._dirty(base):
                self._hit('store', node, ast.unparse(t), base, 'subscript store')
        elif isinstance(t, ast.Attribute):
            if isinstance(t.value, ast.Name) and t.value.id == 'self':
                return
            base = self.val(t.value, st)
            if self._dirty(base):
                self._hit('store', node, ast.unparse(t), base, 'attribute store')

    def _call_through(self, c, st):
        """self.helper(x) where helper (resolved in the class) writes into the parameter x is bound to"""
        if self.resolver is None or self._depth >= 2:
            return
        if not (isinstance(c.func, ast.Attribute) and isinstance(c.func.value, ast.Name) and c.func.value.id == 'self'):
            return
        callee = self.resolver(c.func.attr)
        if callee is None or callee is self.fn:
            return
        names = [a.arg for a in callee.args.posonlyargs + callee.args.args if a.arg not in ('self', 'cls')]
        bound = {}
        for i, a in enumerate(c.args):
            if i < len(names) and not isinstance(a, ast.Starred):
                bound[names[i]] = self.val(a, st)
        for k in c.keywords:
            if k.arg:
                bound[k.arg] = self.val(k.value, st)
        dirty = {p: v for p, v in bound.items() if self._dirty(v)}
        if not dirty:
            return
        key = id(callee)
        if key not in _CALLEE_CACHE:
            _CALLEE_CACHE[key] = Purity(callee, resolver=self.resolver, _depth=self._depth + 1)
        sub = _CALLEE_CACHE[key]
        for h in sub.hits:
            for p in h.params():
                if p in dirty:
                    self._hit('call-through', c, f'{ast.unparse(c.func)}({p}=...)', dirty[p], f'callee writes {h.target}')

    def _calls(self, node, st):
        for c in walk_no_nested(node):
            if not isinstance(c, ast.Call):
                continue
            self._call_through(c, st)
            f = ast.unparse(c.func)
            if isinstance(c.func, ast.Attribute) and c.func.attr == 'bcast' and self.slots and 'comm' not in ast.unparse(c.func.value):
                recv = self.val(c.func.value, st)
                if self._dirty(recv):
                    self._hit('call', c, ast.unparse(c.func.value), recv, '.bcast() (receives in place on non-root ranks)')
            if isinstance(c.func, ast.Attribute) and c.func.attr in INPLACE_METHODS:
                recv = self.val(c.func.value, st)
                if self._dirty(recv) and not (isinstance(c.func.value, ast.Name) and c.func.value.id == 'self'):
                    self._hit('call', c, ast.unparse(c.func.value), recv, f'.{c.func.attr}()')
            # communication calls that receive INTO an argument
            if isinstance(c.func, ast.Attribute) and c.func.attr in ('Bcast', 'Recv', 'Irecv', 'Allreduce', 'Reduce', 'Ibcast', 'Allgather', 'Gather') and c.args:
                pos = 1 if c.func.attr in ('Allreduce', 'Reduce', 'Allgather', 'Gather') else 0
                if len(c.args) > pos:
                    a = self.val(c.args[pos], st)
                    if self._dirty(a):
                        self._hit('call', c, ast.unparse(c.args[pos]), a, f'{c.func.attr} receive buffer')
            if f in INPLACE_FUNCS and len(c.args) > INPLACE_FUNCS[f]:
                a = self.val(c.args[INPLACE_FUNCS[f]], st)
                if self._dirty(a):
                    self._hit('call', c, ast.unparse(c.args[INPLACE_FUNCS[f]]), a, f)
            for k in c.keywords:
                if k.arg == 'out':
                    a = self.val(k.value, st)
                    if self._dirty(a):
                        self._hit('call', c, ast.unparse(k.value), a, 'out=')

    def _stmt(self, s, st):
        st = dict(st)
        if isinstance(s, (ast.FunctionDef, ast.AsyncFunctionDef, ast.ClassDef)):
            return st
        if isinstance(s, ast.Assign):
            self._calls(s.value, st)
            v = self.val(s.value, st)
            for t in s.targets:
                if isinstance(t, (ast.Tuple, ast.List)) and isinstance(s.value, (ast.Tuple, ast.List)) and len(t.elts) == len(s.value.elts):
                    for tt, vv in zip(t.elts, s.value.elts):
                        self._assign_target(tt, self.val(vv, st), st, s)
                else:
                    self._assign_target(t, v, st, s)
            return st
        if isinstance(s, ast.AnnAssign):
            if s.value is not None:
                self._calls(s.value, st)
                self._assign_target(s.target, self.val(s.value, st), st, s)
            return st
        if isinstance(s, ast.AugAssign):
            self._calls(s.value, st)
            t = s.target
            if isinstance(t, ast.Name):
                cur = st.get(t.id, frozenset({FRESH}))
                if self._dirty(cur):
                    self.aug_alias.append((s, t.id, self._dirty(cur)))
                # for value-semantic datatypes the name is rebound to a new object
                st[t.id] = frozenset({FRESH}) | frozenset()
                if self._dirty(cur):
                    st[t.id] = frozenset({FRESH})
            else:
                base = self.val(t.value, st) if isinstance(t, (ast.Subscript, ast.Attribute)) else frozenset({FRESH})
                if isinstance(t, ast.Attribute) and isinstance(t.value, ast.Name) and t.value.id == 'self':
                    base = frozenset({FRESH})
                if self._dirty(base):
                    self._hit('augstore', s, ast.unparse(t), base, 'augmented store into a view')
            return st
        if isinstance(s, ast.Expr):
            self._calls(s.value, st)
            return st
        if isinstance(s, ast.Return):
            if s.value is not None:
                self._calls(s.value, st)
                self.returns.append((s, self.val(s.value, st)))
            return st
        if isinstance(s, ast.If):
            self._calls(s.test, st)
            a = self._block(s.body, dict(st))
            b = self._block(s.orelse, dict(st))
            return self._join(a, b)
        if isinstance(s, (ast.For, ast.AsyncFor)):
            self._calls(s.iter, st)
            it = self.val(s.iter, st)
            cur = dict(st)
            for _ in range(2):
                inner = dict(cur)
                self._assign_target(s.target, self._as_view(it) if self._dirty(it) else frozenset({FRESH}), inner, s)
                after = self._block(s.body, inner)
                cur = self._join(cur, after)
            cur = self._block(s.orelse, cur)
            return cur
        if isinstance(s, ast.While):
            self._calls(s.test, st)
            cur = dict(st)
            for _ in range(2):
                after = self._block(s.body, dict(cur))
                cur = self._join(cur, after)
            return self._block(s.orelse, cur)
        if isinstance(s, (ast.With, ast.AsyncWith)):
            for i in s.items:
                self._calls(i.context_expr, st)
                if i.optional_vars is not None:
                    self._assign_target(i.optional_vars, frozenset({FRESH}), st, s)
            return self._block(s.body, st)
        if isinstance(s, ast.Try):
            a = self._block(s.body, dict(st))
            out = a
            for h in s.handlers:
                out = self._join(out, self._block(h.body, dict(st)))
            out = self._block(s.orelse, out)
            return self._block(s.finalbody, out)
        if isinstance(s, (ast.Raise, ast.Assert, ast.Delete, ast.Pass, ast.Break, ast.Continue, ast.Global, ast.Nonlocal, ast.Import, ast.ImportFrom)):
            return st
        if isinstance(s, ast.Match):
            out = dict(st)
            for c in s.cases:
                out = self._join(out, self._block(c.body, dict(st)))
            return out
        return st
