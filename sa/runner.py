"""E8 - rule registry, verdicts, floors, known findings, evidence and replay files, CLI."""

import importlib
import json
import os
import sys
import time
import traceback

from .model import AnalysisError, Repo

VERIF = os.path.dirname(os.path.dirname(os.path.abspath(__file__)))
PROPS = ['C01', 'C02', 'C03', 'C04', 'C05', 'C06', 'C07', 'C08', 'C09', 'C10', 'C11', 'C12', 'C13', 'C14', 'C15', 'C16', 'C17', 'C18', 'C19', 'C20']

_RULES = {}  # property -> list of RuleDef
LAST_ERRORS = []  # analysis errors of the last run_property call that ALSO found violations (reported, not hidden)


class RuleDef:
    def __init__(self, prop, rid, title, floor, fn, tier):
        self.prop, self.rid, self.title, self.floor, self.fn, self.tier = prop, rid, title, floor, fn, tier


def rule(prop, rid, title, floor=1, tier='quick'):
    def deco(fn):
        _RULES.setdefault(prop, []).append(RuleDef(prop, rid, title, floor, fn, tier))
        return fn

    return deco


class Instance:
    __slots__ = ('rule', 'construct', 'where', 'status', 'expected', 'found', 'reason')

    def __init__(self, rule, construct, where, status, expected=None, found=None, reason=None):
        self.rule, self.construct, self.where, self.status = rule, construct, where, status
        self.expected, self.found, self.reason = expected, found, reason

    def as_dict(self):
        d = {'rule': self.rule, 'construct': self.construct, 'where': self.where, 'status': self.status}
        for k in ('expected', 'found', 'reason'):
            if getattr(self, k) is not None:
                d[k] = getattr(self, k)
        return d


class RuleRun:
    """Collector handed to a rule function."""

    def __init__(self, rdef):
        self.rdef = rdef
        self.instances = []
        self.analysed = {'functions': set(), 'call_sites': 0}
        self.error = None

    def fn(self, where):
        self.analysed['functions'].add(where)

    def ok(self, construct, where, found=None):
        self.instances.append(Instance(self.rdef.rid, construct, where, 'discharged', found=found))

    def bad(self, construct, where, expected, found):
        self.instances.append(Instance(self.rdef.rid, construct, where, 'violated', expected=expected, found=found))

    def exc(self, construct, where, reason):
        self.instances.append(Instance(self.rdef.rid, construct, where, 'exception', reason=reason))

    def note(self, construct, where, reason):
        self.instances.append(Instance(self.rdef.rid, construct, where, 'note', reason=reason))

    def check(self, cond, construct, where, expected, found):
        if cond:
            self.ok(construct, where, found=found)
        else:
            self.bad(construct, where, expected, found)
        return cond

    def count(self):
        return sum(1 for i in self.instances if i.status in ('discharged', 'violated', 'exception'))


class Ctx:
    def __init__(self, root, tier, seed):
        self.root, self.tier, self.seed = root, tier, seed
        self._repo = None
        self._cache = {}

    @property
    def repo(self):
        if self._repo is None:
            self._repo = Repo(self.root)
        return self._repo

    def memo(self, key, fn):
        if key not in self._cache:
            self._cache[key] = fn()
        return self._cache[key]


def load_rules():
    for p in PROPS:
        importlib.import_module(f'sa.rules.{p.lower()}')


def load_known():
    path = os.path.join(VERIF, 'known_findings.json')
    if not os.path.exists(path):
        return {'findings': [], 'fixed': []}
    with open(path) as fh:
        return json.load(fh)


def run_property(prop, root='/repo', tier='quick', seed=0, only_rule=None):
    """Run all rules of a property. Returns (runs, error) where error is an AnalysisError message or None."""
    load_rules()
    ctx = Ctx(root, tier, seed)
    runs = []
    errors = []
    for rdef in _RULES.get(prop, []):
        if rdef.tier == 'thorough' and tier != 'thorough':
            continue
        if only_rule and rdef.rid != only_rule:
            continue
        rr = RuleRun(rdef)
        try:
            rdef.fn(ctx, rr)
            n = rr.count()
            if n < rdef.floor and not os.environ.get('SA_NOFLOOR') and not any(i.status == 'violated' for i in rr.instances):
                raise AnalysisError(
                    f'{rdef.rid}: only {n} instance(s) examined, floor is {rdef.floor} - the rule lost its anchors '
                    f'(pattern no longer recognised); refusing to pass vacuously'
                )
        except AnalysisError as e:
            # keep going: a violation found by another rule must not be hidden behind an analysis error of this one
            rr.error = str(e)
            errors.append(f'{rdef.rid}: {e}')
        runs.append(rr)
    if not runs:
        raise AnalysisError(f'no rules registered for {prop}')
    if errors and not classify(prop, runs)[1]:
        raise AnalysisError(' ;; '.join(errors))
    LAST_ERRORS[:] = errors
    return runs


def classify(prop, runs):
    """Split violated instances into known findings and new violations."""
    known = [k for k in load_known().get('findings', []) if k['property'] == prop]
    kf, viol = [], []
    for rr in runs:
        for inst in rr.instances:
            if inst.status != 'violated':
                continue
            hit = next((k for k in known if k['rule'] == inst.rule and k['construct'] == inst.construct), None)
            if hit is not None:
                kf.append((inst, hit))
            else:
                viol.append(inst)
    return kf, viol


def write_evidence(prop, tier, seed, runs, kf, viol, wall, explanation, not_decided, extra=None):
    all_inst = [i for rr in runs for i in rr.instances]
    examined = [i for i in all_inst if i.status in ('discharged', 'violated', 'exception')]
    distinct = {(i.rule, i.construct) for i in examined}
    rules = []
    for rr in runs:
        st = {}
        for i in rr.instances:
            st[i.status] = st.get(i.status, 0) + 1
        rules.append(
            {
                'rule': rr.rdef.rid,
                'title': rr.rdef.title,
                'floor': rr.rdef.floor,
                'instances': rr.count(),
                'by_status': st,
                'functions_analysed': sorted(rr.analysed['functions']),
                'exceptions': [i.as_dict() for i in rr.instances if i.status == 'exception'],
                'notes': [i.as_dict() for i in rr.instances if i.status == 'note'],
                'samples': [i.as_dict() for i in rr.instances if i.status == 'discharged'][:4],
            }
        )
    samples = [i.as_dict() for i in examined[:: max(1, len(examined) // 12)]][:14]
    ev = {
        'property_id': prop,
        'tier': tier,
        'seed': seed,
        'level': 'other',
        'coverage': {
            'explanation': explanation,
            'evaluations': len(examined),
            'distinct_nontrivial': len(distinct),
            'rule': 'one case = one rule instance (rule id, qualified function, normalised construct) found in the current '
            'source of /repo; distinct = distinct (rule, construct) pairs; non-trivial = the instance carries a '
            'fact that was compared against the rule (discharged, violated or tabled exception); NOTE lines are not counted',
            'samples': samples,
            'obligations': len(examined),
            'discharged': sum(1 for i in examined if i.status in ('discharged', 'exception')),
            'rules': rules,
            'known_findings': [dict(i.as_dict(), what=k.get('what')) for i, k in kf],
            'violations': [i.as_dict() for i in viol],
            'not_decided': not_decided,
            'exhaustive': False,
        },
        'assumptions': [
            'CPython ast parses the files the interpreter would run; the checker reads /repo working tree, not an installed copy',
            'roles (L, P, S, step, ...) follow the naming conventions of pySDC; lost instances are caught by floors (exit 2)',
            'each rule is a necessary structural condition of the property, not the behaviour itself',
        ],
        'wall_s': round(wall, 3),
        'violations': len(viol),
    }
    if extra:
        ev['coverage'].update(extra)
    os.makedirs(os.path.join(VERIF, 'evidence'), exist_ok=True)
    with open(os.path.join(VERIF, 'evidence', f'{prop}.json'), 'w') as fh:
        json.dump(ev, fh, indent=1, default=str)
    return ev


def write_replay(prop, inst, root):
    d = os.path.join(VERIF, 'evidence', 'replay')
    os.makedirs(d, exist_ok=True)
    import hashlib

    h = hashlib.sha1((inst.rule + '|' + inst.construct).encode()).hexdigest()[:10]
    path = os.path.join(d, f'{prop}_{inst.rule.replace(".", "_")}_{h}.json')
    with open(path, 'w') as fh:
        json.dump(dict(inst.as_dict(), property=prop, root=root), fh, indent=1, default=str)
    return path


def main(argv=None):
    import argparse

    ap = argparse.ArgumentParser(description='static checker for the pySDC properties')
    ap.add_argument('prop')
    ap.add_argument('--root', default='/repo')
    ap.add_argument('--tier', default=os.environ.get('VERIF_TIER', 'quick'), choices=['quick', 'thorough'])
    ap.add_argument('--replay')
    ap.add_argument('--no-evidence', action='store_true')
    ap.add_argument('--list', action='store_true', help='print every instance')
    args = ap.parse_args(argv)
    seed = int(os.environ.get('VERIF_SEED', '0') or 0)
    prop = args.prop.upper()
    t0 = time.time()
    try:
        if prop not in PROPS:
            raise AnalysisError(f'{prop} is not a claimed property (see MANIFEST.json not_applicable)')
        from . import propinfo

        info = propinfo.INFO[prop]
        if args.replay:
            with open(args.replay) as fh:
                rp = json.load(fh)
            runs = run_property(prop, args.root, 'quick', seed, only_rule=rp['rule'])
            hit = [i for rr in runs for i in rr.instances if i.construct == rp['construct']]
            for i in hit:
                print(json.dumps(i.as_dict(), indent=1, default=str))
            if any(i.status == 'violated' for i in hit):
                print(f'VIOLATION property={prop} replay={args.replay}')
                return 1
            print('replay: instance no longer violated' if hit else 'replay: instance not found in the current tree')
            return 0
        runs = run_property(prop, args.root, args.tier, seed)
        kf, viol = classify(prop, runs)
        extra = None
        if args.tier == 'thorough':
            from . import selftest

            extra, st_fail = selftest.run_for(prop, args.root, seed)
            from . import clientscan

            cs = clientscan.scan(prop, args.root)
            if cs:
                extra.update(cs)
            if st_fail:
                raise AnalysisError('self-test of the checker failed: ' + '; '.join(st_fail))
        wall = time.time() - t0
        for rr in runs:
            st = {}
            for i in rr.instances:
                st[i.status] = st.get(i.status, 0) + 1
            print(f'{rr.rdef.rid:9s} {rr.count():4d} instance(s) (floor {rr.rdef.floor}) {st}  - {rr.rdef.title}')
            if args.list:
                for i in rr.instances:
                    print('     ', i.status, i.where, '|', i.construct, '|', i.found if i.status != 'violated' else f'expected {i.expected}; found {i.found}', i.reason or '')
        for rr in runs:
            for i in rr.instances:
                if i.status == 'note' and args.tier == 'thorough':
                    print(f'NOTE: {i.rule} {i.where} {i.construct}: {i.reason}')
        for inst, k in kf:
            print(f'KNOWN-FINDING: property={prop} {inst.rule} {inst.where} {inst.construct} :: {k.get("what", "")}')
        if not args.no_evidence and os.path.abspath(args.root) == '/repo':
            write_evidence(prop, args.tier, seed, runs, kf, viol, wall, info['explanation'], info['not_decided'], extra)
        for e_ in LAST_ERRORS:
            print(f'ANALYSIS-ERROR (rule skipped, other rules still decide): {e_}')
        if viol:
            for inst in viol:
                path = write_replay(prop, inst, args.root) if os.path.abspath(args.root) == '/repo' else '-'
                print(f'  {inst.rule} {inst.where}\n     construct: {inst.construct}\n     expected : {inst.expected}\n     found    : {inst.found}')
                print(f'VIOLATION property={prop} replay={path}')
            return 1
        print(f'{prop}: all rule instances discharged ({sum(rr.count() for rr in runs)} instances, {len(runs)} rules, {wall:.2f}s, tier {args.tier})')
        return 0
    except AnalysisError as e:
        print(f'ANALYSIS-ERROR property={prop}: {e}')
        return 2
    except Exception:
        traceback.print_exc()
        print(f'ANALYSIS-ERROR property={prop}: internal error in the checker (traceback above)')
        return 2
