"""E3 - term algebra / normaliser.

Turns what a function *writes* into comparable normal forms without evaluating anything:

* single-assignment alias locals are inlined (``L = self.level``, ``P = L.prob``, ``M = self.coll.num_nodes``) and
  the ubiquitous receivers are renamed to roles (``self.level`` -> ``L``, ``L.prob`` -> ``P``, ``self.coll.num_nodes`` -> ``M``);
* ``range`` loops are renamed by nesting depth (n, j, k, ...) and shifted to start at 1, index expressions are
  simplified as affine forms, so ``for m in range(M): X[m+1]`` and ``for m in range(1, M+1): X[m]`` agree;
* sums are flattened with signs, products are distributed over parenthesised sums and flattened to sorted factor
  multisets; ``a -= x`` and ``a += -x`` agree;
* ``X = []; for ..: X.append(e); X[-1] += ..`` is read as ``X[n-1] = e; X[n-1] += ..``.

The output for one function is a list of Contribution records (target, op, signed terms, loops, guards).
"""

import ast
import copy

from .cfg import terminates, walk_no_nested

LOOP_NAMES = ['i1', 'i2', 'i3', 'i4', 'i5', 'i6']


# --------------------------------------------------------------------------------------------- affine forms
class Affine:
    """const + sum coeff*symbol with integer coefficients; symbols are canonical strings."""

    def __init__(self, const=0, coeffs=None):
        self.const = const
        self.coeffs = {k: v for k, v in (coeffs or {}).items() if v != 0}

    def __add__(self, o):
        c = dict(self.coeffs)
        for k, v in o.coeffs.items():
            c[k] = c.get(k, 0) + v
        return Affine(self.const + o.const, c)

    def scale(self, f):
        return Affine(self.const * f, {k: v * f for k, v in self.coeffs.items()})

    def __sub__(self, o):
        return self + o.scale(-1)

    def subst(self, sym, aff):
        if sym not in self.coeffs:
            return self
        c = dict(self.coeffs)
        f = c.pop(sym)
        return Affine(self.const, c) + aff.scale(f)

    def subst_all(self, mapping):
        """simultaneous substitution symbol -> Affine"""
        out = Affine(self.const)
        for k, v in self.coeffs.items():
            out = out + (mapping[k].scale(v) if k in mapping else Affine(0, {k: v}))
        return out

    def is_const(self):
        return not self.coeffs

    def __eq__(self, o):
        return isinstance(o, Affine) and self.const == o.const and self.coeffs == o.coeffs

    def __hash__(self):
        return hash(str(self))

    def __str__(self):
        parts = []
        for k in sorted(self.coeffs):
            v = self.coeffs[k]
            if v == 1:
                parts.append(f'+{k}')
            elif v == -1:
                parts.append(f'-{k}')
            else:
                parts.append(f'{"+" if v > 0 else "-"}{abs(v)}*{k}')
        if self.const or not parts:
            parts.append(f'{"+" if self.const >= 0 else "-"}{abs(self.const)}')
        s = ''.join(parts)
        return s[1:] if s.startswith('+') else s

    def to_ast(self):
        return ast.parse(str(self), mode='eval').body


def to_affine(node):
    """ast expression -> Affine, or None when it is not an integer-affine form over names/atoms."""
    if isinstance(node, ast.Constant) and isinstance(node.value, int) and not isinstance(node.value, bool):
        return Affine(node.value)
    if isinstance(node, ast.UnaryOp) and isinstance(node.op, ast.USub):
        a = to_affine(node.operand)
        return None if a is None else a.scale(-1)
    if isinstance(node, ast.BinOp):
        if isinstance(node.op, (ast.Add, ast.Sub)):
            a, b = to_affine(node.left), to_affine(node.right)
            if a is None or b is None:
                return None
            return a + b if isinstance(node.op, ast.Add) else a - b
        if isinstance(node.op, ast.Mult):
            a, b = to_affine(node.left), to_affine(node.right)
            if a is None or b is None:
                return None
            if a.is_const():
                return b.scale(a.const)
            if b.is_const():
                return a.scale(b.const)
            return None
        return None
    if isinstance(node, (ast.Name, ast.Attribute, ast.Subscript, ast.Call)):
        return Affine(0, {ast.unparse(node): 1})
    return None


# --------------------------------------------------------------------------------------------- alias environment
def _is_chain(node):
    """Name | chain.attr | len(chain) | chain[const]"""
    if isinstance(node, ast.Name):
        return True
    if isinstance(node, ast.Attribute):
        return _is_chain(node.value)
    if isinstance(node, ast.Subscript):
        return _is_chain(node.value) and isinstance(node.slice, (ast.Constant, ast.Name))
    if isinstance(node, ast.Call) and isinstance(node.func, ast.Name) and node.func.id == 'len' and len(node.args) == 1:
        return _is_chain(node.args[0])
    return False


def _is_pure_arith(node):
    for x in ast.walk(node):
        if isinstance(x, (ast.Call, ast.Lambda, ast.ListComp, ast.GeneratorExp, ast.Await, ast.Yield, ast.IfExp)):
            return False
    return True


def assigned_names(fn):
    """name -> list of assigning statements (Assign/AugAssign/For target/With as/AnnAssign/walrus)."""
    out = {}

    def add(t, st):
        if isinstance(t, ast.Name):
            out.setdefault(t.id, []).append(st)
        elif isinstance(t, (ast.Tuple, ast.List)):
            for e in t.elts:
                add(e, st)
        elif isinstance(t, ast.Starred):
            add(t.value, st)

    for x in walk_no_nested(fn):
        if isinstance(x, ast.Assign):
            for t in x.targets:
                add(t, x)
        elif isinstance(x, (ast.AugAssign, ast.AnnAssign)):
            add(x.target, x)
        elif isinstance(x, (ast.For, ast.AsyncFor)):
            add(x.target, x)
        elif isinstance(x, (ast.With, ast.AsyncWith)):
            for it in x.items:
                if it.optional_vars is not None:
                    add(it.optional_vars, x)
        elif isinstance(x, ast.NamedExpr):
            add(x.target, x)
        elif isinstance(x, ast.comprehension):
            add(x.target, x)
    return out


class Env:
    """Alias environment of one function."""

    def __init__(self, fn, inline_scalars=True):
        self.fn = fn
        self.alias = {}
        asg = assigned_names(fn)
        params = {a.arg for a in fn.args.args + fn.args.kwonlyargs + fn.args.posonlyargs}
        for name, sts in asg.items():
            if len(sts) != 1 or name in params:
                continue
            st = sts[0]
            if not isinstance(st, ast.Assign) or len(st.targets) != 1 or not isinstance(st.targets[0], ast.Name):
                continue
            v = st.value
            if _is_chain(v):
                self.alias[name] = v
            elif inline_scalars and _is_pure_arith(v) and not isinstance(v, (ast.List, ast.Dict, ast.Tuple, ast.Set, ast.Constant)):
                self.alias[name] = v
        # tuple aliasing `F, G = self.fine, self.coarse`
        for x in walk_no_nested(fn):
            if isinstance(x, ast.Assign) and len(x.targets) == 1 and isinstance(x.targets[0], ast.Tuple) and isinstance(x.value, ast.Tuple) and len(x.targets[0].elts) == len(x.value.elts):
                for t, v in zip(x.targets[0].elts, x.value.elts):
                    if isinstance(t, ast.Name) and len(asg.get(t.id, [])) == 1 and t.id not in params and _is_chain(v):
                        self.alias[t.id] = v
        # resolve aliases of aliases (bounded)
        for _ in range(4):
            changed = False
            for k, v in list(self.alias.items()):
                nv = self._subst(copy.deepcopy(v), skip={k})
                if ast.dump(nv) != ast.dump(v):
                    self.alias[k] = nv
                    changed = True
            if not changed:
                break

    def _subst(self, node, skip=()):
        env = self

        class T(ast.NodeTransformer):
            def visit_Name(self, n):
                if isinstance(n.ctx, ast.Load) and n.id in env.alias and n.id not in skip:
                    return copy.deepcopy(env.alias[n.id])
                return n

        return T().visit(node)

    def subst(self, node):
        return self._subst(copy.deepcopy(node))


# --------------------------------------------------------------------------------------------- role renaming
def _roles(node):
    """self.level -> L ; L.prob -> P ; self.coll.num_nodes -> M ; lvl/level names are left alone (roles.py)."""

    class T(ast.NodeTransformer):
        def visit_Attribute(self, n):
            self.generic_visit(n)
            s = ast.unparse(n)
            if s in ('self.level', 'self._Sweeper__level'):
                return ast.Name('L', ast.Load())
            if s == 'L.prob':
                return ast.Name('P', ast.Load())
            if s in ('self.coll.num_nodes', 'L.sweep.coll.num_nodes'):
                return ast.Name('M', ast.Load())
            return n

    return T().visit(node)


class LoopCtx:
    """One enclosing loop in canonical form."""

    def __init__(self, kind, var, lo=None, hi=None, it=None, node=None, step=1):
        self.kind, self.var, self.lo, self.hi, self.it, self.node, self.step = kind, var, lo, hi, it, node, step

    def key(self):
        if self.kind == 'range':
            return ('range', self.var, str(self.lo), str(self.hi), self.step)
        return ('iter', self.var, self.it)

    def __repr__(self):
        if self.kind == 'range':
            return f'{self.var}={self.lo}..{self.hi}' + (f' step {self.step}' if self.step != 1 else '')
        return f'{self.var} in {self.it}'


class Contribution:
    def __init__(self, **kw):
        self.__dict__.update(kw)

    def factors(self):
        return [t[1] for t in self.terms]

    def describe(self):
        ts = ' '.join(('+' if s > 0 else '-') + '·'.join(f) for s, f in self.terms) if self.terms is not None else self.rhs
        g = (' if ' + ' and '.join(self.guards)) if self.guards else ''
        lp = (' for ' + ', '.join(map(repr, self.loops))) if self.loops else ''
        return f'{self.target} {self.op} {ts}{lp}{g}'


class Normalizer:
    """Tabulates the contributions of one function."""

    def __init__(self, fn, inline_scalars=True, extra_alias=None):
        self.fn = fn
        self.env = Env(fn, inline_scalars=inline_scalars)
        if extra_alias:
            self.env.alias.update(extra_alias)
        self.contribs = []
        self.calls = []  # (canonical call string, loops, guards, stmt)
        self._loopsub = {}  # python loop var -> Affine in canonical var
        self._append_lists = {}  # list name -> canonical loop var of the loop it is appended in
        self._empty_lists = {
            n for n, sts in assigned_names(fn).items()
            if any(isinstance(s, ast.Assign) and isinstance(s.value, ast.List) and not s.value.elts for s in sts)
        }
        self._walk(fn.body, [], [])

    # ------------------------------------------------------------------ canonical expressions
    def cexpr(self, node):
        """canonical AST of an expression (aliases inlined, roles renamed, loop vars shifted, indices simplified)."""
        n = self.env.subst(node)
        n = _roles(n)
        n = self._shift(n)
        return n

    def canon(self, node):
        return ast.unparse(self.cexpr(node))

    def _shift(self, node):
        norm = self

        class T(ast.NodeTransformer):
            def visit_Subscript(self, n):
                n.value = self.visit(n.value)
                sl = n.slice
                if isinstance(sl, ast.Tuple):
                    sl.elts = [self._idx(e) for e in sl.elts]
                else:
                    n.slice = self._idx(sl)
                # X[-1] on an append-built list inside its loop is the element of this iteration
                if isinstance(n.value, ast.Name) and n.value.id in norm._append_lists:
                    if isinstance(n.slice, ast.UnaryOp) or (isinstance(n.slice, ast.Constant) and n.slice.value == -1):
                        if ast.unparse(n.slice) == '-1':
                            v = norm._append_lists[n.value.id]
                            n.slice = (Affine(-1, {v: 1})).to_ast()
                return n

            def _idx(self, e):
                if isinstance(e, ast.Slice):
                    for f in ('lower', 'upper', 'step'):
                        if getattr(e, f) is not None:
                            setattr(e, f, self._idx(getattr(e, f)))
                    return e
                e2 = self.visit(e)  # loop variables (also inside nested subscripts) become canonical affine forms
                a = to_affine(e2)   # simplification only: nothing is substituted twice
                if a is not None:
                    return a.to_ast()
                return e2

            def visit_Name(self, n):
                if isinstance(n.ctx, ast.Load) and n.id in norm._loopsub:
                    return norm._loopsub[n.id].to_ast()
                return n

        return T().visit(node)

    def affine(self, node, pre_shifted=False):
        """Affine form of an (index / bound) expression in canonical loop variables."""
        if not pre_shifted:
            node = _roles(self.env.subst(node))
        a = to_affine(node)
        if a is None:
            return None
        return a.subst_all(self._loopsub)

    # ------------------------------------------------------------------ term flattening
    def terms(self, node):
        """list of (sign, sorted tuple of factor strings) for a canonicalised expression AST."""
        return self._terms(self.cexpr(node))

    def _terms(self, n):
        if isinstance(n, ast.BinOp):
            if isinstance(n.op, ast.Add):
                return self._terms(n.left) + self._terms(n.right)
            if isinstance(n.op, ast.Sub):
                return self._terms(n.left) + [(-s, f) for s, f in self._terms(n.right)]
            if isinstance(n.op, ast.Mult):
                out = []
                for s1, f1 in self._terms(n.left):
                    for s2, f2 in self._terms(n.right):
                        out.append((s1 * s2, tuple(sorted(f1 + f2))))
                return out
            if isinstance(n.op, ast.Div):
                den = ast.unparse(n.right)
                return [(s, tuple(sorted(f + (f'1/({den})',)))) for s, f in self._terms(n.left)]
        if isinstance(n, ast.UnaryOp) and isinstance(n.op, ast.USub):
            return [(-s, f) for s, f in self._terms(n.operand)]
        if isinstance(n, ast.UnaryOp) and isinstance(n.op, ast.UAdd):
            return self._terms(n.operand)
        if isinstance(n, ast.Constant) and isinstance(n.value, (int, float)) and not isinstance(n.value, bool):
            if n.value == 1:
                return [(1, ())]
            if n.value == -1:
                return [(-1, ())]
            if n.value < 0:
                return [(-1, (repr(-n.value),))]
            return [(1, (repr(n.value),))]
        if isinstance(n, ast.Subscript) and isinstance(n.value, ast.BinOp) and isinstance(n.value.op, (ast.Add, ast.Sub)):
            # (A - B)[i, j]  ==  A[i, j] - B[i, j]
            out = []
            for s, f in self._terms(n.value):
                if len(f) != 1:
                    return [(1, (ast.unparse(n),))]
                out.append((s, (f'{f[0]}[{ast.unparse(n.slice)}]',)))
            return out
        return [(1, (ast.unparse(n),))]

    # ------------------------------------------------------------------ statement walk
    def _guard_str(self, test, pol):
        c = self.cexpr(test)
        if not pol:
            c = negate(c)
        return ast.unparse(c)

    def _walk(self, body, loops, guards):
        guards = list(guards)
        for st in body:
            self._stmt(st, loops, guards)
            if isinstance(st, ast.If):
                if terminates(st.body) and not terminates(st.orelse):
                    guards.append(self._guard_str(st.test, False))
                elif st.orelse and terminates(st.orelse) and not terminates(st.body):
                    guards.append(self._guard_str(st.test, True))

    def _record_calls(self, st, loops, guards, exprs):
        for e in exprs:
            for x in ast.walk(e):
                if isinstance(x, ast.Call):
                    self.calls.append((self.canon(x), list(loops), list(guards), st, x))

    def _stmt(self, st, loops, guards):
        if isinstance(st, ast.If):
            self._record_calls(st, loops, guards, [st.test])
            self._walk(st.body, loops, guards + [self._guard_str(st.test, True)])
            self._walk(st.orelse, loops, guards + [self._guard_str(st.test, False)])
            return
        if isinstance(st, (ast.For, ast.AsyncFor)):
            self._record_calls(st, loops, guards, [st.iter])
            ctx, undo = self._enter_loop(st, loops)
            self._walk(st.body, loops + [ctx], guards)
            undo()
            self._walk(st.orelse, loops, guards)
            return
        if isinstance(st, ast.While):
            self._record_calls(st, loops, guards, [st.test])
            ctx = LoopCtx('iter', '<while>', it=self.canon(st.test), node=st)
            self._walk(st.body, loops + [ctx], guards + [self._guard_str(st.test, True)])
            self._walk(st.orelse, loops, guards)
            return
        if isinstance(st, (ast.With, ast.AsyncWith)):
            self._record_calls(st, loops, guards, [i.context_expr for i in st.items])
            self._walk(st.body, loops, guards)
            return
        if isinstance(st, ast.Try):
            self._walk(st.body, loops, guards)
            for h in st.handlers:
                self._walk(h.body, loops, guards + ['<except %s>' % (ast.unparse(h.type) if h.type else '')])
            self._walk(st.orelse, loops, guards)
            self._walk(st.finalbody, loops, guards)
            return
        if isinstance(st, (ast.FunctionDef, ast.AsyncFunctionDef, ast.ClassDef)):
            return
        self._record_calls(st, loops, guards, [st])
        if isinstance(st, ast.Assign):
            for t in st.targets:
                if isinstance(t, (ast.Tuple, ast.List)):
                    if isinstance(st.value, (ast.Tuple, ast.List)) and len(st.value.elts) == len(t.elts):
                        for tt, vv in zip(t.elts, st.value.elts):
                            self._emit(tt, '=', vv, st, loops, guards)
                    else:
                        for i, tt in enumerate(t.elts):
                            self._emit(tt, '=', None, st, loops, guards, rhs=f'({self.canon(st.value)})[{i}]')
                else:
                    self._emit(t, '=', st.value, st, loops, guards)
        elif isinstance(st, ast.AnnAssign) and st.value is not None:
            self._emit(st.target, '=', st.value, st, loops, guards)
        elif isinstance(st, ast.AugAssign):
            op = {ast.Add: '+=', ast.Sub: '-=', ast.Mult: '*=', ast.Div: '/='}.get(type(st.op), type(st.op).__name__ + '=')
            self._emit(st.target, op, st.value, st, loops, guards)
        elif isinstance(st, ast.Expr) and isinstance(st.value, ast.Call):
            c = st.value
            if isinstance(c.func, ast.Attribute) and c.func.attr == 'append' and isinstance(c.func.value, ast.Name) and len(c.args) == 1:
                lst = c.func.value.id
                if lst in self._append_lists:
                    v = self._append_lists[lst]
                    tgt = ast.Subscript(ast.Name(lst, ast.Load()), Affine(-1, {v: 1}).to_ast(), ast.Store())
                    self._emit(tgt, '=', c.args[0], st, loops, guards, pre_canon_target=True)

    def _enter_loop(self, st, loops):
        depth = sum(1 for l in loops if l.kind == 'range')
        saved_sub = dict(self._loopsub)
        saved_app = dict(self._append_lists)
        ctx = None
        it = st.iter
        if (
            isinstance(it, ast.Call) and isinstance(it.func, ast.Name) and it.func.id == 'range'
            and isinstance(st.target, ast.Name) and 1 <= len(it.args) <= 3 and not it.keywords
        ):
            step = 1
            if len(it.args) == 3:
                sa = to_affine(it.args[2])
                step = sa.const if sa is not None and sa.is_const() else None
            lo = Affine(0) if len(it.args) == 1 else self.affine(it.args[0])
            hi = self.affine(it.args[0] if len(it.args) == 1 else it.args[1])
            if lo is not None and hi is not None and step in (1, -1):
                cv = LOOP_NAMES[depth]
                if step == 1:
                    # v = cv + lo - 1, cv in 1 .. hi - lo   (inclusive upper bound)
                    self._loopsub[st.target.id] = Affine(-1, {cv: 1}) + lo
                    ctx = LoopCtx('range', cv, Affine(1), hi - lo, node=st, step=1)
                else:
                    # descending: v = lo - (cv - 1), keep actual values: cv ranges over lo .. hi+1 descending
                    self._loopsub[st.target.id] = Affine(0, {cv: 1})
                    ctx = LoopCtx('range', cv, lo, hi + Affine(1), node=st, step=-1)
                # append-built lists of this loop
                for b in st.body:
                    if (
                        isinstance(b, ast.Expr) and isinstance(b.value, ast.Call) and isinstance(b.value.func, ast.Attribute)
                        and b.value.func.attr == 'append' and isinstance(b.value.func.value, ast.Name)
                        and b.value.func.value.id in self._empty_lists and depth == 0 and step == 1
                    ):
                        self._append_lists[b.value.func.value.id] = cv
        saved_alias = dict(self.env.alias)
        if ctx is None and isinstance(it, ast.Call) and isinstance(it.func, ast.Name) and it.func.id in ('zip', 'enumerate'):
            # `for (a, b) in zip(A, B)`  ==  a -> A[e], b -> B[e] ;  `for i, a in enumerate(A)` == a -> A[i]
            ev = 'e%d' % (len(loops) + 1)
            tg = st.target.elts if isinstance(st.target, (ast.Tuple, ast.List)) else None
            if it.func.id == 'zip' and tg and len(tg) == len(it.args) and all(isinstance(t, ast.Name) for t in tg):
                for t, a in zip(tg, it.args):
                    self.env.alias[t.id] = ast.Subscript(self.env.subst(a), ast.Name(ev, ast.Load()), ast.Load())
                ctx = LoopCtx('iter', ev, it='zip(%s)' % ', '.join(sorted(self.canon(a) for a in it.args)), node=st)
        if ctx is None:
            ctx = LoopCtx('iter', ast.unparse(st.target), it=self.canon(it), node=st)

        def undo():
            self._loopsub = saved_sub
            self._append_lists = saved_app
            self.env.alias = saved_alias

        return ctx, undo

    def _emit(self, target, op, value, st, loops, guards, rhs=None, pre_canon_target=False):
        tgt = ast.unparse(target) if pre_canon_target else self.canon(target)
        terms = None
        call = None
        if value is not None:
            cv = self.cexpr(value)
            rhs = ast.unparse(cv)
            terms = self._terms(cv)
            if op == '-=':
                terms = [(-s, f) for s, f in terms]
                op = '+='
            if isinstance(cv, ast.Call):
                call = (ast.unparse(cv.func), [ast.unparse(a) for a in cv.args], {k.arg: ast.unparse(k.value) for k in cv.keywords})
        self.contribs.append(
            Contribution(target=tgt, op=op, terms=terms, rhs=rhs, call=call, loops=list(loops), guards=list(guards), stmt=st, lineno=st.lineno)
        )

    # ------------------------------------------------------------------ convenience
    def to(self, target_prefix):
        return [c for c in self.contribs if c.target == target_prefix or c.target.startswith(target_prefix + '[') or c.target.startswith(target_prefix + '.')]


def negate(test):
    """structural negation with the usual idioms folded (x is None <-> x is not None, not not x)."""
    if isinstance(test, ast.UnaryOp) and isinstance(test.op, ast.Not):
        return test.operand
    if isinstance(test, ast.Compare) and len(test.ops) == 1:
        flip = {ast.Is: ast.IsNot, ast.IsNot: ast.Is, ast.Eq: ast.NotEq, ast.NotEq: ast.Eq, ast.Lt: ast.GtE, ast.GtE: ast.Lt,
                ast.Gt: ast.LtE, ast.LtE: ast.Gt, ast.In: ast.NotIn, ast.NotIn: ast.In}
        t = type(test.ops[0])
        if t in flip:
            return ast.Compare(test.left, [flip[t]()], test.comparators)
    return ast.UnaryOp(ast.Not(), test)


# --------------------------------------------------------------------------------------------- boolean normal form
def bool_nf(node, canon=ast.unparse):
    """AC-normal form of a boolean expression: nested tuples ('and'|'or', sorted children) / ('not', x) / atom str.

    Comparisons are oriented so that `a >= b` and `b <= a` agree."""
    if isinstance(node, ast.BoolOp):
        tag = 'and' if isinstance(node.op, ast.And) else 'or'
        kids = []
        for v in node.values:
            k = bool_nf(v, canon)
            if isinstance(k, tuple) and k[0] == tag:
                kids.extend(k[1])
            else:
                kids.append(k)
        return (tag, tuple(sorted(kids, key=repr)))
    if isinstance(node, ast.UnaryOp) and isinstance(node.op, ast.Not):
        inner = bool_nf(node.operand, canon)
        if isinstance(inner, tuple) and inner[0] == 'not':
            return inner[1]
        return ('not', inner)
    if isinstance(node, ast.Compare) and len(node.ops) == 1:
        l, r = canon(node.left), canon(node.comparators[0])
        op = type(node.ops[0])
        sym = {ast.Lt: '<', ast.LtE: '<=', ast.Gt: '>', ast.GtE: '>=', ast.Eq: '==', ast.NotEq: '!=', ast.Is: 'is',
               ast.IsNot: 'is not', ast.In: 'in', ast.NotIn: 'not in'}[op]
        if sym in ('>', '>='):
            l, r = r, l
            sym = {'>': '<', '>=': '<='}[sym]
        if sym in ('==', '!=') and l > r:
            l, r = r, l
        return f'{l} {sym} {r}'
    return canon(node)


def nnf(node, canon=ast.unparse, neg=False):
    """negation normal form on top of bool_nf: negations pushed to the atoms (De Morgan), AC-sorted."""
    if isinstance(node, ast.BoolOp):
        is_and = isinstance(node.op, ast.And)
        tag = 'and' if (is_and != neg) else 'or'
        kids = []
        for v in node.values:
            k = nnf(v, canon, neg)
            if isinstance(k, tuple) and k[0] == tag:
                kids.extend(k[1])
            else:
                kids.append(k)
        return (tag, tuple(sorted(kids, key=repr)))
    if isinstance(node, ast.UnaryOp) and isinstance(node.op, ast.Not):
        return nnf(node.operand, canon, not neg)
    if neg:
        n2 = negate(node)
        if isinstance(n2, ast.UnaryOp) and isinstance(n2.op, ast.Not):
            return ('not', bool_nf(node, canon))
        return bool_nf(n2, canon)
    return bool_nf(node, canon)


def guards_nnf(guards):
    """conjunction of guard strings -> NNF"""
    if not guards:
        return ('and', ())
    src = ' and '.join(f'({g})' for g in guards)
    r = nnf(ast.parse(src, mode='eval').body)
    if not (isinstance(r, tuple) and r[0] == 'and'):
        r = ('and', (r,))
    return r
