"""Folding of the `setup` dict merges of convergence controllers along the MRO (E5).

`setup` returns `{**defaults, **super().setup(..)}`-style displays.  The fold linearises them into an ordered list of
segments: literal keys, the user-carrying part (`params` / the base class' return), and derived stores made after the
merge (`d['k'] = ...`).  Nothing is evaluated; values stay expressions.
"""

import ast

from .cfg import walk_no_nested
from .model import AnalysisError, ClassInfo


class Seg:
    def __init__(self, kind, key=None, value=None, origin=None):
        self.kind, self.key, self.value, self.origin = kind, key, value, origin  # kind: 'lit' | 'user' | 'derived'

    def __repr__(self):
        return f'{self.kind}:{self.key}={self.value}@{self.origin}' if self.kind != 'user' else f'user@{self.origin}'


def _is_super_setup(v):
    return isinstance(v, ast.Call) and isinstance(v.func, ast.Attribute) and v.func.attr == 'setup' and isinstance(v.func.value, ast.Call) and ast.unparse(v.func.value.func) == 'super'


def fold(repo, ci, _depth=0):
    """ordered segments of the dict returned by ci.setup (resolved through the MRO)"""
    if _depth > 8:
        raise AnalysisError(f'setup fold too deep at {ci.qname}')
    r = repo.resolve(ci, 'setup')
    if r is None:
        return [Seg('user', origin=ci.name)]
    owner, fn = r
    # next class in the MRO of `owner` that defines setup (target of super().setup)
    def parent_fold():
        for c in owner.mro[1:]:
            if isinstance(c, ClassInfo) and 'setup' in c.methods:
                return fold(repo, c, _depth + 1)
        return [Seg('user', origin='<external>')]

    rets = [s for s in walk_no_nested(fn) if isinstance(s, ast.Return) and s.value is not None]
    if len(rets) != 1:
        raise AnalysisError(f'{owner.qname}.setup: expected one return, found {len(rets)}')
    assigns = {}
    stores = []  # (dict var, key expr, value expr, lineno)
    for s in walk_no_nested(fn):
        if isinstance(s, ast.Assign) and len(s.targets) == 1:
            t = s.targets[0]
            if isinstance(t, ast.Name):
                assigns.setdefault(t.id, []).append(s)
            elif isinstance(t, ast.Subscript) and isinstance(t.value, ast.Name) and isinstance(t.slice, ast.Constant):
                stores.append((t.value.id, t.slice.value, s.value, s.lineno))
        elif isinstance(s, ast.AugAssign) and isinstance(s.target, ast.Subscript) and isinstance(s.target.value, ast.Name) and isinstance(s.target.slice, ast.Constant):
            stores.append((s.target.value.id, s.target.slice.value, s.value, s.lineno))

    def expand(v, seen=()):
        if isinstance(v, ast.Dict):
            out = []
            for k, val in zip(v.keys, v.values):
                if k is None:
                    out += expand(val, seen)
                elif isinstance(k, ast.Constant):
                    out.append(Seg('lit', k.value, ast.unparse(val), owner.name))
                else:
                    raise AnalysisError(f'{owner.qname}.setup: non-constant dict key {ast.unparse(k)}')
            return out
        if _is_super_setup(v):
            return parent_fold()
        if isinstance(v, ast.Name):
            if v.id == fn.args.args[2].arg if len(fn.args.args) > 2 else 'params':
                return [Seg('user', origin=owner.name)]
            if v.id in seen:
                raise AnalysisError(f'{owner.qname}.setup: cyclic dict definition {v.id}')
            defs = assigns.get(v.id, [])
            if len(defs) != 1:
                raise AnalysisError(f'{owner.qname}.setup: dict variable {v.id} has {len(defs)} definitions')
            out = expand(defs[0].value, seen + (v.id,))
            for name, key, val, ln in sorted(stores, key=lambda x: x[3]):
                if name == v.id:
                    out.append(Seg('derived', key, ast.unparse(val), owner.name))
            return out
        if isinstance(v, ast.Call) and ast.unparse(v).startswith('description.get('):
            return [Seg('user', origin=owner.name)]
        raise AnalysisError(f'{owner.qname}.setup: cannot fold {ast.unparse(v)[:60]}')

    return expand(rets[0].value)


def effective(segs, key):
    """(value expr | None, forced: bool, origin, kind) for a key: literals before the LAST user-carrying segment are
    defaults (the last one wins, the user overrides it); a literal / derived store after it overrides the user."""
    last_user = max([i for i, s in enumerate(segs) if s.kind == 'user'] or [-1])
    default, origin = None, None
    forced = None
    for i, s in enumerate(segs):
        if s.kind == 'user' or s.key != key:
            continue
        if i > last_user:
            forced = s
        else:
            default, origin = s.value, s.origin
    if forced is not None:
        return forced.value, True, forced.origin, forced.kind
    return default, False, origin, 'lit'
