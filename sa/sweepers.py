"""Shared machinery for the sweeper rules (C01, C02, C03): families, slots, role-renamed signatures."""

import ast
import re

from .model import AnalysisError, ClassInfo
from .norm import Normalizer, assigned_names
from .sig import Signature

SW = 'pySDC/implementations/sweeper_classes/'
DAE = 'pySDC/projects/DAE/sweepers/'

# (relpath, class) of every sweeper whose algebra is spec'd from the property's formula
QD_SERIAL = [
    (SW + 'generic_implicit.py', 'generic_implicit'),
    (SW + 'explicit.py', 'explicit'),
    (SW + 'imex_1st_order.py', 'imex_1st_order'),
    (SW + 'imex_1st_order_mass.py', 'imex_1st_order_mass'),
    (SW + 'multi_implicit.py', 'multi_implicit'),
]
QD_MPI = [
    (SW + 'generic_implicit_MPI.py', 'generic_implicit_MPI'),
    (SW + 'imex_1st_order_MPI.py', 'imex_1st_order_MPI'),
]
QD_DAE = [
    (DAE + 'fullyImplicitDAE.py', 'FullyImplicitDAE'),
    (DAE + 'semiImplicitDAE.py', 'SemiImplicitDAE'),
]
SECOND_ORDER = [
    (SW + 'verlet.py', 'verlet'),
    (SW + 'boris_2nd_order.py', 'boris_2nd_order'),
]
RK = [
    (SW + 'Runge_Kutta.py', 'RungeKutta'),
    (SW + 'Runge_Kutta.py', 'RungeKuttaIMEX'),
]
UNSPECD = [
    (SW + 'Runge_Kutta_Nystrom.py', 'RungeKuttaNystrom'),
    (SW + 'Multistep.py', 'MultiStep'),
    (SW + 'ParaDiagSweepers.py', 'QDiagonalization'),
    (SW + 'ParaDiagSweepers.py', 'QDiagonalizationIMEX'),
]

TRACKED = r'^(KNOWN|ACC|RET|v\d+|L\.u|L\.f|L\.uend|L\.tau|L\.residual|L\.status|self\.u_secondary)\b'


def sweeper_base(repo):
    return repo.cls('pySDC/core/sweeper.py', 'Sweeper')


def qd_slots(repo, ci):
    """{attr: 'implicit'|'explicit'} for attributes assigned from self.get_Qdelta_* in the (resolved) __init__ chain."""
    slots = {}
    for c in ci.mro:
        if not isinstance(c, ClassInfo) or '__init__' not in c.methods:
            continue
        for st in ast.walk(c.methods['__init__']):
            if isinstance(st, ast.Assign) and isinstance(st.value, ast.Call):
                f = ast.unparse(st.value.func)
                m = re.fullmatch(r'self\.get_Qdelta_(implicit|explicit)', f)
                if m:
                    for t in st.targets:
                        if isinstance(t, ast.Attribute) and ast.unparse(t.value) == 'self':
                            slots.setdefault(t.attr, m.group(1))
    return slots


def role_renames(fn):
    """local name -> role name.  `x = self.integrate(..)` -> KNOWN ; returned list -> ACC ; other locals -> v1, v2, ..."""
    N = Normalizer(fn)
    asg = assigned_names(fn)
    ren = {}
    for c in N.contribs:
        if c.op == '=' and re.fullmatch(r'[A-Za-z_]\w*', c.target) and c.rhs and re.match(r'self\.integrate\(', c.rhs):
            ren[c.target] = 'KNOWN'
    for st in ast.walk(fn):
        if isinstance(st, ast.Return) and isinstance(st.value, ast.Name) and st.value.id in asg and st.value.id not in ren:
            ren[st.value.id] = 'ACC'
    k = 0
    params = {a.arg for a in fn.args.args + fn.args.kwonlyargs}
    firsts = sorted((getattr(sts[0], "lineno", getattr(getattr(sts[0], "iter", None), "lineno", 0)), n) for n, sts in asg.items())
    for _, n in firsts:
        if n in ren or n in N.env.alias or n in params:
            continue
        sts = asg[n]
        if all(isinstance(s, (ast.For, ast.AsyncFor, ast.comprehension)) for s in sts):
            # loop variables of range loops are canonicalised by the normaliser; others keep a positional name
            if all(
                isinstance(s, ast.For) and isinstance(s.iter, ast.Call) and isinstance(s.iter.func, ast.Name) and s.iter.func.id == 'range'
                for s in sts
            ):
                continue
        k += 1
        ren[n] = f'v{k}'
    return ren


def method_sig(repo, ci, method):
    r = repo.resolve(ci, method)
    if r is None:
        raise AnalysisError(f'{ci.qname} has no method {method}')
    owner, fn = r
    sig = Signature(fn, rename=role_renames(fn))
    return owner, fn, sig


def where(owner, fn):
    return f'{owner.module.relpath}:{owner.name}.{fn.name}'


def return_exprs(fn, sig):
    out = []
    for st in ast.walk(fn):
        if isinstance(st, ast.Return) and st.value is not None:
            out.append(sig._rn(sig.N.canon(st.value)))
    return out
