"""AST-computed mutants of the functions a property's rules analyse (thorough tier).

Operators (each yields single-point mutants that still compile):
  sign      `x += e` <-> `x -= e`
  index     integer offsets in subscripts and range() bounds: c -> c+1, c-1  (and bare name i -> i+1 / i-1 in subscripts)
  swap      sibling attribute names exchanged (QI<->QE, impl<->expl, comp1<->comp2, u<->uold, f<->fold, first<->last, ...)
  delete    a tracked assignment / augmented assignment / expression-statement call is removed (replaced by `pass`)
  compare   <,<=,>,>= moved to the neighbouring operator; == <-> != ; `and` <-> `or` ; `not` dropped
  const     True <-> False, string constants of a dispatch renamed
The mutated module is written with ast.unparse (comments are lost, which the checkers do not read).
"""

import ast
import copy
import random

SWAPS = [('QI', 'QE'), ('Q1', 'Q2'), ('impl', 'expl'), ('comp1', 'comp2'), ('uold', 'u'), ('fold', 'f'), ('first', 'last'), ('prev', 'next'),
         ('dt_min', 'dt_max'), ('dt_slope_min', 'dt_slope_max'), ('Rcoll', 'Pcoll'), ('fine', 'coarse'), ('pos', 'vel'), ('restart', 'done'),
         ('prev_done', 'done'), ('Qmat', 'QI'), ('weights', 'nodes'), ('tauF', 'tauG'), ('pre_sweep', 'post_sweep'), ('pre_step', 'post_step'),
         ('pre_iteration', 'post_iteration'), ('send_full', 'recv_full'), ('time', 'dt'), ('slot', 'iter')]
CMP = {ast.Lt: ast.LtE, ast.LtE: ast.Lt, ast.Gt: ast.GtE, ast.GtE: ast.Gt, ast.Eq: ast.NotEq, ast.NotEq: ast.Eq, ast.Is: ast.IsNot, ast.IsNot: ast.Is, ast.In: ast.NotIn, ast.NotIn: ast.In}


def _functions(tree, names):
    """FunctionDef nodes addressed as 'Class.func' or 'func' (nested helper defs included under their owner)."""
    out = []
    for node in tree.body:
        if isinstance(node, ast.ClassDef):
            for f in node.body:
                if isinstance(f, (ast.FunctionDef, ast.AsyncFunctionDef)) and f'{node.name}.{f.name}' in names:
                    out.append((f'{node.name}.{f.name}', f))
        elif isinstance(node, (ast.FunctionDef, ast.AsyncFunctionDef)) and node.name in names:
            out.append((node.name, node))
    return out


def _points(fn):
    """enumerate mutation points as (operator, description, apply(node_copy_root) ) using positional paths"""
    pts = []
    nodes = list(ast.walk(fn))
    # subscripts that are type annotations (Optional[int], Dict[str, Any]) are not mutation points
    annot = set()
    for n in nodes:
        for a in ([n.annotation] if isinstance(n, (ast.arg, ast.AnnAssign)) and getattr(n, 'annotation', None) is not None else []) + ([n.returns] if isinstance(n, ast.FunctionDef) and n.returns is not None else []):
            annot |= {id(x) for x in ast.walk(a)}
    for i, n in enumerate(nodes):
        if id(n) in annot:
            continue
        if isinstance(n, ast.AugAssign) and isinstance(n.op, (ast.Add, ast.Sub)):
            pts.append(('sign', i, None))
        if isinstance(n, ast.Subscript):
            elts = n.slice.elts if isinstance(n.slice, ast.Tuple) else [n.slice]
            for k, e in enumerate(elts):
                if isinstance(e, ast.Slice) or (isinstance(e, ast.Constant) and not isinstance(e.value, int)):
                    continue
                pts.append(('index', i, (k, +1)))
                pts.append(('index', i, (k, -1)))
        if isinstance(n, ast.Call) and isinstance(n.func, ast.Name) and n.func.id == 'range' and n.args:
            for k in range(min(len(n.args), 2)):
                pts.append(('range', i, (k, +1)))
                pts.append(('range', i, (k, -1)))
        if isinstance(n, ast.Attribute):
            for a, b in SWAPS:
                if n.attr == a:
                    pts.append(('swap', i, b))
                elif n.attr == b:
                    pts.append(('swap', i, a))
        if isinstance(n, ast.Name):
            for a, b in SWAPS:
                if n.id == a and len(a) > 2:
                    pts.append(('swapname', i, b))
                elif n.id == b and len(b) > 2:
                    pts.append(('swapname', i, a))
        if isinstance(n, (ast.AugAssign, ast.Assign)) or (isinstance(n, ast.Expr) and isinstance(n.value, ast.Call)):
            if not (isinstance(n, ast.Expr) and isinstance(n.value.func, ast.Attribute) and n.value.func.attr in ('debug', 'info', 'warning', 'error', 'log')):
                pts.append(('delete', i, None))
        if isinstance(n, ast.Compare) and len(n.ops) == 1 and type(n.ops[0]) in CMP:
            pts.append(('compare', i, None))
        if isinstance(n, ast.BoolOp):
            pts.append(('boolop', i, None))
        if isinstance(n, ast.UnaryOp) and isinstance(n.op, ast.Not):
            pts.append(('dropnot', i, None))
        if isinstance(n, ast.Constant) and isinstance(n.value, bool):
            pts.append(('const', i, None))
        if isinstance(n, ast.BinOp) and isinstance(n.op, (ast.Add, ast.Sub)) and not isinstance(getattr(n, 'left', None), ast.Constant):
            pts.append(('binsign', i, None))
        # value-semantics operators: drop a copy / allocate nothing and alias a parameter instead
        if isinstance(n, ast.Call) and isinstance(n.func, ast.Attribute) and n.func.attr in ('dtype_u', 'dtype_f', 'copy', 'array', 'asarray') and (len(n.args) == 1 and not ast.unparse(n.args[0]).endswith('init') and not n.keywords or (n.func.attr == 'copy' and not n.args)):
            pts.append(('uncopy', i, None))
        if isinstance(n, ast.Assign) and len(n.targets) == 1 and isinstance(n.targets[0], ast.Name) and isinstance(n.value, (ast.Call, ast.Attribute)):
            v = ast.unparse(n.value)
            if any(k in v for k in ('dtype_u(', 'dtype_f(', 'u_init', 'f_init', 'zeros', 'empty')):
                for a in fn.args.args[1:4]:
                    if a.arg not in ('t', 'factor', 'dt', 'self', 'stage', 'level_number'):
                        pts.append(('aliasparam', i, a.arg))
    return pts


def _bump(e, d):
    if isinstance(e, ast.Constant) and isinstance(e.value, int) and not isinstance(e.value, bool):
        return ast.Constant(e.value + d)
    if isinstance(e, ast.UnaryOp) and isinstance(e.op, ast.USub) and isinstance(e.operand, ast.Constant):
        return ast.Constant(-e.operand.value + d)
    if isinstance(e, ast.BinOp) and isinstance(e.op, (ast.Add, ast.Sub)) and isinstance(e.right, ast.Constant) and isinstance(e.right.value, int):
        c = e.right.value if isinstance(e.op, ast.Add) else -e.right.value
        c += d
        if c == 0:
            return e.left
        return ast.BinOp(e.left, ast.Add() if c > 0 else ast.Sub(), ast.Constant(abs(c)))
    return ast.BinOp(e, ast.Add() if d > 0 else ast.Sub(), ast.Constant(abs(d)))


def _apply(fn_copy, op, idx, arg):
    nodes = list(ast.walk(fn_copy))
    n = nodes[idx]
    if op == 'sign':
        n.op = ast.Sub() if isinstance(n.op, ast.Add) else ast.Add()
    elif op == 'index':
        k, d = arg
        if isinstance(n.slice, ast.Tuple):
            n.slice.elts[k] = _bump(n.slice.elts[k], d)
        else:
            n.slice = _bump(n.slice, d)
    elif op == 'range':
        k, d = arg
        n.args[k] = _bump(n.args[k], d)
    elif op == 'swap':
        n.attr = arg
    elif op == 'swapname':
        n.id = arg
    elif op == 'delete':
        # replace the statement by `pass` in its parent body
        for p in ast.walk(fn_copy):
            for fld in ('body', 'orelse', 'finalbody'):
                b = getattr(p, fld, None)
                if isinstance(b, list) and n in b:
                    b[b.index(n)] = ast.Pass()
                    return True
        return False
    elif op == 'compare':
        n.ops = [CMP[type(n.ops[0])]()]
    elif op == 'boolop':
        n.op = ast.Or() if isinstance(n.op, ast.And) else ast.And()
    elif op == 'dropnot':
        for p in ast.walk(fn_copy):
            for fld, val in ast.iter_fields(p):
                if val is n:
                    setattr(p, fld, n.operand)
                    return True
                if isinstance(val, list) and n in val:
                    val[val.index(n)] = n.operand
                    return True
        return False
    elif op == 'const':
        n.value = not n.value
    elif op == 'binsign':
        n.op = ast.Sub() if isinstance(n.op, ast.Add) else ast.Add()
    elif op == 'uncopy':
        repl = n.args[0] if n.args else n.func.value
        for p in ast.walk(fn_copy):
            for fld, val in ast.iter_fields(p):
                if val is n:
                    setattr(p, fld, repl)
                    return True
                if isinstance(val, list) and n in val:
                    val[val.index(n)] = repl
                    return True
        return False
    elif op == 'aliasparam':
        n.value = ast.Name(arg, ast.Load())
    return True


def plan(source, func_names):
    """all mutation points of the named functions: list of (func name, operator, node index, argument)"""
    tree = ast.parse(source)
    out = []
    for name, fn in _functions(tree, set(func_names)):
        for op, idx, arg in _points(fn):
            out.append((name, op, idx, arg))
    return out


def realise(source, item):
    """apply one planned mutation -> (description, mutated module source) or None if it does not compile / is a no-op"""
    name, op, idx, arg = item
    tree = ast.parse(source)
    fn2 = dict(_functions(tree, {name}))[name]
    before = ast.unparse(list(ast.walk(fn2))[idx])
    orig = ast.unparse(tree)
    try:
        if not _apply(fn2, op, idx, arg):
            return None
        ast.fix_missing_locations(tree)
        src = ast.unparse(tree)
        compile(src, '<mutant>', 'exec')
    except Exception:
        return None
    if src == orig:
        return None
    return f'{op} at `{before[:70]}`' + (f' -> {arg}' if arg is not None else ''), src
