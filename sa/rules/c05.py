"""C05 - collocation data: ONLY the structural clauses (what is requested from the generator, zero padding, end-point flag
tables, S taken as the generator's row differences, deltas, automatic collocation update).  Exactness of nodes, weights and
matrices is a property of coefficients produced by the external qmat package at run time: NOT decided."""

import ast

from ..cfg import walk_no_nested
from ..inline import facts
from ..model import AnalysisError
from ..norm import Normalizer, bool_nf
from ..runner import rule

CO = 'pySDC/core/collocation.py'
SWP = 'pySDC/core/sweeper.py'


def _init_facts(repo):
    return facts(repo.func(CO, 'CollBase.__init__'))


@rule('C05', 'C05.R1', 'CollBase requests the coefficients for THIS interval, node family, quadrature type and node count; invalid counts / intervals raise', floor=4)
def r1(ctx, R):
    repo = ctx.repo
    w = f'{CO}:CollBase.__init__'
    R.fn(w)
    fs = _init_facts(repo)
    gen = [f for f in fs if f[0] == 'store' and f[1] == 'self.generator']
    want = "Q_GENERATORS['Collocation'](nNodes=num_nodes, nodeType=node_type, quadType=quad_type, tLeft=tleft, tRight=tright)"
    R.check(len(gen) == 1 and gen[0][2] == want, 'CollBase.__init__ :: generator built for (num_nodes, node_type, quad_type, tleft, tright) - the interval is passed on, nothing is rescaled afterwards', w, want, [g[2] for g in gen])
    fn = repo.func(CO, 'CollBase.__init__')
    raises = {}
    for s in walk_no_nested(fn):
        if isinstance(s, ast.If) and any(isinstance(x, ast.Raise) and 'CollocationError' in ast.unparse(x) for x in s.body):
            raises[ast.unparse(s.test)] = True
    R.check('not num_nodes > 0' in raises and 'not tleft < tright' in raises, 'CollBase.__init__ :: num_nodes <= 0 and tleft >= tright raise CollocationError before anything is built', w, ['not num_nodes > 0', 'not tleft < tright'], sorted(raises))
    # the sweeper hands EVERY parameter it was configured with to the collocation class (node family, quadrature type, interval ..)
    sfn = repo.func(SWP, 'Sweeper.__init__')
    R.fn(f'{SWP}:Sweeper.__init__')
    mk = [ast.unparse(s.value) for s in walk_no_nested(sfn) if isinstance(s, (ast.Assign, ast.AnnAssign)) and ast.unparse(s.targets[0] if isinstance(s, ast.Assign) else s.target) == 'self.coll' and s.value is not None]
    R.check(mk == ["params['collocation_class'](**params)"], 'Sweeper.__init__ :: the collocation object is built from the complete sweeper parameters (no key is filtered out on the way)', f'{SWP}:Sweeper.__init__', "self.coll = params['collocation_class'](**params)", mk)
    kept = {f[1]: f[2] for f in fs if f[0] == 'store' and f[1] in ('self.num_nodes', 'self.tleft', 'self.tright', 'self.node_type', 'self.quad_type', 'self.order')}
    want = {'self.num_nodes': 'num_nodes', 'self.tleft': 'tleft', 'self.tright': 'tright', 'self.node_type': 'node_type', 'self.quad_type': 'quad_type', 'self.order': 'self.generator.order'}
    R.check(kept == want, 'CollBase.__init__ :: reported attributes are the requested ones; the order is the generator\'s', w, want, kept)


@rule('C05', 'C05.R2', 'end-point flags follow the quadrature type; a sweeper whose right end point is no node switches to the collocation update', floor=3)
def r2(ctx, R):
    repo = ctx.repo
    w = f'{CO}:CollBase.__init__'
    R.fn(w)
    fn = repo.func(CO, 'CollBase.__init__')
    for attr, want in (('left_is_node', {'LOBATTO', 'RADAU-LEFT'}), ('right_is_node', {'LOBATTO', 'RADAU-RIGHT'})):
        got = None
        for s in walk_no_nested(fn):
            if isinstance(s, ast.Assign) and ast.unparse(s.targets[0]) == f'self.{attr}':
                v = s.value
                if isinstance(v, ast.Compare) and isinstance(v.ops[0], ast.In) and ast.unparse(v.left) in ('self.quad_type', 'quad_type') and isinstance(v.comparators[0], (ast.List, ast.Tuple, ast.Set)):
                    got = {e.value for e in v.comparators[0].elts if isinstance(e, ast.Constant)}
        R.check(got == want, f'CollBase.__init__ :: {attr} <=> quad_type in {sorted(want)}', w, sorted(want), sorted(got) if got is not None else 'no membership test found')
    fn = repo.func(SWP, 'Sweeper.__init__')
    w = f'{SWP}:Sweeper.__init__'
    R.fn(w)
    N = Normalizer(fn)
    sets = [c for c in N.contribs if c.target == 'self.params.do_coll_update' and c.rhs == 'True']
    ok = False
    if len(sets) == 1 and len(sets[0].guards) == 1:
        # exactly this condition and no enclosing one: the switch must be taken on EVERY (re-)initialisation
        nf = bool_nf(ast.parse(sets[0].guards[-1], mode='eval').body)
        ok = nf == ('and', tuple(sorted([('not', 'self.coll.right_is_node'), ('not', 'self.params.do_coll_update')], key=repr)))
    R.check(ok, 'Sweeper.__init__ :: do_coll_update forced when the right end point is not a node', w, 'self.params.do_coll_update = True if not right_is_node and not do_coll_update', [c.describe() for c in sets])


@rule('C05', 'C05.R3', 'Q and S are (M+1)x(M+1) with a zero first row and column; the blocks are the generator\'s Q and its row-difference S; nodes and weights are private copies', floor=4)
def r3(ctx, R):
    repo = ctx.repo
    w = f'{CO}:CollBase.__init__'
    R.fn(w)
    fs = [f[:-1] for f in _init_facts(repo)]
    for attr, src in (('self.Qmat', 'self.generator.Q'), ('self.Smat', 'super(self.generator.__class__, self.generator).S')):
        st = [f for f in fs if f[0] == 'store' and f[1] == attr]
        var = st[0][2] if len(st) == 1 else None
        if var is None:
            raise AnalysisError(f'{w}: single definition of {attr} not found')
        z = [f for f in fs if f[0] == 'assign' and f[1] == var]
        blk = [f for f in fs if f[0] == 'store' and f[1].startswith(var + '[')]
        ok = len(z) == 1 and z[0][2] == 'np.zeros([num_nodes + 1, num_nodes + 1], dtype=float)' and blk == [('store', f'{var}[1:, 1:]', src)]
        R.check(ok, f'CollBase.__init__ :: {attr} = zeros(M+1, M+1) with {src} in [1:, 1:] and nothing else stored', w, f'zeros([M+1, M+1]); [1:, 1:] = {src}', {'zeros': [x[2] for x in z], 'stores': blk})
    cp = {f[1]: f[2] for f in fs if f[0] == 'store' and f[1] in ('self.nodes', 'self.weights')}
    R.check(cp == {'self.nodes': 'self.generator.nodes.copy()', 'self.weights': 'self.generator.weights.copy()'}, 'CollBase.__init__ :: nodes and weights are copies of the generator\'s arrays (editing them cannot corrupt the generator that Qdelta builders reuse)', w, 'generator.nodes.copy(), generator.weights.copy()', cp)
    # nobody writes into Qmat/Smat/nodes/weights of a collocation object afterwards
    writers = []
    for m in repo.modules.values():
        if not repo.is_library(m):
            continue
        for s in ast.walk(m.tree):
            tg = s.targets if isinstance(s, ast.Assign) else [s.target] if isinstance(s, ast.AugAssign) else []
            for t in tg:
                u = ast.unparse(t)
                base = u.split('[')[0]
                if isinstance(t, ast.Subscript) and any(base.endswith(f'coll.{a}') for a in ('Qmat', 'Smat', 'nodes', 'weights', 'delta_m')):
                    writers.append(f'{m.relpath}:{s.lineno} {u}')
    R.check(not writers, 'library :: no in-place store into coll.Qmat / Smat / nodes / weights / delta_m after construction', 'pySDC (library modules)', 'no such store', writers)


@rule('C05', 'C05.R4', 'node distances: delta[0] = nodes[0] - tleft, delta[m] = nodes[m] - nodes[m-1]', floor=1)
def r4(ctx, R):
    repo = ctx.repo
    w = f'{CO}:CollBase._gen_deltas'
    R.fn(w)
    fn = repo.func(CO, 'CollBase._gen_deltas')
    N = Normalizer(fn)
    got = sorted(c.describe() for c in N.contribs if c.target.startswith('delta['))
    want = sorted(['delta[0] = +self.nodes[0] -self.tleft', 'delta[m] = +self.nodes[m] -self.nodes[m - 1] for m in np.arange(1, self.num_nodes)'])
    R.check(got == want, '_gen_deltas :: first distance from tleft, the others between consecutive nodes, for all nodes', w, want, got)


@rule('C05', 'C05.R5', 'preconditioner matrices are built for the SAME interval as Q: the QDelta generator gets the collocation generator and the left end of its interval (node distances are measured from tleft, not from 0)', floor=1)
def r5(ctx, R):
    repo = ctx.repo
    rel = 'pySDC/core/sweeper.py'
    fn = repo.func(rel, 'Sweeper.buildGenerator')
    w = f'{rel}:Sweeper.buildGenerator'
    R.fn(w)
    calls = [s.value for s in ast.walk(fn) if isinstance(s, ast.Return) and isinstance(s.value, ast.Call)]
    kw = [{k.arg: ast.unparse(k.value) for k in c.keywords} for c in calls]
    ok = len(calls) == 1 and kw[0].get('qGen') == 'self.coll.generator' and kw[0].get('tLeft') == 'self.coll.tleft'
    R.check(ok, 'Sweeper.buildGenerator :: generator(qGen=self.coll.generator, tLeft=self.coll.tleft)', w, 'both the nodes (through the collocation generator) and the left end of the interval are handed over', kw)


@rule('C05', 'C05.R6', 'matrices the second-order sweepers derive from the collocation object (QT, Qx, QQ, qQ and the Lobatto IIIA/IIIB special case) are defined as the formulas say (shared with C02.R9)', floor=4)
def r6(ctx, R):
    from . import c02
    c02.r9(ctx, R)


@rule('C05', 'C05.R7', 'the collocation object follows ALL its parameters: where the sweeper / collocation code keeps something from an earlier initialisation, the key it compares covers every parameter the kept object was built from (a key without node_type keeps the old nodes when only the node family changes)', floor=2)
def r7(ctx, R):
    from .. import memo
    memo.check(ctx, R, lambda m: m.relpath in ('pySDC/core/sweeper.py', 'pySDC/core/collocation.py'), 'core/sweeper.py + core/collocation.py')
