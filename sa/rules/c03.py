"""C03 - the reported residual is the true collocation defect; stopping is sound (structural clauses)."""

import ast
import re

from ..cfg import FuncCFG, walk_no_nested
from ..model import AnalysisError, ClassInfo
from ..norm import Normalizer, bool_nf, nnf, guards_nnf
from ..runner import rule
from .. import facts
from .. import sweepers as sw
from ..sig import Signature

CTRL = 'pySDC/implementations/controller_classes/'
NONMPI = CTRL + 'controller_nonMPI.py'
MPI = CTRL + 'controller_MPI.py'
PARADIAG = CTRL + 'controller_ParaDiag_nonMPI.py'
CC = 'pySDC/implementations/convergence_controller_classes/'

RES_TYPES = ['full_abs', 'last_abs', 'full_rel', 'last_rel']


def _dispatch_on_residual_type(fn):
    chains = [c for c in facts.dispatch_chains(fn) if c['subject'].endswith('params.residual_type')]
    return chains


@rule('C03', 'C03.R1', 'Sweeper.compute_residual: residual[m] = integrate()[m] + u[0] - u[m+1] (+tau[m]); norm dispatch on residual_type; skip only on request', floor=8)
def r1(ctx, R):
    repo = ctx.repo
    rel = 'pySDC/core/sweeper.py'
    fn = repo.func(rel, 'Sweeper.compute_residual')
    w = f'{rel}:Sweeper.compute_residual'
    R.fn(w)
    sig = Signature(fn, rename=sw.role_renames(fn))
    N = sig.N
    lines = {l.text() for l in sig.lines}
    want = [
        'L.residual = self.integrate() |  | stage not in self.params.skip_residual_computation',
        'L.residual[i1 - 1] += +L.u[0] -L.u[i1] | i1=1..M | stage not in self.params.skip_residual_computation',
        'L.residual[i1 - 1] += +L.tau[i1 - 1] | i1=1..M | stage not in self.params.skip_residual_computation and L.tau[i1 - 1] is not None',
    ]
    for t in want:
        R.check(t in lines, f'Sweeper.compute_residual :: {t.split(" | ")[0]}', w, t, sorted(l for l in lines if l.startswith('L.residual')))
    extra = [l for l in lines if l.startswith('L.residual') and l not in want]
    R.check(not extra, 'Sweeper.compute_residual :: no other contribution to the defect', w, 'only integrate + u0 - u (+tau)', extra)
    # the norm list is abs() of that defect, node by node
    norm = [c for c in N.contribs if c.rhs == 'abs(L.residual[i1 - 1])']
    R.check(len(norm) == 1 and re.fullmatch(r'\w+\[i1 - 1\]', norm[0].target) is not None, 'Sweeper.compute_residual :: res_norm[m] = abs(residual[m])', w, 'one abs() per node appended to the norm list', [c.describe() for c in norm])
    nl = norm[0].target.split('[')[0] if norm else 'res_norm'
    arms = {c.guards[-1] if c.guards else '': c.rhs for c in N.contribs if c.target == 'L.status.residual' and 'skip_residual_computation' not in (c.guards[-1] if c.guards else '') or (c.target == 'L.status.residual' and len(c.guards) > 1)}
    want_arms = {'full_abs': f'max({nl})', 'last_abs': f'{nl}[-1]', 'full_rel': f'max({nl}) / abs(L.u[0])', 'last_rel': f'{nl}[-1] / abs(L.u[0])'}
    got = {}
    for c in N.contribs:
        if c.target == 'L.status.residual':
            for k in RES_TYPES:
                if c.guards and c.guards[-1] == f"L.params.residual_type == '{k}'":
                    got[k] = c.rhs
    R.check(got == want_arms, 'Sweeper.compute_residual :: status.residual per residual_type', w, want_arms, got)
    ch = _dispatch_on_residual_type(fn)
    R.check(len(ch) == 1 and sorted(ch[0]['names']) == sorted(RES_TYPES) and ch[0]['else_kind'] == 'raise', 'Sweeper.compute_residual :: dispatch is exhaustive and ends in raise', w, 'four names + raising else', [(c['names'], c['else_kind']) for c in ch])
    # skip branch only when the stage was listed by the user
    skip = [c for c in N.contribs if c.target == 'L.status.residual' and c.guards == ['stage in self.params.skip_residual_computation']]
    R.check(len(skip) == 1, 'Sweeper.compute_residual :: residual kept/zeroed without computation only if stage in skip_residual_computation', w, 'one guarded early return', [c.describe() for c in skip])


@rule('C03', 'C03.R2', 'every compute_residual implementation that reduces a norm list honours the configured residual_type (4 names, raising else)', floor=6)
def r2(ctx, R):
    repo = ctx.repo
    base = sw.sweeper_base(repo)
    impls = []
    for ci in repo.overriders(base, 'compute_residual'):
        if repo.is_library(ci):
            impls.append((ci.module, ci, ci.methods['compute_residual']))
    gm = repo.module('pySDC/implementations/problem_classes/generic_spectral.py')
    for name in ('compute_residual_DAE', 'compute_residual_DAE_MPI'):
        if name not in gm.functions:
            raise AnalysisError(f'generic_spectral.{name} vanished')
        impls.append((gm, None, gm.functions[name]))
    for m, ci, fn in impls:
        name = (ci.name + '.' if ci else '') + fn.name
        w = f'{m.relpath}:{name}'
        R.fn(w)
        N = Normalizer(fn)
        writes = [c for c in N.contribs if re.fullmatch(r'(L|lvl)\.status\.residual', c.target) and not any('skip_residual_computation' in g and 'not in' not in g for g in c.guards)]
        if not writes:
            R.ok(f'{name} :: delegates (no own reduction)', w, found='super()' if any(c[0].startswith('super().compute_residual') for c in N.calls) else 'none')
            continue
        if all(c.rhs in ('0.0', '0') for c in writes):
            R.exc(f'{name} :: residual identically zero', w, 'direct method (multistep): there is no iteration defect, the residual is defined as 0')
            continue
        ch = _dispatch_on_residual_type(fn)
        ok = len(ch) == 1 and sorted(ch[0]['names']) == sorted(RES_TYPES) and ch[0]['else_kind'] == 'raise'
        # each arm: full -> max/allreduce(MAX) ; last -> [-1]/bcast(root=last) ; rel -> divided by abs(u[0])
        arms = {}
        for c in writes:
            for k in RES_TYPES:
                if c.guards and c.guards[-1] == f"L.params.residual_type == '{k}'":
                    arms[k] = c.rhs
        def arm_ok(k, rhs):
            if rhs is None:
                return False
            full = ('max(' in rhs or 'op=MPI.MAX' in rhs)
            last = ('[-1]' in rhs or 'root=self.comm.size - 1' in rhs)
            rel = '/ abs(L.u[0])' in rhs
            return (full if k.startswith('full') else last and not full) and (rel == k.endswith('rel'))
        ok = ok and all(arm_ok(k, arms.get(k)) for k in RES_TYPES)
        R.check(ok, f'{name} :: dispatch on residual_type', w, 'full_abs->max, last_abs->last, full_rel->max/|u0|, last_rel->last/|u0|, else raise', {'chains': [(c['names'], c['else_kind']) for c in ch], 'arms': arms, 'writes': [c.rhs for c in writes]})


def _first_loop_calls(cfg, fn, names):
    """for each name the CFG nodes that call <something>.<name>(...)"""
    out = {}
    for n in cfg.stmt_of:
        for c in cfg.calls_at(n):
            f = c.func
            nm = f.attr if isinstance(f, ast.Attribute) else (f.id if isinstance(f, ast.Name) else None)
            if nm in names:
                out.setdefault(nm, []).append((n, c))
    return out


@rule('C03', 'C03.R3', 'IT_CHECK: send -> receive -> residual on level 0, all before the convergence decision; no write to level data in between', floor=6)
def r3(ctx, R):
    repo = ctx.repo
    for rel, cn in ((NONMPI, 'controller_nonMPI'), (MPI, 'controller_MPI')):
        fn = repo.func(rel, f'{cn}.it_check')
        w = f'{rel}:{cn}.it_check'
        R.fn(w)
        cfg = FuncCFG(fn)
        calls = _first_loop_calls(cfg, fn, {'send_full', 'recv_full', 'compute_residual', 'convergence_control', 'post_iteration_processing'})
        def lvl0(c):
            kw = {k.arg: ast.unparse(k.value) for k in c.keywords}
            return kw.get('level') == '0'
        snd = [n for n, c in calls.get('send_full', []) if lvl0(c)]
        rcv = [n for n, c in calls.get('recv_full', []) if lvl0(c)]
        res = [(n, c) for n, c in calls.get('compute_residual', []) if ast.unparse(c.func).endswith('levels[0].sweep.compute_residual')]
        dec = [n for n, c in calls.get('convergence_control', [])]
        if not (snd and rcv and res and dec):
            raise AnalysisError(f'{w}: send_full/recv_full/compute_residual/convergence_control call sites not all found')
        ok1 = len(snd) == 1 and len(rcv) == 1 and len(res) == 1 and cfg.dominates(snd[0], rcv[0]) and cfg.dominates(rcv[0], res[0][0])
        # the receive is followed by the residual on every normal path of the same iteration (MPI: an interrupt may return early)
        same_block = cfg.loops_of[id(cfg.stmt_of[rcv[0]])] == cfg.loops_of[id(cfg.stmt_of[res[0][0]])]
        R.check(ok1 and same_block, f'{cn}.it_check :: send_full(0) -> recv_full(0) -> compute_residual() in this order', w, 'dominance chain within one block', {'send': len(snd), 'recv': len(rcv), 'residual': len(res)})
        st = {k.arg: ast.unparse(k.value) for k in res[0][1].keywords}.get('stage')
        R.check(st == "'IT_CHECK'", f'{cn}.it_check :: residual computed with stage=IT_CHECK', w, "'IT_CHECK'", st)
        # decision strictly after: for the serial controller the residual loop must be completed for ALL steps first
        res_loops = cfg.loops_of[id(cfg.stmt_of[res[0][0]])]
        okd = True
        detail = []
        for d in dec:
            dl = cfg.loops_of[id(cfg.stmt_of[d])]
            if res_loops:
                # residual in a loop over steps: the decision must live in a later loop (header of the residual loop dominates, loops differ)
                first = cfg.node_of[id(res_loops[0])]
                later = dl and dl[0] is not res_loops[0] and cfg.dominates(first, cfg.node_of[id(dl[0])]) and not cfg.reachable(cfg.node_of[id(dl[0])], first)
                okd &= bool(later)
                detail.append('decision loop follows the residual loop' if later else 'decision not in a later loop')
            else:
                okd &= cfg.dominates(res[0][0], d)
                detail.append('residual dominates the decision' if cfg.dominates(res[0][0], d) else 'residual does not dominate the decision')
        R.check(okd, f'{cn}.it_check :: the convergence decision comes after the residual of every running step', w, 'residual (loop) precedes convergence_control on all paths', detail)
        # no store into level data by the controller itself in it_check
        stores = []
        for x in walk_no_nested(fn):
            tg = []
            if isinstance(x, ast.Assign):
                tg = x.targets
            elif isinstance(x, ast.AugAssign):
                tg = [x.target]
            for t in tg:
                s = ast.unparse(t)
                if re.search(r'levels\[[^\]]*\]\.(u|f|tau|uend|residual)\b', s):
                    stores.append(s)
        R.check(not stores, f'{cn}.it_check :: the handler itself stores nothing into level data', w, 'no store to levels[..].u/f/tau/uend', stores)
    # ParaDiag: exception with reason
    R.exc('controller_ParaDiag_nonMPI.it_check :: residual is one iterate old by documented design', f'{PARADIAG}:controller_ParaDiag_nonMPI.it_check', 'outside the anchors of C03; ParaDiag computes the residual of the previous iterate in its own stage')


@rule('C03', 'C03.R4', 'convergence predicate: (iter >= maxiter or (residual <= restol and (iter > 0 or sweep > 0)) or e_tol branch or force_done) and not force_continue', floor=5)
def r4(ctx, R):
    repo = ctx.repo
    rel = CC + 'check_convergence.py'
    fn = repo.func(rel, 'CheckConvergence.check_convergence')
    w = f'{rel}:CheckConvergence.check_convergence'
    R.fn(w)
    N = Normalizer(fn, inline_scalars=False)
    defs = {}
    for c in N.contribs:
        if c.op == '=' and re.fullmatch(r'\w+', c.target) and isinstance(c.stmt, ast.Assign) and c.target not in defs:
            defs[c.target] = c.stmt.value  # first definition; a later `x = False` fallback under `if x is None` is ignored
    ret = [s for s in ast.walk(fn) if isinstance(s, ast.Return) and s.value is not None]
    if len(ret) != 1 or not isinstance(ret[0].value, ast.Name) or ret[0].value.id not in defs:
        raise AnalysisError(f'{w}: single `return <name>` not found')
    conv = ret[0].value.id
    # every LATER assignment of the returned name may only replace a missing value (None) by False
    later = [c for c in N.contribs if c.target == conv and c.op == '=' and c.stmt.value is not defs[conv]]
    bad_later = [c.describe() for c in later if not (c.rhs == 'False' and c.guards and c.guards[-1] == f'{conv} is None')]
    R.check(not bad_later, 'check_convergence :: the decision is not overwritten afterwards (only `None -> False`)', w, f'{conv} = False if {conv} is None', bad_later)

    def canon(n):
        return ast.unparse(N.cexpr(n)).replace('S.levels[0]', 'L')

    def expand(node):
        # inline the boolean locals once
        class T(ast.NodeTransformer):
            def visit_Name(self, n):
                if n.id in defs and n.id != conv and isinstance(n.ctx, ast.Load) and n.id not in ('S', 'L', 'self'):
                    return defs[n.id]
                return n
        import copy
        return T().visit(copy.deepcopy(node))

    top = nnf(expand(defs[conv]), canon)
    it = 'S.params.maxiter <= S.status.iter'
    res = ('and', tuple(sorted(['L.status.residual <= L.params.restol', ('or', tuple(sorted(['0 < S.status.iter', '0 < L.status.sweep'], key=repr)))], key=repr)))
    R.check(isinstance(top, tuple) and top[0] == 'and' and ('not', 'S.status.force_continue') in top[1], 'check_convergence :: conjoined with not force_continue', w, '... and not S.status.force_continue', top)
    disj = [k for k in top[1] if isinstance(k, tuple) and k[0] == 'or'] if isinstance(top, tuple) else []
    alts = disj[0][1] if disj else ()
    R.check(it in alts, 'check_convergence :: budget exhausted is iter >= maxiter', w, it, [a for a in alts if isinstance(a, str)])
    R.check(res in alts, 'check_convergence :: residual <= restol counts only after at least one sweep', w, res, [a for a in alts if isinstance(a, tuple)])
    R.check('S.status.force_done' in alts, 'check_convergence :: force_done stops', w, 'S.status.force_done', [a for a in alts if isinstance(a, str)])
    known = {it, res, 'S.status.force_done'}
    rest = [a for a in alts if a not in known]
    ok = len(rest) == 1 and 'e_tol' in repr(rest[0]) and 'increment' in repr(rest[0])
    R.check(ok, 'check_convergence :: the only further disjunct is the e_tol/increment branch', w, 'L.status.increment < L.params.e_tol if both are set else False', rest)


@rule('C03', 'C03.R5', 'who may write status.iter / status.done / force_continue; increment guarded by not done and followed by pre_iteration', floor=20)
def r5(ctx, R):
    repo = ctx.repo
    W = ctx.memo('attr_writes', lambda: facts.attr_writes(repo))
    allowed_iter = {
        (NONMPI, 'controller_nonMPI.restart_block', '='), (NONMPI, 'controller_nonMPI.it_check', 'Add='),
        (MPI, 'controller_MPI.restart_block', '='), (MPI, 'controller_MPI.it_check', 'Add='),
        (PARADIAG, 'controller_ParaDiag_nonMPI.restart_block', '='), (PARADIAG, 'controller_ParaDiag_nonMPI.it_check', 'Add='),
    }
    seen = set()
    for x in W:
        if x.attr != 'iter' or not re.search(r'(^|\.)(S|step|T|MS\[[^\]]*\])\.status$', x.receiver):
            continue
        key = (x.module.relpath, (x.cls.name + '.' if x.cls else '') + x.fn.name, x.op)
        seen.add(key)
        ok = key in allowed_iter and (x.op == 'Add=' and x.rhs() == '1' or x.op == '=' and x.rhs() == '0')
        R.check(ok, f'{key[1]} :: {x.target} {x.op} {x.rhs()}', x.qual, 'only restart_block (= 0) and it_check (+= 1) of a controller write the iteration counter', f'{x.target} {x.op} {x.rhs()}')
    for rel, name, op in sorted(allowed_iter - seen):
        repo.func(rel, name)  # a vanished function is an analysis error, a vanished write is a violation
        R.bad(f'{name} :: writes the iteration counter ({"= 0" if op == "=" else "+= 1"})', f'{rel}:{name}', 'every controller resets status.iter to 0 in restart_block and increments it in it_check (the budget test and the logged niter count the iterations of THIS block)', 'no such write')
    # the increment: guarded by `not done`, immediately followed by the pre_iteration emission
    for rel, cn in ((NONMPI, 'controller_nonMPI'), (MPI, 'controller_MPI'), (PARADIAG, 'controller_ParaDiag_nonMPI')):
        fn = repo.func(rel, f'{cn}.it_check')
        w = f'{rel}:{cn}.it_check'
        R.fn(w)
        cfg = FuncCFG(fn)
        inc = [s for n, s in cfg.stmt_of.items() if isinstance(s, ast.AugAssign) and ast.unparse(s.target).endswith('status.iter')]
        if len(inc) != 1:
            raise AnalysisError(f'{w}: expected one increment of status.iter, found {len(inc)}')
        g = facts.guard_strings(cfg, inc[0])
        recv = ast.unparse(inc[0].target)[: -len('.iter')]
        R.check(any(re.fullmatch(rf'not \(?{re.escape(recv)}\.done\)?', x) for x in g), f'{cn}.it_check :: iter += 1 only under not done', w, f'not {recv}.done', g)
        ni = cfg.node_of[id(inc[0])]
        pre = [n for n in cfg.stmt_of if any(isinstance(c.func, ast.Attribute) and c.func.attr == 'pre_iteration' for c in cfg.calls_at(n))]
        ok = len(pre) == 1 and cfg.dominates(ni, pre[0]) and cfg.guards[id(cfg.stmt_of[pre[0]])][: len(cfg.guards[id(inc[0])])] == cfg.guards[id(inc[0])]
        R.check(ok, f'{cn}.it_check :: pre_iteration emitted in the arm of the increment, after it', w, 'iter += 1 dominates the single pre_iteration emission in the same arm', f'{len(pre)} emission(s)')
    # done writers
    allowed_done = {
        'controller_nonMPI.restart_block', 'controller_nonMPI.it_check', 'controller_MPI.restart_block', 'controller_ParaDiag_nonMPI.restart_block',
        'controller_ParaDiag_nonMPI.it_check', 'CheckConvergence.check_iteration_status', 'CheckConvergence.communicate_convergence',
    }
    table_exc = {
        'AdaptiveCollocation.post_iteration_processing': 'resets done to continue with the next collocation problem: explicitly forced continuation',
        'controller_MPI.check_iteration_estimate': 'interrupt-based iteration estimator (excluded by C08, forces termination by design)',
        'controller_MPI.pfasst': 'interrupt-based iteration estimator (excluded by C08)',
    }
    for x in W:
        if x.attr != 'done' or not x.receiver.endswith('.status') or not re.search(r'(^|\.)(S|step|T|MS\[[^\]]*\])\.status$', x.receiver):
            continue
        name = (x.cls.name + '.' if x.cls else '') + x.fn.name
        c = f'{name} :: {x.target} = {x.rhs()}'
        if name in allowed_done and name.endswith('.it_check'):
            # inside it_check the flag may only be narrowed: the new value implies the decision taken for THIS step
            rhs = x.rhs()
            own = f'{x.receiver}.done'
            try:
                nf = bool_nf(ast.parse(rhs, mode='eval').body)
            except SyntaxError:
                nf = None
            conj = isinstance(nf, tuple) and nf[0] == 'and' and own in nf[1]
            univ = re.fullmatch(r'all\(\(?(\w+)\.status\.done for \1 in local_MS_running\)?\)', rhs) is not None
            R.check(conj or univ, c, x.qual, f'{own} and <more> | all(T.status.done for T in local_MS_running): a step is never declared finished without its own convergence decision', rhs)
        elif name in allowed_done:
            R.ok(c, x.qual, found='sanctioned writer')
        elif name in table_exc:
            R.exc(c, x.qual, table_exc[name])
        else:
            R.bad(c, x.qual, 'status.done is written only by restart_block, it_check and CheckConvergence (table B1)', f'new writer {name}')
    # force_continue is consumed: cleared after the decision
    fn = repo.func(CC + 'check_convergence.py', 'CheckConvergence.check_iteration_status')
    w = f'{CC}check_convergence.py:CheckConvergence.check_iteration_status'
    cfg = FuncCFG(fn)
    dn = [n for n, s in cfg.stmt_of.items() if isinstance(s, ast.Assign) and ast.unparse(s.targets[0]) == 'S.status.done']
    fc = [n for n, s in cfg.stmt_of.items() if isinstance(s, ast.Assign) and ast.unparse(s.targets[0]) == 'S.status.force_continue' and ast.unparse(s.value) == 'False']
    ok = len(dn) == 1 and len(fc) == 1 and cfg.dominates(dn[0], fc[0]) and cfg.postdominates(fc[0], dn[0])
    R.check(ok, 'check_iteration_status :: force_continue cleared after it was used, on every path', w, 'done = check_convergence(..) ; ... ; force_continue = False', f'{len(dn)} decision(s), {len(fc)} clear(s)')
    rhs = ast.unparse(cfg.stmt_of[dn[0]].value) if dn else ''
    R.check(rhs == 'self.check_convergence(S, self)', 'check_iteration_status :: done is the value of check_convergence for this step', w, 'self.check_convergence(S, self)', rhs)


@rule('C03', 'C03.R6', 'what is logged is what decided: residual_post_* = L.status.residual, niter = step.status.iter', floor=4)
def r6(ctx, R):
    repo = ctx.repo
    rel = 'pySDC/implementations/hooks/default_hook.py'
    ci = repo.cls(rel, 'DefaultHooks')
    want = {'residual_post_sweep': 'L.status.residual', 'residual_post_iteration': 'L.status.residual', 'residual_post_step': 'L.status.residual', 'niter': 'step.status.iter'}
    got = {}
    for fn in ci.methods.values():
        for c in ast.walk(fn):
            if isinstance(c, ast.Call) and isinstance(c.func, ast.Attribute) and c.func.attr == 'add_to_stats':
                kw = {k.arg: k.value for k in c.keywords}
                ty = kw.get('type')
                if isinstance(ty, ast.Constant) and ty.value in want:
                    got[ty.value] = (ast.unparse(kw['value']), fn.name, ast.unparse(kw.get('iter')) if kw.get('iter') is not None else None)
    for k, v in want.items():
        g = got.get(k)
        ok = g is not None and g[0] == v
        R.check(ok, f'DefaultHooks :: type={k!r} records {v}', f'{rel}:DefaultHooks.{g[1] if g else "?"}', v, g[0] if g else 'not recorded')
    # L in those hooks is the level the callback was issued for
    for fn in ci.methods.values():
        if fn.name in ('post_sweep', 'post_iteration', 'post_step'):
            N = Normalizer(fn)
            a = N.env.alias.get('L')
            R.check(a is not None and ast.unparse(a) == 'step.levels[level_number]', f'DefaultHooks.{fn.name} :: L is step.levels[level_number]', f'{rel}:DefaultHooks.{fn.name}', 'step.levels[level_number]', ast.unparse(a) if a is not None else None)


@rule('C03', 'C03.R1b', 'defect signature of the overriding implementations: imex_1st_order_mass (mass matrix on u) and SweeperMPI (one node per rank)', floor=8)
def r1b(ctx, R):
    repo = ctx.repo
    # ---- imex_1st_order_mass: res[m] = integrate()[m] + M(u0 - u[m+1]) on level 0 | + u0 - M u[m+1] on coarse levels (+ tau[m])
    rel = sw.SW + 'imex_1st_order_mass.py'
    r_ = repo.resolve(repo.cls(rel, 'imex_1st_order_mass'), 'compute_residual')
    if r_ is None:
        raise AnalysisError('C03.R1b: imex_1st_order_mass resolves no compute_residual at all')
    owner, fn = r_
    w = f'{owner.module.relpath}:{owner.name}.compute_residual'
    R.fn(w)
    if owner.name == 'Sweeper':
        R.bad('imex_1st_order_mass.compute_residual :: defect = integrate + M(u0 - u) | u0 - M u (+tau)', f'{rel}:imex_1st_order_mass', 'an implementation with the mass matrix, found first in the MRO of imex_1st_order_mass', 'the method resolution order hands the mass-matrix sweeper Sweeper.compute_residual (u0 + dt Q F - u, no mass matrix): the residual that stops the iteration is not the defect of the problem that is solved')
        return _r1b_mpi(ctx, R)
    sig = Signature(fn, rename=sw.role_renames(fn))
    lines = sorted(l.text() for l in sig.lines if l.target.startswith('KNOWN'))
    skip = 'stage not in self.params.skip_residual_computation'
    want = sorted([
        f'KNOWN = self.integrate() |  | {skip}',
        f'KNOWN[i1 - 1] += +P.apply_mass_matrix(L.u[0] - L.u[i1]) | i1=1..M | {skip} and L.level_index == 0',
        f'KNOWN[i1 - 1] += +L.u[0] -P.apply_mass_matrix(L.u[i1]) | i1=1..M | {skip} and L.level_index != 0',
        f'KNOWN[i1 - 1] += +L.tau[i1 - 1] | i1=1..M | {skip} and L.tau[i1 - 1] is not None',
    ])
    R.check(lines == want, 'imex_1st_order_mass.compute_residual :: defect = integrate + M(u0 - u) | u0 - M u (+tau)', w, want, lines)
    N = sig.N
    norm = [c for c in N.contribs if c.rhs and re.fullmatch(r'abs\(\w+\[i1 - 1\]\)', c.rhs)]
    R.check(len(norm) == 1 and sig._rn(norm[0].rhs) == 'abs(KNOWN[i1 - 1])', 'imex_1st_order_mass.compute_residual :: norm list holds abs(defect[m]) of every node', w, 'res_norm[m] = abs(res[m])', [c.describe() for c in norm])
    fx = [c for c in N.calls if c[0].startswith('P.fix_residual(')]
    R.check(len(fx) == 1 and fx[0][2][-1:] == ['P.fix_bc_for_residual'], 'imex_1st_order_mass.compute_residual :: boundary rows fixed only when the problem asks for it', w, 'if P.fix_bc_for_residual: P.fix_residual(res[m])', [c[0] for c in fx])
    _r1b_mpi(ctx, R)


def _r1b_mpi(ctx, R):
    repo = ctx.repo
    skip = 'stage not in self.params.skip_residual_computation'
    # ---- SweeperMPI: res = integrate(last_only=...) + u[0] - u[rank+1] (+ tau[rank]); res_norm = abs(res)
    rel = sw.SW + 'generic_implicit_MPI.py'
    fn = repo.func(rel, 'SweeperMPI.compute_residual')
    w = f'{rel}:SweeperMPI.compute_residual'
    R.fn(w)
    sig = Signature(fn, rename=sw.role_renames(fn))
    lines = sorted(l.text() for l in sig.lines if l.target.startswith('KNOWN'))
    want = sorted([
        f"KNOWN = self.integrate(last_only=L.params.residual_type[:4] == 'last') |  | {skip}",
        f'KNOWN += +L.u[0] -L.u[self.rank + 1] |  | {skip}',
        f'KNOWN += +L.tau[self.rank] |  | {skip} and L.tau[self.rank] is not None',
    ])
    R.check(lines == want, 'SweeperMPI.compute_residual :: defect of this rank\'s node = integrate + u0 - u[r+1] (+tau[r])', w, want, lines)
    norm = [c for c in sig.N.contribs if c.rhs and sig._rn(c.rhs) == 'abs(KNOWN)']
    R.check(len(norm) == 1, 'SweeperMPI.compute_residual :: res_norm = abs(defect)', w, 'abs(res)', [c.describe() for c in sig.N.contribs if 'abs(' in (c.rhs or '')][:3])
    # the reductions carry that norm (relative ones divided by |u0|)
    red = {c.guards[-1]: c.rhs for c in sig.N.contribs if c.target == 'L.status.residual' and c.guards and 'residual_type ==' in c.guards[-1]}
    nl = norm[0].target if norm else 'res_norm'
    want_red = {"L.params.residual_type == 'full_abs'": f'self.comm.allreduce({nl}, op=MPI.MAX)', "L.params.residual_type == 'last_abs'": f'self.comm.bcast({nl}, root=self.comm.size - 1)',
                "L.params.residual_type == 'full_rel'": f'self.comm.allreduce({nl} / abs(L.u[0]), op=MPI.MAX)', "L.params.residual_type == 'last_rel'": f'self.comm.bcast({nl} / abs(L.u[0]), root=self.comm.size - 1)'}
    got_red = {}
    for k, v in red.items():
        got_red[k.split(' and ')[-1]] = v
    R.check(got_red == want_red, 'SweeperMPI.compute_residual :: full -> allreduce(MAX), last -> bcast(root = last node), rel -> / |u0|', w, want_red, got_red)
    # ---- the skip branch of every implementation keeps the old value only when the stage is listed
    base = sw.sweeper_base(repo)
    for ci in repo.overriders(base, 'compute_residual'):
        if not repo.is_library(ci) or ci is base:
            continue
        f2 = ci.methods['compute_residual']
        N2 = Normalizer(f2)
        sk = [c for c in N2.contribs if re.fullmatch(r'(L|lvl)\.status\.residual', c.target) and c.rhs and 'if L.status.residual is None' in c.rhs]
        if not sk:
            continue
        ok = all(c.guards == ['stage in self.params.skip_residual_computation'] for c in sk)
        R.check(ok, f'{ci.name}.compute_residual :: residual kept without computation only if the stage is in skip_residual_computation', f'{ci.module.relpath}:{ci.name}.compute_residual', 'guard: stage in self.params.skip_residual_computation', [c.guards for c in sk])


@rule('C03', 'C03.R7', 'the residual is refreshed after EVERY sweep: in each iteration handler update_nodes() is followed, on every path of the same loop iteration, by compute_residual() of the same sweeper (what post_sweep logs is the defect of the values just computed)', floor=8)
def r7(ctx, R):
    repo = ctx.repo
    for rel, cn in ((NONMPI, 'controller_nonMPI'), (MPI, 'controller_MPI')):
        ci = repo.cls(rel, cn)
        for name, fn in ci.methods.items():
            if not name.startswith('it_') or name == 'it_check':
                continue
            cfg = FuncCFG(fn)
            ups = [(n, c) for n in cfg.stmt_of for c in cfg.calls_at(n) if isinstance(c.func, ast.Attribute) and c.func.attr == 'update_nodes']
            for n, c in ups:
                w = f'{rel}:{cn}.{name}'
                R.fn(w)
                recv = ast.unparse(c.func.value)
                same = [m for m in cfg.stmt_of for k in cfg.calls_at(m) if isinstance(k.func, ast.Attribute) and k.func.attr == 'compute_residual' and ast.unparse(k.func.value) == recv and cfg.loops_of[id(cfg.stmt_of[m])] == cfg.loops_of[id(cfg.stmt_of[n])]]
                ok = len(same) == 1 and cfg.dominates(n, same[0]) and cfg.guards[id(cfg.stmt_of[same[0]])] == cfg.guards[id(cfg.stmt_of[n])]
                R.check(ok, f'{cn}.{name} :: {recv}.update_nodes() is followed by {recv}.compute_residual() under the same conditions, once per sweep', w, 'same loop nest, same guards, after the sweep', f'{len(same)} residual computation(s) in the same loop nest' + ('' if not same else '; guards differ' if cfg.guards[id(cfg.stmt_of[same[0]])] != cfg.guards[id(cfg.stmt_of[n])] else ''))
    R.exc('controller_ParaDiag_nonMPI.it_ParaDiag :: all-at-once residual', f'{PARADIAG}:controller_ParaDiag_nonMPI.it_ParaDiag', 'ParaDiag computes the all-at-once residual BEFORE the local solves by construction (increment formulation, C15.R3); IT_CHECK recomputes it before deciding (C03.R3)')


@rule('C03', 'C03.R8', 'what post_iteration reports is the residual that decides: in it_check the residual of the step is recomputed (after the forward receive) BEFORE the post_iteration callbacks are issued', floor=2)
def r8(ctx, R):
    repo = ctx.repo
    R.exc('controller_ParaDiag_nonMPI.it_check :: no residual inside it_check', f'{PARADIAG}:controller_ParaDiag_nonMPI.it_check', 'ParaDiag decides on the all-at-once residual computed at the start of the previous it_ParaDiag (increment formulation); there is nothing to recompute in it_check')
    for rel, cn in ((NONMPI, 'controller_nonMPI'), (MPI, 'controller_MPI')):
        fn = repo.func(rel, f'{cn}.it_check')
        w = f'{rel}:{cn}.it_check'
        R.fn(w)

        def top_index(pred):
            out = []
            for i, st in enumerate(fn.body):
                if any(isinstance(c, ast.Call) and pred(c) for c in ast.walk(st)):
                    out.append(i)
            return out

        res = top_index(lambda c: isinstance(c.func, ast.Attribute) and c.func.attr in ('compute_residual', 'compute_all_at_once_residual'))
        rcv = top_index(lambda c: isinstance(c.func, ast.Attribute) and c.func.attr == 'recv_full')
        post = top_index(lambda c: isinstance(c.func, ast.Attribute) and c.func.attr == 'post_iteration')
        if not res or not post:
            raise AnalysisError(f'{w}: residual computation or post_iteration emission not found')
        cfgf = FuncCFG(fn)
        same_stmt_ok = True
        if min(post) == max(res):
            # both inside one top-level statement (one loop over the steps / the single MPI step): decide by dominance inside it
            rn = [n for n in cfgf.stmt_of for c in cfgf.calls_at(n) if isinstance(c.func, ast.Attribute) and c.func.attr in ('compute_residual', 'compute_all_at_once_residual')]
            pn = [n for n in cfgf.stmt_of for c in cfgf.calls_at(n) if isinstance(c.func, ast.Attribute) and c.func.attr == 'post_iteration']
            same_stmt_ok = all(any(cfgf.dominates(r_, p_) for r_ in rn) for p_ in pn)
        ok = (max(res) < min(post) or (max(res) == min(post) and same_stmt_ok)) and (not rcv or max(rcv) <= max(res))
        R.check(ok, f'{cn}.it_check :: receive -> residual -> post_iteration callbacks', w, 'the residual statement precedes (dominates) every post_iteration emission', {'residual at statement': res, 'receive at': rcv, 'post_iteration at': post})


@rule('C03', 'C03.R9', '"after at least one sweep" is not vacuous: the predicate accepts residual <= restol only if iter > 0 or sweep > 0, so the sweep counter must be 0 when a block starts (a start value > 0 lets a step finish at iteration 0 without any sweep)', floor=3)
def r9(ctx, R):
    repo = ctx.repo
    for rel, cn in ((NONMPI, 'controller_nonMPI'), (MPI, 'controller_MPI'), (PARADIAG, 'controller_ParaDiag_nonMPI')):
        fn = repo.func(rel, f'{cn}.restart_block')
        w = f'{rel}:{cn}.restart_block'
        R.fn(w)
        vals = [ast.unparse(s.value) for s in ast.walk(fn) if isinstance(s, ast.Assign) and ast.unparse(s.targets[0]).endswith('.status.sweep')]
        if not vals:
            raise AnalysisError(f'{w}: no initialisation of status.sweep found')
        R.check(vals == ['0'], f'{cn}.restart_block :: the sweep counter starts at 0', w, '<level>.status.sweep = 0', vals)


@rule('C03', 'C03.R10', 'the residual is the defect of the STORED values only if the stored f[m] is F(u[m]) at the time of node m: every right-hand-side evaluation of a collocation sweeper pairs node value m with the time of node m (shared with C02.R10)', floor=10)
def r10(ctx, R):
    from . import c02
    c02.r10(ctx, R)


def _bare_f_arith(fn):
    """arithmetic on a whole right-hand-side object `X.f[i]` (operand of + - * / or of an augmented assignment) - for an
    IMEX sweeper that object has an implicit and an explicit row, which must be addressed (.impl / .expl) or summed"""
    hits = []

    def is_f(e):
        return isinstance(e, ast.Subscript) and isinstance(e.value, ast.Attribute) and e.value.attr == 'f'

    for x in ast.walk(fn):
        if isinstance(x, ast.BinOp) and (is_f(x.left) or is_f(x.right)):
            hits.append(f'line {x.lineno}: {ast.unparse(x)[:70]}')
        if isinstance(x, ast.AugAssign) and is_f(x.value):
            hits.append(f'line {x.lineno}: {ast.unparse(x)[:70]}')
    return hits


@rule('C03', 'C03.R11', 'IMEX sweepers anywhere in the repository (projects included): the implementations of integrate / compute_residual / compute_end_point that the method resolution order hands to a sweeper with an implicit-explicit right-hand side never do arithmetic on a whole f[m] (two rows) - a residual formed that way is not the defect of the summed right-hand side', floor=8)
def r11(ctx, R):
    from ..model import Repo, ClassInfo
    big = ctx.memo('repo_with_projects', lambda: Repo(ctx.repo.root, extra_dirs=('pySDC/projects',)))
    base = big.cls('pySDC/core/sweeper.py', 'Sweeper')
    imex = big.cls(sw.SW + 'imex_1st_order.py', 'imex_1st_order')
    pc = ast.parse('def f(self):\n    res = self.level.u[0]\n    for m in range(3):\n        res += 0.1 * self.level.f[m]\n').body[0]
    if len(_bare_f_arith(pc)) != 1:
        raise AnalysisError('C03.R11 positive control not detected')
    n = 0
    for ci in big.subclasses(imex):
        for meth in ('integrate', 'compute_residual', 'compute_end_point'):
            r = big.resolve(ci, meth)
            if r is None:
                continue
            owner, fn = r
            n += 1
            w = f'{owner.module.relpath}:{owner.name}.{meth}'
            R.fn(w)
            hits = _bare_f_arith(fn)
            R.check(not hits, f'{ci.name}.{meth} (defined by {owner.name}) :: the two rows of f[m] are addressed or summed, never used as one operand', w, 'L.f[m].impl / L.f[m].expl (or their sum)', hits[:3])
    if n < 8:
        raise AnalysisError(f'C03.R11: only {n} resolved IMEX sweeper methods found')


def _self_assembled_residual(fn):
    """(assembles?, has tau?) for a compute_residual implementation: it assembles the defect itself if it accumulates Q-weighted
    f values / integrate() into a local that ends up in status.residual; tau must then be added under its is-not-None guard"""
    src = ast.unparse(fn)
    assembles = ('status.residual' in src) and (re.search(r'Qmat\[|\.integrate\(', src) is not None)
    tau_added = False
    for s in ast.walk(fn):
        if isinstance(s, (ast.AugAssign, ast.Assign)) and 'tau[' in ast.unparse(s.value if isinstance(s, ast.AugAssign) else s.value):
            tau_added = True
    guarded = re.search(r'tau\[[^\]]+\] is not None', src) is not None
    return assembles, tau_added and guarded


@rule('C03', 'C03.R12', 'the FAS correction is part of EVERY residual that a sweeper assembles itself: any compute_residual implementation in the repository (library and projects) that builds u0 + dt*Q*F - U from Q entries / integrate() adds tau[m] under its is-not-None guard in every arm (the rule found the last_* arm of the Resilience efficient sweepers without it: F30, repaired)', floor=5)
def r12(ctx, R):
    from ..model import Repo
    big = ctx.memo('repo_with_projects', lambda: Repo(ctx.repo.root, extra_dirs=('pySDC/projects',)))
    base = big.cls('pySDC/core/sweeper.py', 'Sweeper')
    n = 0
    seen = set()
    cands = list(big.subclasses(base)) + [c for c in big.classes.values() if 'compute_residual' in c.methods]
    for ci in cands:
        fn = ci.methods.get('compute_residual')
        if fn is None or id(fn) in seen:
            continue
        seen.add(id(fn))
        assembles, has_tau = _self_assembled_residual(fn)
        w = f'{ci.module.relpath}:{ci.name}.compute_residual'
        if not assembles:
            continue
        n += 1
        R.fn(w)
        # every arm that stores status.residual from a locally assembled defect: count the defect accumulators and the tau additions
        accs = {}
        for s in ast.walk(fn):
            if isinstance(s, ast.AugAssign) and isinstance(s.op, ast.Add):
                b = s.target
                while isinstance(b, ast.Subscript):
                    b = b.value
                if isinstance(b, ast.Name):
                    v = ast.unparse(s.value)
                    accs.setdefault(b.id, {'q': False, 'tau': False})
                    if re.search(r'Qmat\[|\.f\[', v):
                        accs[b.id]['q'] = True
                    if 'tau[' in v:
                        accs[b.id]['tau'] = True
        lacking = sorted(a for a, d in accs.items() if d['q'] and not d['tau'])
        R.check(has_tau and not lacking, f'{ci.name}.compute_residual :: every locally assembled defect adds tau under `tau[..] is not None`', w, 'res += tau[m] if tau[m] is not None, in every arm', f'accumulators without a tau term: {lacking}' if lacking else 'no guarded tau term')
    if n < 5:
        raise AnalysisError(f'C03.R12: only {n} self-assembled residuals found')


def _level_refs(node):
    out = []
    for n in ast.walk(node):
        if isinstance(n, ast.Subscript) and isinstance(n.value, ast.Attribute) and n.value.attr == 'levels' and ast.unparse(n.value) in ('S.levels', 'self.S.levels'):
            out.append((ast.unparse(n.slice), n.lineno))
    return out


def sweep_loop_levels(fn):
    """-> [(loop lineno, {index text: [linenos]})] for every loop over nsweeps in fn, the reset of the sweep counter right before it included"""
    res = []
    for body in [getattr(n, a) for n in ast.walk(fn) for a in ('body', 'orelse') if isinstance(getattr(n, a, None), list)]:
        for i, s in enumerate(body):
            if isinstance(s, ast.For) and 'nsweeps' in ast.unparse(s.iter):
                refs = _level_refs(s)
                if i > 0:
                    for a in ast.walk(body[i - 1]):
                        if isinstance(a, ast.Assign) and ast.unparse(a.targets[0]).endswith('.status.sweep'):
                            refs += _level_refs(a)
                # `self.nsweeps[i]`: the per-level sweep counts the serial controller keeps
                refs += [(ast.unparse(n.slice), n.lineno) for n in ast.walk(s.iter) if isinstance(n, ast.Subscript) and ast.unparse(n.value) == 'self.nsweeps']
                by = {}
                for idx, ln in refs:
                    by.setdefault(idx, []).append(ln)
                res.append((s.lineno, by))
    return res


_R14_CONTROL = '''
def it_fine(self, S):
    S.levels[0].status.sweep = 0
    for k in range(S.levels[0].params.nsweeps):
        S.levels[1].status.sweep += 1
        S.levels[0].sweep.update_nodes()
        S.levels[0].sweep.compute_residual(stage='IT_FINE')
'''


@rule('C03', 'C03.R14', 'one sweep loop, one level: inside every `for k in range(..nsweeps)` loop of the controllers (and in the reset of the sweep counter right before it) all references `S.levels[i]` name the SAME level - the number of sweeps, the sweep counter that the convergence test reads, the refreshed preconditioner coefficients, the node update and the residual belong to the level that is swept', floor=6)
def r14(ctx, R):
    repo = ctx.repo
    ctl = sweep_loop_levels(ast.parse(_R14_CONTROL).body[0])
    if len(ctl) != 1 or len(ctl[0][1]) != 2:
        raise AnalysisError('C03.R14: the embedded control (sweep counter of another level) is not recognised')
    n = 0
    CCD = 'pySDC/implementations/controller_classes/'
    for rel, cn in ((CCD + 'controller_nonMPI.py', 'controller_nonMPI'), (CCD + 'controller_MPI.py', 'controller_MPI'), (CCD + 'controller_ParaDiag_nonMPI.py', 'controller_ParaDiag_nonMPI')):
        ci = repo.cls(rel, cn)
        for name, fn in ci.methods.items():
            for line, by in sweep_loop_levels(fn):
                n += 1
                w = f'{rel}:{cn}.{name}'
                R.fn(w)
                R.check(len(by) == 1, f'{cn}.{name} :: sweep loop #{n}: every S.levels[..] of the loop is the swept level', w, 'one level index in the loop head, the counter, the coefficient refresh, the update and the residual', {k: len(v) for k, v in by.items()})
    if n < 6:
        raise AnalysisError(f'C03.R14: only {n} sweep loops found in the controllers')
