"""rules for c03 (under construction)"""
