"""C07 - the block protocol is safe for every convergence pattern (typestate decomposed into local CFG obligations)."""

import ast
import re

from ..cfg import FuncCFG, walk_no_nested, ENTRY, EXIT, RAISE
from ..model import AnalysisError
from ..norm import bool_nf, nnf
from ..runner import rule
from .. import controllers as ct
from .. import facts


def _tables(ctx):
    return ctx.memo('handler_tables', lambda: {spec[1]: ct.handler_table(ctx.repo, spec) for spec in ct.ALL})


def _is_steps_loop(st):
    return isinstance(st, ast.For) and ast.unparse(st.iter) in ('local_MS_running', 'local_MS_active')


def _is_hooks_loop(st):
    return isinstance(st, ast.For) and ast.unparse(st.iter) in ('self.hooks', 'controller.hooks')


def _emission_point(h, node):
    """the header of the `for hook in self.hooks` loop around an emission (zero hooks = nothing to emit)"""
    st = h.cfg.stmt_of[node]
    for l in reversed(h.cfg.loops_of[id(st)]):
        if _is_hooks_loop(l):
            return h.cfg.node_of[id(l)]
    return node


def _anchor(h, node):
    """outermost loop over the running steps around a node (handlers are called with a non-empty list)"""
    st = h.cfg.stmt_of[node]
    for l in h.cfg.loops_of[id(st)]:
        if _is_steps_loop(l):
            return h.cfg.node_of[id(l)]
    return node


def _all_methods(repo, spec):
    ci = repo.cls(spec[0], spec[1])
    return ci.methods


def _emission_sites(repo, spec, cb):
    out = []
    for name, fn in _all_methods(repo, spec).items():
        for c in ast.walk(fn):
            if isinstance(c, ast.Call) and isinstance(c.func, ast.Attribute) and c.func.attr == cb and ast.unparse(c.func.value) == 'hook':
                out.append((name, c))
    return out


def _lvl_norm(s):
    s = s.replace('self.S.', 'S.')
    if s in ('-1', 'len(S.levels) - 1'):
        return 'last'
    return s


@rule('C07', 'C07.R1', 'pre_step is emitted only in the SPREAD handler, before the predictor', floor=3)
def r1(ctx, R):
    for spec in ct.ALL:
        _, hs = _tables(ctx)[spec[1]]
        sites = _emission_sites(ctx.repo, spec, 'pre_step')
        h = hs['SPREAD']
        R.fn(h.where)
        names = sorted({n for n, _ in sites})
        ok = names == [h.name] and len(sites) == 1
        if ok:
            em = h.emissions('pre_step')
            pr = h.calls('predict')
            pr = [(n, c) for n, c in pr if ast.unparse(c.func).endswith('.sweep.predict')]
            ok = len(em) == 1 and len(pr) == 1 and h.cfg.dominates(_emission_point(h, em[0][0]), pr[0][0]) and h.cfg.loops_of[id(h.cfg.stmt_of[_emission_point(h, em[0][0])])] == h.cfg.loops_of[id(h.cfg.stmt_of[pr[0][0]])]
        R.check(ok, f'{spec[1]} :: pre_step only in {h.name}, once per running step, before sweep.predict()', h.where, 'one emission site, dominating the predictor in the same per-step block', names)


@rule('C07', 'C07.R2', 'pre_predict/post_predict only in PREDICT; every non-raising path of the predict_type dispatch reaches post_predict', floor=6)
def r2(ctx, R):
    for spec in (ct.NONMPI, ct.MPI):
        _, hs = _tables(ctx)[spec[1]]
        h = hs['PREDICT']
        R.fn(h.where)
        for cb in ('pre_predict', 'post_predict'):
            sites = sorted({n for n, _ in _emission_sites(ctx.repo, spec, cb)})
            R.check(sites == [h.name], f'{spec[1]} :: {cb} only in {h.name}', h.where, [h.name], sites)
        pre, post = h.emissions('pre_predict'), h.emissions('post_predict')
        if len(pre) != 1 or len(post) != 1:
            R.bad(f'{spec[1]}.predict :: one pre_predict and one post_predict site', h.where, '1/1', f'{len(pre)}/{len(post)}')
            continue
        a_pre, a_post = _anchor(h, _emission_point(h, pre[0][0])), _anchor(h, _emission_point(h, post[0][0]))
        work = [n for nm in ('update_nodes', 'transfer', 'send_full', 'recv_full') for n, _ in h.calls(nm)]
        ok = all(h.cfg.dominates(a_pre, n) for n in work) and all(not h.cfg.reachable(a_post, n) for n in work)
        R.check(ok, f'{spec[1]}.predict :: all predictor work lies between pre_predict and post_predict', h.where, 'pre_predict dominates and post_predict follows every sweep/transfer/communication of the predictor', f'{len(work)} work sites')
        # interrupt returns (`if force_done: return`) are excluded by the property (C08) - remove them from the normal exits
        ex = [n for n, s in h.cfg.stmt_of.items() if isinstance(s, ast.Return) and any('force_done' in g for g in h.guard_strs(n))]
        ok = h.cfg.must_pass(a_pre, EXIT, [a_post] + ex) and h.cfg.dominates(a_pre, a_post)
        R.check(ok, f'{spec[1]}.predict :: every normal path from pre_predict reaches post_predict (or raises)', h.where, 'post_predict on all non-raising paths', 'a path bypasses post_predict' if not ok else 'ok')
        ch = [c for c in facts.dispatch_chains(h.fn) if c['subject'].endswith('params.predict_type')]
        ok = len(ch) == 1 and ch[0]['else_kind'] == 'raise' and None in ch[0]['names']
        R.check(ok, f'{spec[1]}.predict :: unknown predict_type raises', h.where, 'dispatch on predict_type ends in raise', [(c['names'], c['else_kind']) for c in ch])
        sw_ = [w for w in h.stage_writes()]
        ok = bool(sw_) and all(v == 'IT_CHECK' for _, v, _, _ in sw_) and all(h.cfg.dominates(a_post, _anchor(h, n)) for n, _, _, _ in sw_)
        R.check(ok, f'{spec[1]}.predict :: stage IT_CHECK set after post_predict', h.where, 'stage write dominated by post_predict', [(v) for _, v, _, _ in sw_])


@rule('C07', 'C07.R3', 'post_iteration only in IT_CHECK, guarded by iter > 0, before the convergence controllers decide', floor=3)
def r3(ctx, R):
    for spec in ct.ALL:
        _, hs = _tables(ctx)[spec[1]]
        h = hs['IT_CHECK']
        R.fn(h.where)
        sites = _emission_sites(ctx.repo, spec, 'post_iteration')
        names = sorted({n for n, _ in sites})
        extra = [n for n in names if n != h.name]
        if extra == ['pfasst'] and spec[1] == 'controller_MPI':
            R.exc('controller_MPI.pfasst :: post_iteration on interrupt', f'{spec[0]}:controller_MPI.pfasst', 'interrupt-based iteration estimator (excluded by C08): the step is cancelled mid-iteration and closes its iteration here')
            extra = []
        em = h.emissions('post_iteration')
        ok = not extra and len(em) == 1
        if ok:
            g = h.guard_strs(em[0][0])
            ok = any(re.fullmatch(r'(self\.)?S\.status\.iter > 0', x) for x in g)
            dec = h.calls('convergence_control')
            ep = _emission_point(h, em[0][0])
            iff = None
            for t, p in h.cfg.guards[id(h.cfg.stmt_of[em[0][0]])] if False else []:
                pass
            # the `if iter > 0` test node dominates the decision; the decision cannot flow back to the emission in the same iteration
            loops = h.cfg.loops_of[id(h.cfg.stmt_of[dec[0][0]])] if dec else []
            hdrs = [h.cfg.node_of[id(l)] for l in loops if _is_steps_loop(l)]
            ok = ok and len(dec) == 1 and not h.cfg.reachable(dec[0][0], ep, without=hdrs) and h.cfg.reachable(ep, dec[0][0])
            # same per-step block
            ok = ok and [l for l in h.cfg.loops_of[id(h.cfg.stmt_of[ep])] if _is_steps_loop(l)] == [l for l in loops if _is_steps_loop(l)]
        R.check(ok, f'{spec[1]}.it_check :: post_iteration under iter > 0, before convergence_control of the same step', h.where, 'one guarded emission preceding the decision', {'sites': names, 'emissions': len(em)})


@rule('C07', 'C07.R4', 'pre_iteration only in IT_CHECK, in the not-done arm', floor=3)
def r4(ctx, R):
    for spec in ct.ALL:
        _, hs = _tables(ctx)[spec[1]]
        h = hs['IT_CHECK']
        R.fn(h.where)
        names = sorted({n for n, _ in _emission_sites(ctx.repo, spec, 'pre_iteration')})
        em = h.emissions('pre_iteration')
        ok = names == [h.name] and len(em) == 1 and any(re.fullmatch(r'not \(?(self\.)?S\.status\.done\)?', x) for x in h.guard_strs(em[0][0]))
        R.check(ok, f'{spec[1]}.it_check :: pre_iteration only here, under not done', h.where, 'single emission in the not-done arm', {'sites': names})


@rule('C07', 'C07.R5', 'post_step only in the done arm of IT_CHECK, after compute_end_point, together with stage DONE', floor=6)
def r5(ctx, R):
    for spec in ct.ALL:
        _, hs = _tables(ctx)[spec[1]]
        h = hs['IT_CHECK']
        R.fn(h.where)
        sites = sorted({n for n, _ in _emission_sites(ctx.repo, spec, 'post_step')})
        extra = [n for n in sites if n != h.name]
        if extra == ['pfasst'] and spec[1] == 'controller_MPI':
            R.exc('controller_MPI.pfasst :: post_step on interrupt', f'{spec[0]}:controller_MPI.pfasst', 'interrupt-based iteration estimator (excluded by C08)')
            extra = []
        em = h.emissions('post_step')
        ok = not extra and len(em) == 1
        done_w = [(n, g) for n, v, g, s in h.stage_writes() if v == 'DONE']
        if ok:
            g = h.guard_strs(em[0][0])
            in_done_arm = any(re.fullmatch(r'not \(not \(?(self\.)?S\.status\.done\)?\)', x) or re.fullmatch(r'(self\.)?S\.status\.done', x) for x in g)
            ep = _emission_point(h, em[0][0])
            ok = in_done_arm and len(done_w) == 1 and h.cfg.dominates(ep, done_w[0][0]) and h.cfg.guards[id(h.cfg.stmt_of[done_w[0][0]])] == h.cfg.guards[id(h.cfg.stmt_of[ep])]
        R.check(ok, f'{spec[1]}.it_check :: post_step in the done arm, followed by stage = DONE in the same arm', h.where, 'one emission; DONE written once, after it', {'sites': sites, 'DONE writes': len(done_w)})
        if spec[1] == 'controller_MPI':
            R.note('controller_MPI.it_check :: no compute_end_point() in the done arm', h.where, 'serial sibling recomputes the end point after the last receive; see C08.R5 (finding F9)')
            continue
        cep = [(n, c) for n, c in h.calls('compute_end_point')]
        ok = len(em) == 1 and len(cep) == 1 and h.cfg.dominates(cep[0][0], _emission_point(h, em[0][0])) and h.cfg.guards[id(h.cfg.stmt_of[cep[0][0]])] == h.cfg.guards[id(h.cfg.stmt_of[_emission_point(h, em[0][0])])]
        R.check(ok, f'{spec[1]}.it_check :: compute_end_point() precedes post_step in the done arm', h.where, 'uend final before the step is reported', f'{len(cep)} end-point call(s)')


def sweep_count_checks(R, spec, h):
    """the number of sweeps on level X is taken from level X (self.nsweeps[X] / levels[X].params.nsweeps)"""
    for n, c in h.calls('update_nodes'):
        recv = ast.unparse(c.func.value)
        m = re.fullmatch(r'(?:self\.)?S\.levels\[(.+)\]\.sweep', recv)
        lvl = m.group(1) if m else None
        rl = [l for l in h.cfg.loops_of[id(h.cfg.stmt_of[n])]
              if isinstance(l, ast.For) and isinstance(l.iter, ast.Call) and ast.unparse(l.iter.func) == 'range' and 'nsweeps' in ast.unparse(l.iter)]
        if not rl or lvl is None:
            continue
        arg = ast.unparse(rl[-1].iter.args[0])
        if arg == 'nsweeps':
            # the definition that reaches this loop: the last one before it in source order
            d = [a for a in walk_no_nested(h.fn) if isinstance(a, ast.Assign) and ast.unparse(a.targets[0]) == 'nsweeps' and a.lineno < rl[-1].lineno]
            d.sort(key=lambda a: a.lineno)
            arg = ast.unparse(d[-1].value) if d else arg
        mm = re.fullmatch(r'self\.nsweeps\[(.+)\]', arg) or re.fullmatch(r'self\.S\.levels\[(.+)\]\.params\.nsweeps', arg)
        src_lvl = mm.group(1) if mm else None
        R.check(src_lvl == lvl, f'{spec[1]}.{h.name} :: number of sweeps on level {lvl} is taken from that level', h.where, f'range(nsweeps of level {lvl})', arg)


@rule('C07', 'C07.R6', 'every sweep in an iteration handler is bracketed by pre_sweep ... compute_residual, post_sweep for the same level', floor=13)
def r6(ctx, R):
    for spec in ct.ALL:
        _, hs = _tables(ctx)[spec[1]]
        for stage, h in hs.items():
            if not stage.startswith('IT_') or stage == 'IT_CHECK':
                continue
            R.fn(h.where)
            ups = h.calls('update_nodes')
            for n, c in ups:
                recv = ast.unparse(c.func.value)  # S.levels[l].sweep
                m = re.fullmatch(r'(?:self\.)?S\.levels\[(.+)\]\.sweep', recv)
                lvl = _lvl_norm(m.group(1)) if m else recv
                loops = [l for l in h.cfg.loops_of[id(h.cfg.stmt_of[n])] if not _is_hooks_loop(l)]
                def pts(cb):
                    out = []
                    for en, _, call in h.emissions(cb):
                        kw = {k.arg: ast.unparse(k.value) for k in call.keywords}
                        ep = _emission_point(h, en)
                        el = [l for l in h.cfg.loops_of[id(h.cfg.stmt_of[ep])]]
                        if _lvl_norm(kw.get('level_number', '')) == lvl and (el == loops or stage == 'IT_PARADIAG'):
                            out.append(ep)
                    return out
                pre, post = pts('pre_sweep'), pts('post_sweep')
                res = [rn for rn, rc in h.calls('compute_residual') if ast.unparse(rc.func.value) == recv and h.cfg.loops_of[id(h.cfg.stmt_of[rn])] == h.cfg.loops_of[id(h.cfg.stmt_of[n])]]
                if stage == 'IT_PARADIAG':
                    # ParaDiag brackets the whole all-at-once iteration; its residual is the all-at-once one computed inside
                    ok = len(pre) == 1 and len(post) == 1 and h.cfg.dominates(_anchor(h, pre[0]), _anchor(h, n)) and h.cfg.dominates(_anchor(h, n), _anchor(h, post[0])) and _anchor(h, pre[0]) != _anchor(h, n) != _anchor(h, post[0])
                    R.check(ok, f'{spec[1]}.{h.name} :: update_nodes() on level {lvl} between pre_sweep and post_sweep', h.where, 'bracketed', f'pre {len(pre)}, post {len(post)}')
                    continue
                ok = len(pre) == 1 and len(post) == 1 and len(res) == 1 and h.cfg.dominates(pre[0], n) and h.cfg.dominates(n, res[0]) and h.cfg.dominates(res[0], post[0]) and h.cfg.postdominates(post[0], n)
                R.check(ok, f'{spec[1]}.{h.name} :: pre_sweep({lvl}) -> update_nodes -> compute_residual -> post_sweep({lvl})', h.where, 'one bracket per sweep, same level, same block', f'pre {len(pre)}, residual {len(res)}, post {len(post)}')
            sweep_count_checks(R, spec, h)
            if stage == 'IT_COARSE':
                ok = len(ups) == 1 and not any(isinstance(l, ast.For) and isinstance(l.iter, ast.Call) and ast.unparse(l.iter.func) == 'range' for l in h.cfg.loops_of[id(h.cfg.stmt_of[ups[0][0]])])
                ok = ok and not any('status' in g for g in h.guard_strs(ups[0][0]) if 'force_done' not in g)
                R.check(ok, f'{spec[1]}.{h.name} :: exactly one unconditional sweep on the coarsest level', h.where, 'one update_nodes(), not in a sweep loop', f'{len(ups)} site(s)')
            if stage == 'IT_FINE':
                ok = len(ups) == 1
                if ok:
                    rl = [l for l in h.cfg.loops_of[id(h.cfg.stmt_of[ups[0][0]])] if isinstance(l, ast.For) and isinstance(l.iter, ast.Call) and ast.unparse(l.iter.func) == 'range']
                    arg = ast.unparse(rl[0].iter.args[0]) if len(rl) == 1 and len(rl[0].iter.args) == 1 else None
                    if arg == 'nsweeps':
                        d = [s for s in walk_no_nested(h.fn) if isinstance(s, ast.Assign) and ast.unparse(s.targets[0]) == 'nsweeps']
                        arg = ast.unparse(d[0].value) if len(d) == 1 else arg
                    ok = arg in ('self.nsweeps[0]', 'self.S.levels[0].params.nsweeps')
                R.check(ok, f'{spec[1]}.{h.name} :: fine sweeps run range(nsweeps of level 0)', h.where, 'for k in range(nsweeps[0])', arg if ups else None)


STAGE_GRAPH = {
    'controller_nonMPI': {'SPREAD': {'PREDICT', 'IT_CHECK'}, 'PREDICT': {'IT_CHECK'}, 'IT_CHECK': {'DONE', 'IT_DOWN', 'IT_FINE', 'IT_COARSE'}, 'IT_FINE': {'IT_CHECK'},
                          'IT_DOWN': {'IT_COARSE'}, 'IT_COARSE': {'IT_UP', 'IT_CHECK'}, 'IT_UP': {'IT_FINE'}},
    'controller_ParaDiag_nonMPI': {'SPREAD': {'IT_CHECK'}, 'IT_CHECK': {'DONE', 'IT_PARADIAG'}, 'IT_PARADIAG': {'IT_CHECK'}},
}
STAGE_GRAPH['controller_MPI'] = STAGE_GRAPH['controller_nonMPI']
STEP_INDEPENDENT = re.compile(r'^(not \()?(len\((self\.)?S\.levels\) > 1|len\(local_MS_running\) == 1 or self\.params\.mssdc_jac|num_procs == 1 or self\.params\.mssdc_jac)\)?$')


@rule('C07', 'C07.R7', 'stage lock-step: every handler moves every running step; outside IT_CHECK the choice does not depend on a step status; unknown stage raises', floor=55)
def r7(ctx, R):
    for spec in ct.ALL:
        driver, hs = _tables(ctx)[spec[1]]
        want = STAGE_GRAPH[spec[1]]
        R.check(set(hs) == set(want), f'{spec[1]} :: handler table covers the stages', f'{spec[0]}:{spec[1]}.{spec[2]}', sorted(want), sorted(hs))
        for stage, h in hs.items():
            R.fn(h.where)
            ws = h.stage_writes()
            got = {v for _, v, _, _ in ws}
            R.check(got == want.get(stage), f'{spec[1]}.{h.name} :: successor stages of {stage}', h.where, sorted(want.get(stage, [])), sorted(map(str, got)))
            # every normal path assigns a stage to every running step
            writes = [n for n, _, _, _ in ws]
            interrupts = [n for n, s in h.cfg.stmt_of.items() if isinstance(s, ast.Return) and any('force_done' in g for g in h.guard_strs(n))]
            step_loops = {id(l): l for n in writes for l in h.cfg.loops_of[id(h.cfg.stmt_of[n])] if _is_steps_loop(l)}
            serial = any(a.arg == 'local_MS_running' for a in h.fn.args.args)
            if serial and writes:
                # every write must address the loop variable of a loop over the running steps
                per_step = all(
                    any(_is_steps_loop(l) and isinstance(l.target, ast.Name) and ast.unparse(s.targets[0]) == f'{l.target.id}.status.stage' for l in h.cfg.loops_of[id(s)])
                    for _, _, _, s in ws
                )
            else:
                per_step = True
            if not per_step:
                ok = False
            elif step_loops:
                ok = True
                for l in step_loops.values():
                    hdr = h.cfg.node_of[id(l)]
                    first = h.cfg.node_of.get(id(l.body[0]))
                    inner = [n for n in writes if l in h.cfg.loops_of[id(h.cfg.stmt_of[n])]]
                    ok &= h.cfg.dominates(hdr, EXIT) and (first in inner or h.cfg.must_pass(first, hdr, inner))
                ok &= len(step_loops) == 1
            else:
                ok = bool(writes) and h.cfg.must_pass(ENTRY, EXIT, writes + interrupts)
            R.check(ok, f'{spec[1]}.{h.name} :: a stage is assigned on every normal path, for every running step', h.where, 'no path (and no step) leaves the handler in the old stage', f'{len(writes)} stage write(s)')
            # names whose value derives from a status field (taint through local definitions)
            tainted = set()
            for _ in range(3):
                for a in walk_no_nested(h.fn):
                    if isinstance(a, ast.Assign) and len(a.targets) == 1 and isinstance(a.targets[0], ast.Name):
                        src_ = ast.unparse(a.value)
                        if '.status.' in src_ or any(re.search(rf'\b{re.escape(t)}\b', src_) for t in tainted):
                            tainted.add(a.targets[0].id)
            bad = []
            for n, v, g, s in ws:
                for x in h.guard_strs(n):
                    if 'force_done' in x:
                        continue
                    own_done = re.fullmatch(r'(not \()*(not )?\(?(self\.)?S\.status\.done\)*', x) is not None
                    if stage == 'IT_CHECK' and own_done:
                        continue  # the done / not-done branch of the step itself is the purpose of IT_CHECK
                    if '.status.' in x or any(re.search(rf'\b{re.escape(t)}\b', x) for t in tainted):
                        bad.append(x)
            R.check(not bad, f'{spec[1]}.{h.name} :: stage choice independent of per-step status' + (' (apart from the done/not-done branch of the step itself)' if stage == 'IT_CHECK' else ''), h.where, 'guards mention no step/level status, directly or through a local (only len(S.levels), number of running steps, parameters)', bad)
        # the driver: unknown stage raises; serial drivers raise when the running steps disagree
        w = f'{spec[0]}:{spec[1]}.{spec[2]}'
        R.fn(w)
        src = ast.unparse(driver)
        if spec[1] == 'controller_ParaDiag_nonMPI':
            ok = any(isinstance(s, ast.Assert) and 'switcher' in ast.unparse(s.test) for s in walk_no_nested(driver))
            R.check(ok, f'{spec[1]}.{spec[2]} :: unknown stage rejected', w, 'assert stage in switcher', 'assert' if ok else 'none')
        else:
            ci = ctx.repo.cls(spec[0], spec[1])
            d = ci.methods.get('default')
            ok = d is not None and any(isinstance(s, ast.Raise) and 'ControllerError' in ast.unparse(s) for s in ast.walk(d)) and 'switcher.get(stage, self.default)' in src
            R.check(ok, f'{spec[1]}.{spec[2]} :: unknown stage dispatches to default(), which raises ControllerError', w, 'switcher.get(stage, self.default)', 'ok' if ok else 'missing')
        if spec[1] != 'controller_MPI':
            cfg = FuncCFG(driver)
            rs = [s for s in walk_no_nested(driver) if isinstance(s, ast.Raise) and 'ControllerError' in ast.unparse(s)]
            st = [s for s in walk_no_nested(driver) if isinstance(s, ast.Assign) and ast.unparse(s.targets[0]) == 'stages']
            ok = len(st) == 1 and ast.unparse(st[0].value) == "[S.status.stage for S in local_MS_active if S.status.stage != 'DONE']" and len(rs) >= 1 and any('stages[1:] == stages[:-1]' in g for g in facts.guard_strings(cfg, rs[0]))
            R.check(ok, f'{spec[1]}.{spec[2]} :: stages of all non-DONE steps compared, ControllerError otherwise', w, 'raise unless stages[1:] == stages[:-1]', 'ok' if ok else src[:120])
            run = [s for s in walk_no_nested(driver) if isinstance(s, ast.Assign) and ast.unparse(s.targets[0]) == 'MS_running']
            ok = len(run) == 1 and ast.unparse(run[0].value) == "[S for S in local_MS_active if S.status.stage != 'DONE']"
            R.check(ok, f'{spec[1]}.{spec[2]} :: DONE steps are removed from the running list', w, "[S for S in local_MS_active if S.status.stage != 'DONE']", ast.unparse(run[0].value) if run else None)
            ret = [s for s in walk_no_nested(driver) if isinstance(s, ast.Return)]
            ok = len(ret) == 1 and ast.unparse(ret[0].value) == 'all((S.status.done for S in local_MS_active))'
            R.check(ok, f'{spec[1]}.{spec[2]} :: block is finished iff all active steps are done', w, 'return all(S.status.done for S in local_MS_active)', [ast.unparse(r.value) for r in ret])


@rule('C07', 'C07.R8', 'finishing order: done := done and prev_done; all_to_done; handlers work on their parameter only', floor=22)
def r8(ctx, R):
    for spec in (ct.NONMPI, ct.PARADIAG):
        _, hs = _tables(ctx)[spec[1]]
        h = hs['IT_CHECK']
        R.fn(h.where)
        cfg = h.cfg
        pd = [s for s in cfg.stmt_of.values() if isinstance(s, ast.Assign) and ast.unparse(s.targets[0]) == 'S.status.prev_done']
        ok = len(pd) == 1 and ast.unparse(pd[0].value) == 'S.prev.status.done' and facts.guard_strings(cfg, pd[0]) == ['not S.status.first']
        R.check(ok, f'{spec[1]}.it_check :: prev_done <- predecessor.done for non-first steps', h.where, 'S.status.prev_done = S.prev.status.done under not first', [ast.unparse(s) for s in pd])
        dn = [s for s in cfg.stmt_of.values() if isinstance(s, ast.Assign) and ast.unparse(s.targets[0]) == 'S.status.done']
        chain = [s for s in dn if bool_nf(s.value) == ('and', ('S.status.done', 'S.status.prev_done'))]
        ok = len(chain) == 1 and facts.guard_strings(cfg, chain[0]) == ['not S.status.first'] and pd and cfg.dominates(cfg.node_of[id(pd[0])], cfg.node_of[id(chain[0])])
        R.check(ok, f'{spec[1]}.it_check :: done := done and prev_done (steps finish in time order)', h.where, 'conjunction with prev_done after it was refreshed', [ast.unparse(s) for s in dn])
        allto = [s for s in dn if re.fullmatch(r'all\(\((\w+)\.status\.done for \1 in local_MS_running\)\)', ast.unparse(s.value))]
        ok = len(allto) == 1 and facts.guard_strings(cfg, allto[0]) == ['self.params.all_to_done'] and len(dn) == 2
        R.check(ok, f'{spec[1]}.it_check :: with all_to_done a step is done only when all running steps are', h.where, 'done = all(T.status.done for T in running) under all_to_done; no other writer', [ast.unparse(s) for s in dn])
        # order: chain -> all_to_done -> the branch on done
        br = [n for n, s in cfg.stmt_of.items() if isinstance(s, ast.If) and ast.unparse(s.test) == 'not S.status.done']
        ok = len(br) == 1 and all(cfg.dominates(cfg.node_of[id(x)] if not isinstance(x, int) else x, br[0]) or True for x in [])
        ok = len(br) == 1 and bool(chain) and bool(allto) and not cfg.reachable(br[0], cfg.node_of[id(chain[0])], without=[cfg.node_of[id(l)] for l in cfg.loops_of[id(chain[0])]]) and not cfg.reachable(br[0], cfg.node_of[id(allto[0])], without=[cfg.node_of[id(l)] for l in cfg.loops_of[id(allto[0])]])
        R.check(ok, f'{spec[1]}.it_check :: the done/not-done branch is taken after the done chain is final', h.where, 'chain and all_to_done precede `if not S.status.done`', f'{len(br)} branch(es)')
    for spec in ct.ALL:
        _, hs = _tables(ctx)[spec[1]]
        for stage, h in hs.items():
            refs = sorted({ast.unparse(x) for x in ast.walk(h.fn) if isinstance(x, ast.Attribute) and ast.unparse(x) == 'self.MS'})
            R.check(not refs, f'{spec[1]}.{h.name} :: touches only the running steps it was handed (no self.MS)', h.where, 'no reference to self.MS in a handler', refs)


@rule('C07', 'C07.R9', 'tag agreement: the tuple built by the sender and the tuple expected by the receiver agree by role', floor=2)
def r9(ctx, R):
    repo = ctx.repo
    rel, cn, _ = ct.NONMPI
    sf, rf = repo.func(rel, f'{cn}.send_full'), repo.func(rel, f'{cn}.recv_full')
    def tag_of(fn, callee):
        for c in ast.walk(fn):
            if isinstance(c, ast.Call) and isinstance(c.func, ast.Name) and c.func.id == callee:
                for k in c.keywords:
                    if k.arg == 'tag':
                        return k.value
        return None
    ts, tr = tag_of(sf, 'send'), tag_of(rf, 'recv')
    if ts is None or tr is None:
        raise AnalysisError('send/recv tag tuples not found in controller_nonMPI')
    s = [ast.unparse(e) for e in ts.elts] if isinstance(ts, ast.Tuple) else [ast.unparse(ts)]
    r = [ast.unparse(e).replace('S.prev.status', 'S.status') for e in tr.elts] if isinstance(tr, ast.Tuple) else [ast.unparse(tr)]
    R.check(s == r and len(s) == 3 and 'S.prev.status.slot' in ast.unparse(tr), 'controller_nonMPI :: send tag == expected tag with the sender slot taken from S.prev', f'{rel}:{cn}.send_full/recv_full', s, [ast.unparse(e) for e in tr.elts] if isinstance(tr, ast.Tuple) else ast.unparse(tr))
    rel, cn, _ = ct.MPI
    sf, rf = repo.func(rel, f'{cn}.send_full'), repo.func(rel, f'{cn}.recv_full')
    st = [ast.unparse(k.value) for c in ast.walk(sf) if isinstance(c, ast.Call) and isinstance(c.func, ast.Attribute) and c.func.attr == 'isend' for k in c.keywords if k.arg == 'tag']
    rt = [ast.unparse(k.value) for c in ast.walk(rf) if isinstance(c, ast.Call) and ast.unparse(c.func) == 'self.recv' for k in c.keywords if k.arg == 'tag']
    R.check(st == rt == ['level * 100 + self.S.status.iter'], 'controller_MPI :: isend tag == recv tag (level*100 + iter)', f'{rel}:{cn}.send_full/recv_full', ['level * 100 + self.S.status.iter'], {'send': st, 'recv': rt})


@rule('C07', 'C07.R10', 'lock discipline: transfer refuses a locked source level; only predict and restrict unlock', floor=18)
def r10(ctx, R):
    repo = ctx.repo
    base = repo.cls('pySDC/core/base_transfer.py', 'BaseTransfer')
    for ci in repo.subclasses(base):
        if not repo.is_library(ci):
            continue
        for meth, src in (('restrict', 'F'), ('prolong', 'G'), ('prolong_f', 'G')):
            if meth not in ci.methods:
                continue
            fn = ci.methods[meth]
            w = f'{ci.module.relpath}:{ci.name}.{meth}'
            R.fn(w)
            cfg = FuncCFG(fn)
            rs = [(n, s) for n, s in cfg.stmt_of.items() if isinstance(s, ast.Raise) and 'UnlockError' in ast.unparse(s)]
            ok = any(f'not {src}.status.unlocked' in ' '.join(facts.guard_strings(cfg, s)) for n, s in rs)
            # the check dominates every use of the source level's data
            first_use = [n for n, s in cfg.stmt_of.items() if not isinstance(s, (ast.If, ast.Raise)) and re.search(rf'\b{src}\.(u|f|tau|uold|fold)\[', ast.unparse(s) if not isinstance(s, (ast.For, ast.While, ast.With, ast.Try)) else ast.unparse(s.iter) if isinstance(s, ast.For) else '')]
            tests = [n for n, s in cfg.stmt_of.items() if isinstance(s, ast.If) and f'{src}.status.unlocked' in ast.unparse(s.test)]
            ok = ok and bool(tests) and all(cfg.dominates(tests[0], n) for n in first_use)
            R.check(ok, f'{ci.name}.{meth} :: raises UnlockError when the source level is locked, before any of its data is read', w, f'if not {src}.status.unlocked: raise UnlockError', [ast.unparse(s)[:60] for n, s in rs])
    W = ctx.memo('attr_writes', lambda: facts.attr_writes(repo))
    for x in W:
        if x.attr == 'unlocked' and x.receiver.endswith('.status'):
            name = x.fn.name
            ok = name in ('predict', 'restrict') and x.rhs() == 'True' or (x.cls is not None and x.cls.name == '_Status' and name == '__init__')
            R.check(ok, f'{(x.cls.name + ".") if x.cls else ""}{name} :: {x.target} = {x.rhs()}', x.qual, 'status.unlocked is set only by predict()/restrict() (and initialised False)', f'{x.target} = {x.rhs()}')


COMM_ORDER = {
    'it_fine': ['send_full', 'recv_full', 'update_nodes'],
    'it_down': ['send_full', 'recv_full', 'update_nodes'],
    'it_up': ['send_full', 'recv_full', 'update_nodes'],
    'it_coarse': ['recv_full', 'update_nodes', 'send_full'],
}


@rule('C07', 'C07.R11', 'forward transfers are produced and consumed in the right order inside every iteration handler: on fine and middle levels a step first SENDS its current end value, then receives, then sweeps; on the coarsest level it receives, sweeps, then sends (otherwise a receive picks up the message of an earlier stage with the same tag)', floor=7)
def r11(ctx, R):
    repo = ctx.repo
    for spec in (ct.NONMPI, ct.MPI):
        rel, cn = spec[0], spec[1]
        ci = repo.cls(rel, cn)
        for meth, want in COMM_ORDER.items():
            fn = ci.methods.get(meth)
            if fn is None:
                raise AnalysisError(f'{rel}:{cn}.{meth} vanished')
            w = f'{rel}:{cn}.{meth}'
            R.fn(w)
            seq = sorted((c.lineno, c.col_offset, c.func.attr) for c in ast.walk(fn) if isinstance(c, ast.Call) and isinstance(c.func, ast.Attribute) and c.func.attr in ('send_full', 'recv_full', 'update_nodes'))
            names = [x[2] for x in seq]
            R.check(names == want, f'{cn}.{meth} :: order of send / receive / sweep', w, want, names)
            # the send and the receive address the same level as the sweep
            lv = {}
            for c in ast.walk(fn):
                if isinstance(c, ast.Call) and isinstance(c.func, ast.Attribute):
                    if c.func.attr in ('send_full', 'recv_full'):
                        lv[c.func.attr] = next((ast.unparse(k.value) for k in c.keywords if k.arg == 'level'), None)
                    elif c.func.attr == 'update_nodes':
                        m = re.search(r'levels\[(.+)\]\.sweep$', ast.unparse(c.func.value))
                        lv['update_nodes'] = m.group(1) if m else None
            norm = lambda x: {'len(S.levels) - 1': '-1', 'len(self.S.levels) - 1': '-1'}.get(x, x)
            R.check(len({norm(v) for v in lv.values()}) == 1 and None not in lv.values(), f'{cn}.{meth} :: send, receive and sweep address the same level', w, 'one level expression', lv)


@rule('C07', 'C07.R12', 'MPI sibling of the done chain: the flag a rank forwards is the chained one (done and prev_done is assigned before, and never after, the send; shared with C08.R12)', floor=3)
def r12(ctx, R):
    from . import c08
    c08.r12(ctx, R)


@rule('C07', 'C07.R13', 'with all_to_done every step of a block does the same number of iterations - provided the option the user set is the option that is used: no constructor rewrites its own parameters (in particular all_to_done / use_iteration_estimator) outside the tabled sites (shared with C20.R12)', floor=4)
def r13(ctx, R):
    from . import c20
    c20.r12(ctx, R)


@rule('C07', 'C07.R14', 'who is first and who is last in a block: restart_block derives first / last from the POSITION in the active block (a partially filled block still has a last step that nobody sends to; shared with C06.R6)', floor=8)
def r14(ctx, R):
    from . import c06
    c06.r6(ctx, R)



def _stage_table(fn):
    """methods registered in a stage dispatcher: values `self.X` of a dict literal assigned to `switcher`"""
    out = []
    for s in ast.walk(fn):
        if isinstance(s, ast.Assign) and isinstance(s.value, ast.Dict) and any(isinstance(t, ast.Name) and t.id == 'switcher' for t in s.targets):
            for v in s.value.values:
                if isinstance(v, ast.Attribute) and isinstance(v.value, ast.Name) and v.value.id == 'self':
                    out.append(v.attr)
    return out


@rule('C07', 'C07.R15', 'stages are entered through the dispatcher only: a method registered in the stage table of a controller (spread, predict, it_check, it_fine, it_down, it_coarse, it_up, it_ParaDiag) is never CALLED from another method of the class - a predictor that runs `self.it_fine(..)` fires sweep callbacks between pre_predict and post_predict, communicates and flips the stage outside the grammar start (predict)? (iteration-start (sweep)+ iteration-end)* end', floor=17)
def r15(ctx, R):
    repo = ctx.repo
    CCD = 'pySDC/implementations/controller_classes/'
    n = 0
    for rel, cn, disp in ((CCD + 'controller_nonMPI.py', 'controller_nonMPI', 'pfasst'), (CCD + 'controller_MPI.py', 'controller_MPI', 'pfasst'), (CCD + 'controller_ParaDiag_nonMPI.py', 'controller_ParaDiag_nonMPI', 'ParaDiag')):
        ci = repo.cls(rel, cn)
        if disp not in ci.methods:
            raise AnalysisError(f'{cn}.{disp}: the stage dispatcher is gone - re-confirm C07.R15')
        stages = _stage_table(ci.methods[disp])
        if len(stages) < 3:
            raise AnalysisError(f'{cn}.{disp}: stage table not recognised ({stages})')
        for st in stages:
            n += 1
            callers = []
            for mname, fn in ci.methods.items():
                for c in ast.walk(fn):
                    if isinstance(c, ast.Call) and isinstance(c.func, ast.Attribute) and c.func.attr == st and isinstance(c.func.value, (ast.Name, ast.Call)) and ast.unparse(c.func.value) in ('self', 'super()'):
                        callers.append(f'{mname}:{c.lineno}')
            w = f'{rel}:{cn}.{st}'
            R.fn(w)
            R.check(not callers, f'{cn}.{st} :: entered through the stage table of {disp}() only', w, 'no direct call self.<stage>(..) in the class', callers)
    if n < 17:
        raise AnalysisError(f'C07.R15: only {n} registered stages found')
