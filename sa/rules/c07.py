"""rules for c07 (under construction)"""
