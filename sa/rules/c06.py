"""rules for c06 (under construction)"""
