"""C06 - accepted steps tile [t0, Tend] and chain their values (structural clauses)."""

import ast
import re

from ..cfg import FuncCFG, walk_no_nested
from ..model import AnalysisError
from ..norm import Normalizer, bool_nf
from ..runner import rule
from .. import controllers as ct
from .. import facts

SERIAL = (ct.NONMPI, ct.PARADIAG)


def _assigns(fn, name):
    return [s for s in walk_no_nested(fn) if isinstance(s, ast.Assign) and any(ast.unparse(t) == name for t in s.targets)]


def _calls(fn, attr):
    return [c for c in ast.walk(fn) if isinstance(c, ast.Call) and isinstance(c.func, ast.Attribute) and c.func.attr == attr]


@rule('C06', 'C06.R1', 'value chain: the value carried to the next block / returned is uend of the last step (or u[0] of the first restarted step); init_step copies it', floor=12)
def r1(ctx, R):
    repo = ctx.repo
    for rel, cn, _ in SERIAL:
        fn = repo.func(rel, f'{cn}.run')
        w = f'{rel}:{cn}.run'
        R.fn(w)
        cfg = FuncCFG(fn)
        ret = [s for s in walk_no_nested(fn) if isinstance(s, ast.Return)]
        if len(ret) != 1 or not isinstance(ret[0].value, ast.Tuple) or not isinstance(ret[0].value.elts[0], ast.Name):
            raise AnalysisError(f'{w}: `return <name>, stats` not found')
        var = ret[0].value.elts[0].id
        u0p = fn.args.args[1].arg
        defs = _assigns(fn, var)
        got = sorted((ast.unparse(s.value), tuple(g for g in facts.guard_strings(cfg, s) if 'restarts' in g)) for s in defs)
        want = sorted([
            ('None', ()),
            ('self.MS[restart_at].levels[0].u[0]', ('True in restarts',)),
            ('self.MS[active_slots[-1]].levels[0].uend', ('not (True in restarts)',)),
        ])
        if got != want and cn == 'controller_nonMPI':
            # equivalent spelling through the `last` flag: exactly one step carries it and it is the last ACTIVE one, provided
            # restart_block clears the flag on the steps outside the block (C14.R10 checks that; re-checked here)
            alt = sorted([('None', ()), ('self.MS[restart_at].levels[0].u[0]', ('True in restarts',)), ('[S.levels[0].uend for S in self.MS if S.status.last][-1]', ('not (True in restarts)',))])
            rbn = Normalizer(repo.func(rel, f'{cn}.restart_block'), inline_scalars=False)
            cleared = sorted(c.describe() for c in rbn.contribs if re.fullmatch(r'self\.MS\[.+\]\.status\.last', c.target) and c.rhs == 'False' and 'not in active_slots' in c.describe())
            if got == alt and len(cleared) == 1:
                R.ok(f'{cn}.run :: definitions of the carried value `{var}`', w, found='uend of the step flagged `last` (equivalent: restart_block leaves the flag on the last active step only)')
            else:
                R.check(False, f'{cn}.run :: definitions of the carried value `{var}`', w, want, got)
        else:
            R.check(got == want, f'{cn}.run :: definitions of the carried value `{var}`', w, want, got)
        rb = [c for c in _calls(fn, 'restart_block')]
        args = sorted(ast.unparse(c.args[2]) if len(c.args) > 2 else '?' for c in rb)
        R.check(args == sorted([u0p, var]), f'{cn}.run :: restart_block receives the caller\'s u0 first, then the carried value', w, [u0p, var], args)
        # in-loop call comes after both arms (the If dominates it)
        inloop = [c for c in rb if len(c.args) > 2 and ast.unparse(c.args[2]) == var]
        arms = [n for n, s in cfg.stmt_of.items() if isinstance(s, ast.If) and ast.unparse(s.test) == 'True in restarts']
        call_nodes = [n for n, s in cfg.stmt_of.items() if isinstance(s, ast.Expr) and s.value in inloop]
        ok = len(arms) == 1 and len(call_nodes) == 1 and cfg.dominates(arms[0], call_nodes[0])
        R.check(ok, f'{cn}.run :: both arms (restart / advance) precede the next restart_block', w, 'if True in restarts: .. else: .. dominates restart_block(.., carried)', f'{len(arms)} branch(es), {len(call_nodes)} call(s)')
        # restart_block hands its third parameter to init_step of every active step
        rbf = repo.func(rel, f'{cn}.restart_block')
        w2 = f'{rel}:{cn}.restart_block'
        R.fn(w2)
        p3 = rbf.args.args[3].arg
        ini = _calls(rbf, 'init_step')
        c2 = FuncCFG(rbf)
        ok = len(ini) == 1 and [ast.unparse(a) for a in ini[0].args] == [p3] and not _assigns(rbf, p3)
        if ok:
            node = [n for n, s in c2.stmt_of.items() if isinstance(s, ast.Expr) and s.value is ini[0]][0]
            lp = c2.loops_of[id(c2.stmt_of[node])]
            ok = len(lp) == 1 and ast.unparse(lp[0].iter) == 'range(len(active_slots))' and not c2.guards[id(c2.stmt_of[node])]
        R.check(ok, f'{cn}.restart_block :: init_step({p3}) for every active slot, unconditionally', w2, f'self.MS[p].init_step({p3}) in the loop over active_slots', [ast.unparse(c) for c in ini])
    # Step.init_step stores a fresh copy
    rel = 'pySDC/core/step.py'
    fn = repo.func(rel, 'Step.init_step')
    w = f'{rel}:Step.init_step'
    R.fn(w)
    N = Normalizer(fn)
    st = [c for c in N.contribs if c.target == 'self.levels[0].u[0]']
    p = fn.args.args[1].arg
    ok = len(st) == 1 and st[0].op == '=' and st[0].rhs == f'self.levels[0].prob.dtype_u({p})' and not st[0].guards
    R.check(ok, 'Step.init_step :: levels[0].u[0] = dtype_u(u0) (copy through the datatype, never the caller\'s object)', w, f'self.levels[0].u[0] = P.dtype_u({p})', [c.describe() for c in st])
    # MPI sibling
    rel, cn, _ = ct.MPI
    fn = repo.func(rel, f'{cn}.run')
    w = f'{rel}:{cn}.run'
    R.fn(w)
    cfg = FuncCFG(fn)
    defs = _assigns(fn, 'uend')
    got = sorted((ast.unparse(s.value), tuple(g for g in facts.guard_strings(cfg, s) if 'restarts' in g)) for s in defs)
    want = sorted([('u0', ()), ('self.S.levels[0].u[0].bcast(root=restart_at, comm=comm_active)', ('True in restarts',)), ('self.S.levels[0].uend.bcast(root=comm_active.size - 1, comm=comm_active)', ('not (True in restarts)',))])
    R.check(got == want, 'controller_MPI.run :: definitions of the carried value `uend`', w, want, got)
    rb = _calls(fn, 'restart_block')
    args = sorted(ast.unparse(c.args[2]) for c in rb if len(c.args) > 2)
    R.check(args == ['u0', 'uend'], 'controller_MPI.run :: restart_block receives u0 first, then the broadcast value', w, ['u0', 'uend'], args)
    rbf = repo.func(rel, f'{cn}.restart_block')
    ini = _calls(rbf, 'init_step')
    R.check(len(ini) == 1 and [ast.unparse(a) for a in ini[0].args] == ['u0'], 'controller_MPI.restart_block :: init_step(u0)', f'{rel}:{cn}.restart_block', 'self.S.init_step(u0)', [ast.unparse(c) for c in ini])


@rule('C06', 'C06.R2', 'time chain: block start = restarted slot time | last time + its dt; later slots = predecessor + predecessor dt; level times from time[p]', floor=10)
def r2(ctx, R):
    repo = ctx.repo
    for rel, cn, _ in SERIAL:
        fn = repo.func(rel, f'{cn}.run')
        w = f'{rel}:{cn}.run'
        R.fn(w)
        cfg = FuncCFG(fn)
        init = _assigns(fn, 'time')
        t0 = fn.args.args[2].arg
        ok = len(init) == 1 and time_table_ok(fn, cn, t0)
        R.check(ok, f'{cn}.run :: initial times are t0 + sum of the preceding step sizes', w, f'[{t0} + sum(self.MS[j].dt for j in range(p)) for p in slots]', [ast.unparse(s.value) for s in init])
        first = [s for s in walk_no_nested(fn) if isinstance(s, ast.Assign) and ast.unparse(s.targets[0]) == 'time[active_slots[0]]']
        got = sorted((ast.unparse(s.value), facts.guard_strings(cfg, s)[-1]) for s in first)
        want = sorted([('time[restart_at]', 'True in restarts'), ('time[active_slots[-1]] + self.MS[active_slots[-1]].dt', 'not (True in restarts)')])
        R.check(got == want, f'{cn}.run :: start time of the next block', w, want, got)
        later = [s for s in walk_no_nested(fn) if isinstance(s, ast.Assign) and ast.unparse(s.targets[0]) == 'time[active_slots[i]]']
        ok = len(later) == 1 and ast.unparse(later[0].value) == 'time[active_slots[i] - 1] + self.MS[active_slots[i] - 1].dt'
        if ok:
            lp = cfg.loops_of[id(later[0])]
            ok = len(lp) == 2 and ast.unparse(lp[-1].iter) == 'range(1, len(active_slots))'
            # it must follow the prepare_next_block calls (which may change dt) and the first-slot assignment
            pnb = [n for n in cfg.stmt_of if any(isinstance(c.func, ast.Attribute) and c.func.attr == 'prepare_next_block' for c in cfg.calls_at(n))]
            ok = ok and len(pnb) >= 1 and all(cfg.dominates(_hdr(cfg, n), cfg.node_of[id(lp[-1])]) for n in pnb)
        R.check(ok, f'{cn}.run :: later slots start where the predecessor ends, using the step sizes fixed for the next block', w, 'time[s_i] = time[s_i - 1] + MS[s_i - 1].dt for i >= 1, after prepare_next_block', [ast.unparse(s) for s in later])
        # other writers of time[...]
        others = [ast.unparse(s.targets[0]) for s in walk_no_nested(fn) if isinstance(s, ast.Assign) and ast.unparse(s.targets[0]).startswith('time[') and s not in first and s not in later]
        R.check(not others, f'{cn}.run :: no other writer of the time table', w, [], others)
        rbf = repo.func(rel, f'{cn}.restart_block')
        N = Normalizer(rbf, inline_scalars=False)
        tm = [c for c in N.contribs if c.target.endswith('.status.time')]
        ok = len(tm) == 1 and tm[0].rhs == 'time[p]' and [l.it for l in tm[0].loops][:1] == ['active_slots']
        R.check(ok, f'{cn}.restart_block :: every level of every active step gets time[p]', f'{rel}:{cn}.restart_block', 'lvl.status.time = time[p] for p in active_slots', [c.describe() for c in tm])
    rel, cn, _ = ct.MPI
    fn = repo.func(rel, f'{cn}.run')
    w = f'{rel}:{cn}.run'
    cfg = FuncCFG(fn)
    td = sorted((ast.unparse(s.value), (facts.guard_strings(cfg, s) or [''])[-1]) for s in _assigns(fn, 'tend'))
    want = sorted([('comm_active.bcast(self.S.time, root=restart_at)', 'True in restarts'), ('comm_active.bcast(self.S.time + self.S.dt, root=comm_active.size - 1)', 'not (True in restarts)')])
    R.check(td == want, 'controller_MPI.run :: start time of the next block (restarted step time | last step end)', w, want, td)
    tm = sorted(ast.unparse(s.value) for s in _assigns(fn, 'time'))
    R.check(tm == sorted(['t0 + sum(all_dt[:self.comm.rank])', 'tend + sum(all_dt[:self.S.status.slot])']), 'controller_MPI.run :: rank time = block start + preceding step sizes', w, 'tend + sum(all_dt[:slot])', tm)


def _hdr(cfg, n):
    """outermost enclosing loop header of node n inside the main while loop (or n)"""
    st = cfg.stmt_of[n]
    lp = cfg.loops_of[id(st)]
    if len(lp) >= 2:
        return cfg.node_of[id(lp[1])]
    return n


_EPS = r'10 \* np\.finfo\(float\)\.eps'


def _local_defs(fn):
    d = {}
    for x in walk_no_nested(fn):
        if isinstance(x, ast.Assign) and len(x.targets) == 1 and isinstance(x.targets[0], ast.Name):
            d.setdefault(x.targets[0].id, []).append(x.value)
    return {k: v[0] for k, v in d.items() if len(v) == 1 or all(ast.unparse(a) == ast.unparse(v[0]) for a in v)}


def _depends_on(node, name, defs, depth=0):
    for n in ast.walk(node):
        if isinstance(n, ast.Name):
            if n.id == name:
                return True
            if depth < 4 and n.id in defs and _depends_on(defs[n.id], name, defs, depth + 1):
                return True
    return False


def _activity_tests(fn):
    """comparisons of a time against (something derived from) the final time"""
    tend = fn.args.args[3].arg
    defs = _local_defs(fn)
    out = []
    for x in walk_no_nested(fn):
        if isinstance(x, ast.Compare) and len(x.ops) == 1 and isinstance(x.ops[0], (ast.Lt, ast.GtE, ast.LtE, ast.Gt)):
            sides = [x.left, x.comparators[0]]
            if 'finfo' in ast.unparse(x) or (any(_depends_on(s_, tend, defs) for s_ in sides) and any('time' in ast.unparse(s_) for s_ in sides) and 'dt' not in ast.unparse(x)):
                out.append(x)
    return out


def _threshold_verdict(expr, tend, defs):
    """finite sign-case analysis of a non-canonical activity threshold thr(Tend): it must never lie beyond Tend.
    Returns (ok, text).  The expression is read from the AST and evaluated symbolically with sympy (no pySDC code runs)."""
    import sympy

    e = sympy.Symbol('eps', positive=True)

    class Inl(ast.NodeTransformer):
        def visit_Name(self, n):
            if n.id in defs and n.id != tend:
                return self.visit(ast.parse(ast.unparse(defs[n.id]), mode='eval').body)
            return n

    expr = Inl().visit(ast.parse(ast.unparse(expr), mode='eval').body)

    def conv(n, T):
        if isinstance(n, ast.Constant) and isinstance(n.value, (int, float)):
            return sympy.nsimplify(n.value)
        if isinstance(n, ast.Name) and n.id == tend:
            return T
        if ast.unparse(n) == 'np.finfo(float).eps':
            return e
        if isinstance(n, ast.BinOp) and isinstance(n.op, (ast.Add, ast.Sub, ast.Mult, ast.Div)):
            a, b = conv(n.left, T), conv(n.right, T)
            return {ast.Add: a + b, ast.Sub: a - b, ast.Mult: a * b, ast.Div: a / b}[type(n.op)]
        if isinstance(n, ast.UnaryOp) and isinstance(n.op, ast.USub):
            return -conv(n.operand, T)
        if isinstance(n, ast.Call) and ast.unparse(n.func) in ('abs', 'np.abs') and len(n.args) == 1:
            return sympy.Abs(conv(n.args[0], T))
        raise AnalysisError(f'activity threshold `{ast.unparse(expr)}`: `{ast.unparse(n)}` is outside the vocabulary of the threshold analysis')

    def cond_holds(test, val):
        c = ast.unparse(test).replace(tend, f'({val})').replace('np.finfo(float).eps', '2.2e-16')
        try:
            return bool(eval(c, {'abs': abs, '__builtins__': {}}))  # a comparison of numbers only
        except Exception:
            raise AnalysisError(f'activity threshold: cannot evaluate the arm condition `{ast.unparse(test)}`')

    arms = [(None, expr)]
    if isinstance(expr, ast.IfExp):
        arms = [(('pos', expr.test), expr.body), (('neg', expr.test), expr.orelse)]
    bad = []
    for cond, body in arms:
        for sign, T, samples in (('Tend > 0', sympy.Symbol('T', positive=True), (0.5, 2.0, 1e6)), ('Tend < 0', sympy.Symbol('T', negative=True), (-0.5, -2.0, -1e6))):
            if cond is not None:
                feas = [v for v in samples if cond_holds(cond[1], v) == (cond[0] == 'pos')]
                if not feas:
                    continue
            d = sympy.simplify(conv(body, T) - T)
            if not d.is_negative:
                bad.append(f'{ast.unparse(body)} for {sign}: threshold - Tend = {d}, not < 0')
    return (not bad, '; '.join(bad) if bad else 'never beyond Tend in every sign case')


@rule('C06', 'C06.R3', 'activity predicate agrees at every site: t < Tend - 10*eps; nothing to do raises; loop runs while any step is active', floor=12)
def r3(ctx, R):
    repo = ctx.repo
    n_sites = 0
    for rel, cn, _ in ct.ALL:
        fn = repo.func(rel, f'{cn}.run')
        w = f'{rel}:{cn}.run'
        R.fn(w)
        tend = fn.args.args[3].arg
        for x in _activity_tests(fn):
            s = bool_nf(x)
            n_sites += 1
            ok = re.fullmatch(rf'.+ < {tend} - {_EPS}', s) is not None or re.fullmatch(rf'{tend} - {_EPS} <= .+', s) is not None
            if not ok and isinstance(x.ops[0], (ast.Lt, ast.GtE)) and not _depends_on(x.left, tend, _local_defs(fn)):
                # another threshold than Tend - 10*eps: accepted only if it can never lie beyond Tend (sign-case analysis)
                v, txt = _threshold_verdict(x.comparators[0], tend, _local_defs(fn))
                R.check(v, f'{cn}.run :: activity test `{ast.unparse(x)}` (non-canonical threshold)', w, 'a threshold strictly below Tend for every real Tend (a step starting at Tend, up to rounding, is never active)', txt)
                continue
            R.check(ok, f'{cn}.run :: activity test `{ast.unparse(x)}`', w, f'<time> < {tend} - 10*eps (or its exact negation)', s)
        cfg = FuncCFG(fn)
        rs = [(n, s) for n, s in cfg.stmt_of.items() if isinstance(s, ast.Raise) and 'ControllerError' in ast.unparse(s)]
        ok = any(re.search(r'not any\(active\)|not active', ' '.join(facts.guard_strings(cfg, s))) for n, s in rs)
        R.check(ok, f'{cn}.run :: raises ControllerError when no step is active initially', w, 'raise under not any(active)', [facts.guard_strings(cfg, s) for n, s in rs])
        wl = [s for s in walk_no_nested(fn) if isinstance(s, ast.While) and ast.unparse(s.test) in ('any(active)', 'active')]
        R.check(len(wl) == 1, f'{cn}.run :: main loop runs while a step is active', w, 'while any(active)', [ast.unparse(s.test) for s in walk_no_nested(fn) if isinstance(s, ast.While)])
    if n_sites < 7:
        raise AnalysisError(f'C06.R3: only {n_sites} activity tests found, 8 confirmed by hand')


@rule('C06', 'C06.R4', 'kept steps: post_step_processing runs for the steps before the first restarted one', floor=4)
def r4(ctx, R):
    repo = ctx.repo
    for rel, cn, _ in SERIAL:
        fn = repo.func(rel, f'{cn}.run')
        w = f'{rel}:{cn}.run'
        R.fn(w)
        ra = _assigns(fn, 'restart_at')
        ok = len(ra) == 1 and ast.unparse(ra[0].value) == 'np.where(restarts)[0][0] if True in restarts else len(MS_active)'
        R.check(ok, f'{cn}.run :: restart_at is the FIRST step that asks for a restart', w, 'np.where(restarts)[0][0] if True in restarts else len(MS_active)', [ast.unparse(s.value) for s in ra])
        cfg = FuncCFG(fn)
        ps = [n for n in cfg.stmt_of if any(isinstance(c.func, ast.Attribute) and c.func.attr == 'post_step_processing' for c in cfg.calls_at(n))]
        ok = len(ps) == 1
        if ok:
            lp = cfg.loops_of[id(cfg.stmt_of[ps[0]])]
            ok = any(ast.unparse(l.iter) == 'MS_active[:restart_at]' for l in lp if isinstance(l, ast.For))
        R.check(ok, f'{cn}.run :: post_step_processing for MS_active[:restart_at] only', w, 'for S in MS_active[:restart_at]', f'{len(ps)} call site(s)')
    rel, cn, _ = ct.MPI
    fn = repo.func(rel, f'{cn}.run')
    cfg = FuncCFG(fn)
    ps = [n for n in cfg.stmt_of if any(isinstance(c.func, ast.Attribute) and c.func.attr == 'post_step_processing' for c in cfg.calls_at(n))]
    ok = len(ps) == 1 and 'not self.S.status.restart' in facts.guard_strings(cfg, cfg.stmt_of[ps[0]])
    R.check(ok, 'controller_MPI.run :: post_step_processing only on ranks that do not restart', f'{rel}:{cn}.run', 'if not self.S.status.restart', f'{len(ps)} site(s)')


@rule('C06', 'C06.R5', 'scale-unaware tolerance: an accumulated float time compared against Tend minus an ABSOLUTE multiple of eps', floor=7)
def r5(ctx, R):
    """contradiction pattern: the threshold does not scale with |t| / |Tend|, the accumulated error does"""
    repo = ctx.repo
    for rel, cn, _ in ct.ALL:
        fn = repo.func(rel, f'{cn}.run')
        w = f'{rel}:{cn}.run'
        R.fn(w)
        k = {}
        for x in _activity_tests(fn):
            src = ast.unparse(x)
            thr = ast.unparse(x.comparators[0])
            defs = _local_defs(fn)
            for _ in range(3):  # resolve local names of the threshold
                thr = re.sub(r'\b([A-Za-z_]\w*)\b', lambda m: f'({ast.unparse(defs[m.group(1)])})' if m.group(1) in defs and m.group(1) != fn.args.args[3].arg else m.group(1), thr)
            scaled = re.search(r'abs\(|max\(|np\.spacing|nextafter|isclose', thr) is not None
            i = k.get(src, 0)
            k[src] = i + 1
            c = f'{cn}.run :: `{src}` #{i}'
            if scaled:
                R.ok(c, w, found='threshold scales with the magnitude of the operands')
            else:
                R.bad(c, w, 'a tolerance relative to |t| or |Tend| (or an integer step count)', f'absolute threshold {thr}')


RB_SERIAL = {
    'self.MS[p].status.slot': 'p', 'self.MS[p].prev': 'self.MS[active_slots[i1 - 2]]',
    'self.MS[p].status.first': 'active_slots.index(p) == 0', 'self.MS[p].status.last': 'active_slots.index(p) == len(active_slots) - 1',
    'self.MS[p].status.done': 'False', 'self.MS[p].status.prev_done': 'False', 'self.MS[p].status.iter': '0', 'self.MS[p].status.stage': "'SPREAD'",
    'self.MS[p].status.force_done': 'False', 'self.MS[p].status.time_size': 'len(active_slots)',
}
RB_MPI = {
    'self.S.prev': '(self.S.status.slot - 1) % size', 'self.S.next': '(self.S.status.slot + 1) % size', 'self.S.status.first': 'self.S.prev == size - 1',
    'self.S.status.last': 'self.S.next == 0', 'self.S.status.done': 'False', 'self.S.status.prev_done': 'False', 'self.S.status.iter': '0',
    'self.S.status.stage': "'SPREAD'", 'self.S.status.force_done': 'False', 'self.S.status.time_size': 'size',
}


@rule('C06', 'C06.R6', 'restart_block: every active step p gets slot p, its predecessor, first/last from its position, a fresh status, and u0', floor=30)
def r6(ctx, R):
    repo = ctx.repo
    for rel, cn, _ in ct.ALL:
        fn = repo.func(rel, f'{cn}.restart_block')
        w = f'{rel}:{cn}.restart_block'
        R.fn(w)
        N = Normalizer(fn, inline_scalars=False)
        want = RB_MPI if cn == 'controller_MPI' else RB_SERIAL
        got = {}
        for c in N.contribs:
            if c.target in want and c.op == '=':
                got.setdefault(c.target, []).append(c)
        for tgt, rhs in want.items():
            cs = got.get(tgt, [])
            ok = len(cs) == 1 and cs[0].rhs == rhs and not cs[0].guards
            if ok and cn != 'controller_MPI':
                ok = len(cs[0].loops) == 1 and repr(cs[0].loops[0]) == 'i1=1..len(active_slots)'
            R.check(ok, f'{cn}.restart_block :: {tgt} = {rhs}', w, f'one unconditional assignment per active slot: {rhs}', [c.describe()[:120] for c in cs])
        if cn != 'controller_MPI':
            p = [c for c in N.contribs if c.target == 'p' and c.op == '=' and c.loops and c.loops[0].kind == 'range']
            R.check(len(p) == 1 and p[0].rhs == 'active_slots[i1 - 1]', f'{cn}.restart_block :: p is the j-th active slot', w, 'p = active_slots[j]', [c.describe() for c in p])


@rule('C06', 'C06.R7', 'a block is iterated until every active step is done, then the next block is prepared (the run does not stop early)', floor=6)
def r7(ctx, R):
    repo = ctx.repo
    for rel, cn, driver in SERIAL:
        fn = repo.func(rel, f'{cn}.run')
        w = f'{rel}:{cn}.run'
        R.fn(w)
        inner = [l for l in walk_no_nested(fn) if isinstance(l, ast.While) and ast.unparse(l.test) == 'not done']
        ok = len(inner) == 1 and len(inner[0].body) == 1 and ast.unparse(inner[0].body[0]) == f'done = self.{driver}(MS_active)'
        R.check(ok, f'{cn}.run :: while not done: done = self.{driver}(MS_active)', w, 'the driver is called until it reports all steps done', [ast.unparse(l)[:80] for l in inner])
        cfg = FuncCFG(fn)
        init = [n for n, s in cfg.stmt_of.items() if isinstance(s, ast.Assign) and ast.unparse(s) == 'done = False']
        ok = len(init) == 1 and inner and cfg.dominates(init[0], cfg.node_of[id(inner[0])]) and cfg.loops_of[id(cfg.stmt_of[init[0]])] == cfg.loops_of[id(inner[0])]
        R.check(ok, f'{cn}.run :: done = False before every block', w, 'reset inside the outer loop, before the inner loop', f'{len(init)} reset(s)')
        ms = [s for s in walk_no_nested(fn) if isinstance(s, ast.Assign) and ast.unparse(s.targets[0]) == 'MS_active']
        R.check(len(ms) == 1 and ast.unparse(ms[0].value) == '[self.MS[p] for p in active_slots]', f'{cn}.run :: the block consists of the active steps, in slot order', w, '[self.MS[p] for p in active_slots]', [ast.unparse(s.value) for s in ms])
        sl = [s for s in walk_no_nested(fn) if isinstance(s, ast.Assign) and ast.unparse(s.targets[0]) == 'active_slots']
        R.check(len(sl) == 2 and all(ast.unparse(s.value) == 'list(itertools.compress(slots, active))' for s in sl), f'{cn}.run :: active_slots recomputed from the activity predicate before every restart_block', w, 'list(itertools.compress(slots, active)) x2', [ast.unparse(s.value) for s in sl])
    rel, cn, _ = ct.MPI
    fn = repo.func(rel, f'{cn}.run')
    inner = [l for l in walk_no_nested(fn) if isinstance(l, ast.While) and ast.unparse(l.test) == 'not self.S.status.done']
    ok = len(inner) == 1 and len(inner[0].body) == 1 and ast.unparse(inner[0].body[0]) == 'self.pfasst(comm_active, comm_active.size)'
    R.check(ok, 'controller_MPI.run :: while not done: self.pfasst(comm_active, comm_active.size)', f'{rel}:{cn}.run', 'iterate until this rank is done', [ast.unparse(l)[:80] for l in inner])


@rule('C06', 'C06.R8', 'value chain inside a block: a step takes the end value of its predecessor until the predecessor (and all before it) are done - receive guard, cumulative done chain, copy on receive (shared with C01.R4 / C07.R8)', floor=20)
def r8(ctx, R):
    """`each accepted step starts from exactly the end value of the previous accepted step` also holds INSIDE a block only if
    (a) the receive copies uend and refreshes f(u0) under `not first and not prev_done`, and (b) prev_done is cumulative
    (done := done and prev_done, in slot order): otherwise a step stops listening while its predecessor still changes."""
    from . import c01, c07
    c01.r4(ctx, R)
    c07.r8(ctx, R)


@rule('C06', 'C06.R9', 'a step starts from the value it is given, not from a remembered history: the multistep sweeper re-creates its history whenever the step does not continue it - restarted step (starts before the history ends) or new run (two-sided test; shared with C19.R10)', floor=2)
def r9(ctx, R):
    from . import c19
    c19.multistep_reset(ctx, R)


@rule('C06', 'C06.R10', 'set-ups in which a step cannot start from its predecessor\'s end value are refused: multi-level time-parallel runs require the right end point to be a node, as an ERROR at construction (guards that must raise, shared with C20.R2)', floor=14)
def r10(ctx, R):
    from . import c20
    c20.r2(ctx, R)


@rule('C06', 'C06.R11', 'fixed step size means fixed step size: the only thing that shortens a step is the distance to Tend, bounded below by the step size the LEVEL was configured with (dt_initial of the level parameters, not a value read from the caller\'s description at run time; Tend-limiting skeleton shared with C09.R10)', floor=3)
def r11(ctx, R):
    from . import c09
    c09.r10(ctx, R)


@rule('C06', 'C06.R12', 'MPI controller, block transition: the step sizes from which the start times of the next block are accumulated are gathered AFTER the prepare_next_block callbacks installed the new step size (gathering before gives every rank > 0 a start time built from the finished block while it integrates with the new dt: gaps / overlaps)', floor=2)
def r12(ctx, R):
    repo = ctx.repo
    rel = 'pySDC/implementations/controller_classes/controller_MPI.py'
    fn = repo.func(rel, 'controller_MPI.run')
    w = f'{rel}:controller_MPI.run'
    R.fn(w)
    cfg = FuncCFG(fn)
    prep = [n for n, s in cfg.stmt_of.items() if any(isinstance(c.func, ast.Attribute) and c.func.attr == 'prepare_next_block' for c in cfg.calls_at(n))]
    loops = [l for l in walk_no_nested(fn) if isinstance(l, ast.While)]
    gath = [(n, s) for n, s in cfg.stmt_of.items() if isinstance(s, ast.Assign) and ast.unparse(s.targets[0]) == 'all_dt' and 'allgather' in ast.unparse(s.value) and cfg.loops_of[id(s)]]
    use = [(n, s) for n, s in cfg.stmt_of.items() if isinstance(s, ast.Assign) and ast.unparse(s.targets[0]) == 'time' and 'all_dt' in ast.unparse(s.value) and cfg.loops_of[id(s)]]
    ok = len(prep) == 1 and len(gath) == 1 and len(use) == 1
    detail = {'prepare_next_block calls': len(prep), 'allgather(S.dt) in the block loop': len(gath), 'time = tend + sum(all_dt[:slot])': len(use)}
    if ok:
        ok = cfg.reachable(prep[0], gath[0][0]) and not _reach_no_backedge(cfg, gath[0][0], prep[0]) and cfg.dominates(gath[0][0], use[0][0]) and ast.unparse(gath[0][1].value) == 'comm_active.allgather(self.S.dt)'
        detail['order'] = 'prepare_next_block -> allgather -> time' if ok else 'the gather does not follow the callbacks'
    R.check(ok, 'controller_MPI.run :: all_dt = allgather(S.dt) follows prepare_next_block and dominates the new start time', w, 'prepare_next_block(..) ... all_dt = comm_active.allgather(self.S.dt); time = tend + sum(all_dt[:slot])', detail)
    first = [s for s in walk_no_nested(fn) if isinstance(s, ast.Assign) and ast.unparse(s.targets[0]) == 'time' and not cfg.loops_of[id(s)]]
    R.check(len(first) == 1 and ast.unparse(first[0].value) == 't0 + sum(all_dt[:self.comm.rank])', 'controller_MPI.run :: the first block starts at t0 + the step sizes of the ranks before this one', w, 't0 + sum(all_dt[:rank])', [ast.unparse(s.value) for s in first])


def _reach_no_backedge(cfg, a, b):
    """b reachable from a along statement order only (source line increasing) - a cheap stand-in for 'within one loop iteration'"""
    sa, sb = cfg.stmt_of[a], cfg.stmt_of[b]
    return sb.lineno > sa.lineno and cfg.reachable(a, b)


@rule('C06', 'C06.R13', 'Hot Rod throws the last sweep away COMPLETELY: every entry of u, the initial value u[0] included, goes back to the stored previous iterate (restoring u[1:] only leaves a step with the u0 it received during the discarded sweep, while its predecessor\'s end value belongs to the sweep before: the accepted steps no longer chain)', floor=1)
def r13(ctx, R):
    repo = ctx.repo
    rel = 'pySDC/implementations/convergence_controller_classes/hotrod.py'
    fn = repo.func(rel, 'HotRod.post_iteration_processing')
    w = f'{rel}:HotRod.post_iteration_processing'
    R.fn(w)
    st = [s for s in walk_no_nested(fn) if isinstance(s, ast.Assign) and 'uold' in ast.unparse(s.value)]
    ok = len(st) == 1 and ast.unparse(st[0].targets[0]) == 'L.u[:]' and ast.unparse(st[0].value) == 'L.uold[:]'
    R.check(ok, 'HotRod.post_iteration_processing :: L.u[:] = L.uold[:] (whole list, u[0] included)', w, 'L.u[:] = L.uold[:]', [ast.unparse(s) for s in st])


@rule('C06', 'C06.R14', 'the steps that tile the next block are those of the FINAL activity mask: `active_slots` is compressed after the last write of `active` in run() of the serial controllers (shared with C15.R9)', floor=4)
def r14(ctx, R):
    from . import c15
    c15.r9(ctx, R)

def time_table_ok(fn, cn, t0='t0'):
    """the initial time table of run(): one list comprehension over `slots` whose element is t0 + sum(self.MS[j].dt for j in range(p));
    index names are free; another idiom altogether is outside the vocabulary (exit 2), not a violation"""
    tv = [s.value for s in fn.body if isinstance(s, ast.Assign) and len(s.targets) == 1 and isinstance(s.targets[0], ast.Name) and s.targets[0].id == 'time']
    lc = tv[0] if len(tv) == 1 else None
    if not (isinstance(lc, ast.ListComp) and len(lc.generators) == 1 and isinstance(lc.elt, ast.BinOp) and isinstance(lc.elt.op, ast.Add)):
        raise AnalysisError(f'{cn}.run: the time table is no longer one list comprehension `t0 + sum(..)` - re-confirm C06.R2 against the new idiom')
    g = lc.generators[0]
    sides = [lc.elt.left, lc.elt.right]
    sums = [x for x in sides if isinstance(x, ast.Call) and ast.unparse(x.func) in ('sum', 'np.sum') and x.args and isinstance(x.args[0], (ast.GeneratorExp, ast.ListComp))]
    rest = [ast.unparse(x) for x in sides if x not in sums]
    ok = ast.unparse(g.iter) == 'slots' and isinstance(g.target, ast.Name) and not g.ifs and rest == [t0] and len(sums) == 1
    if ok:
        ig = sums[0].args[0]
        q = ig.generators[0]
        ok = len(ig.generators) == 1 and not q.ifs and isinstance(q.target, ast.Name) and ast.unparse(q.iter) in (f'range({g.target.id})', f'range(0, {g.target.id})') and ast.unparse(ig.elt) == f'self.MS[{q.target.id}].dt'
    return ok


@rule('C06', 'C06.R15', 'the first block starts at t0 and uses every step: in run() of the serial controllers `num_procs = len(self.MS)`, `slots = list(range(num_procs))` (all steps, from 0; the time table itself is C06.R2) - a slot list that starts at 1 leaves a gap or an overlap in the tiling of [t0, Tend]', floor=4)
def r15(ctx, R):
    repo = ctx.repo
    CCD = 'pySDC/implementations/controller_classes/'
    for rel, cn in ((CCD + 'controller_nonMPI.py', 'controller_nonMPI'), (CCD + 'controller_ParaDiag_nonMPI.py', 'controller_ParaDiag_nonMPI')):
        fn = repo.func(rel, f'{cn}.run')
        w = f'{rel}:{cn}.run'
        R.fn(w)
        st = {}
        for s in fn.body:
            if isinstance(s, ast.Assign) and len(s.targets) == 1 and isinstance(s.targets[0], ast.Name):
                st.setdefault(s.targets[0].id, []).append(ast.unparse(s.value))
        if not {'num_procs', 'slots', 'time'} <= set(st):
            raise AnalysisError(f'{cn}.run: num_procs / slots / time are no longer assigned at the top level - re-confirm C06.R15')
        R.check(st['num_procs'] == ['len(self.MS)'], f'{cn}.run :: the block has as many slots as the controller has steps', w, 'num_procs = len(self.MS)', st['num_procs'])
        R.check(st['slots'] in (['list(range(num_procs))'], ['list(range(0, num_procs))'], ['list(range(len(self.MS)))']), f'{cn}.run :: slots are ALL steps 0..num_procs-1', w, 'slots = list(range(num_procs))', st['slots'])
