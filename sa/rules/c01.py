"""rules for c01 (under construction)"""
