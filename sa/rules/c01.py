"""C01 - a converged run returns the fine collocation solution (structural clauses, DESIGN.md §4 C01)."""

import ast
import re

from ..cfg import FuncCFG, walk_no_nested
from ..model import AnalysisError, ClassInfo
from ..norm import Normalizer, to_affine, Affine, bool_nf, nnf, guards_nnf
from ..runner import rule
from .. import sweepers as sw

NONMPI = 'pySDC/implementations/controller_classes/controller_nonMPI.py'
MPI = 'pySDC/implementations/controller_classes/controller_MPI.py'

# matrices that play the QDelta role but are not assigned from get_Qdelta_* directly (read off __get_Qd by hand)
EXTRA_SLOTS = {'verlet': {'QT': 'implicit', 'Qx': 'explicit'}, 'boris_2nd_order': {'Sx': 'explicit'}}
# solver method -> f components it inverts ('' = the unsplit f)
SOLVER_COMPONENT = {'P.solve_system': {'', 'impl', 'diff[:]'}, 'P.solve_system_1': {'comp1'}, 'P.solve_system_2': {'comp2'}}

_MAT = re.compile(r'^self\.(\w+)\[(.+), (.+)\]$')
_F = re.compile(r'^L\.f\[(.+?)\](?:\.(.+))?$')


def _aff(s):
    return to_affine(ast.parse(s, mode='eval').body)


def _col_range(term_factors, loops):
    """(matrix, row affine, col affine, f component, [col_lo, col_hi] affines) of a dt*MAT[row,col]*f[col] term"""
    mats = [(_MAT.match(f), f) for f in term_factors if _MAT.match(f)]
    return mats


def _qd_terms(N, slots):
    """all '+=' terms that contain exactly one QDelta-slot factor -> list of dicts"""
    out = []
    for c in N.contribs:
        if c.op != '+=' or c.terms is None:
            continue
        for sign, fac in c.terms:
            ms = [_MAT.match(f) for f in fac]
            ms = [m for m in ms if m and m.group(1) in slots]
            if not ms:
                continue
            if len(ms) != 1:
                raise AnalysisError(f'term with several QDelta factors: {fac}')
            m = ms[0]
            row, col = _aff(m.group(2)), _aff(m.group(3))
            fs = [(_F.match(f), f) for f in fac]
            fs = [(x, f) for x, f in fs if x]
            rest = sorted(f for f in fac if f != m.group(0) and not _F.match(f))
            # column range: substitute the innermost loop whose variable occurs in col
            lo = hi = col
            for l in reversed(c.loops):
                if l.kind == 'range' and col is not None and l.var in col.coeffs:
                    lo = col.subst(l.var, l.lo)
                    hi = col.subst(l.var, l.hi)
                    break
            out.append(dict(contrib=c, sign=sign, mat=m.group(1), row=row, col=col, fidx=[_aff(x.group(1)) for x, _ in fs], comp=[(x.group(2) or '') for x, _ in fs],
                            fraw=[f for _, f in fs], rest=rest, lo=lo, hi=hi, target=c.target, text=('+' if sign > 0 else '-') + '·'.join(fac) + ' for ' + ', '.join(map(repr, c.loops))))
    return out


@rule('C01', 'C01.R1', 'QDelta cancellation: subtracted and added-back dt*QD*f terms agree (matrix, component, index coupling); solver factor is the diagonal of the matrix of the inverted component', floor=40)
def r1(ctx, R):
    repo = ctx.repo
    for rel, cn in sw.QD_SERIAL + sw.QD_DAE + [sw.SECOND_ORDER[0]]:
        ci = repo.cls(rel, cn)
        slots = dict(sw.qd_slots(repo, ci))
        slots.update(EXTRA_SLOTS.get(cn, {}))
        owner, fn, sig = sw.method_sig(repo, ci, 'update_nodes')
        w = sw.where(owner, fn)
        R.fn(w)
        N = sig.N
        terms = _qd_terms(N, slots)
        if not terms:
            raise AnalysisError(f'{w}: no dt*QD*f term found for slots {sorted(slots)}')
        node = Affine(0, {'i1': 1})
        used = sorted({t['mat'] for t in terms})
        for mat in used:
            neg = [t for t in terms if t['mat'] == mat and t['sign'] < 0]
            pos = [t for t in terms if t['mat'] == mat and t['sign'] > 0]
            key = f'{owner.name}.update_nodes :: ({mat}'
            # multi_implicit accumulates the second matrix positively in an auxiliary list that enters the rhs with '-'
            if not neg and cn == 'multi_implicit':
                aux = [t for t in pos if t['hi'] != node - Affine(1) and not t['target'].startswith('L.')]
                auxnames = {re.split(r'[\[.]', t['target'])[0] for t in aux}
                sub = [c for c in N.contribs if c.op == '=' and c.terms and any(s < 0 and len(f) == 1 and re.split(r'[\[.]', f[0])[0] in auxnames for s, f in c.terms)]
                if aux and sub:
                    neg, pos = aux, [t for t in pos if t not in aux]
            comp = sorted({c for t in neg + pos for c in t['comp']})
            key += f', f.{comp[0]})' if comp and comp[0] else ', f)'
            # (a) index coupling on every term: row is the node, f index equals the matrix column
            for t in neg + pos:
                ok = t['row'] == node and len(t['fidx']) == 1 and t['fidx'][0] == t['col']
                if not ok:
                    R.bad(key + ' index coupling', w, 'MAT[n, j] * f[j] with n the node of the target', t['text'])
                    break
            else:
                R.ok(key + ' index coupling', w, found=f'{len(neg) + len(pos)} term(s): row = node, f index = column')
            # (b) same kernel on both sides: other factors (dt powers) and f component
            kn = sorted({(tuple(t['rest']), tuple(t['comp'])) for t in neg})
            kp = sorted({(tuple(t['rest']), tuple(t['comp'])) for t in pos})
            diag_only_ok = False
            if cn == 'verlet' and mat == 'QT':
                pass
            R.check(kn == kp and len(kn) == 1, key + ' subtracted kernel == added-back kernel', w, 'one kernel (dt-power, component), identical on both sides', {'subtracted': kn, 'added': kp})
            # (c) ranges: subtracted covers lo..(M | n), added back is lo..n-1 (strictly lower)
            okr = True
            detail = []
            for t in neg:
                fine = t['hi'] in (Affine(0, {'M': 1}), node) and t['lo'] in (Affine(0), Affine(1))
                okr &= fine
                detail.append(f'sub {t["lo"]}..{t["hi"]}')
            strict = [t for t in pos if t['hi'] == node - Affine(1)]
            diag = [t for t in pos if t['col'] == node]
            other = [t for t in pos if t not in strict and t not in diag]
            for t in strict:
                okr &= bool(neg) and t['lo'] == neg[0]['lo']
                detail.append(f'add {t["lo"]}..{t["hi"]}')
            if diag:
                # verlet applies the diagonal of QT explicitly with the NEW f[n] (velocity-Verlet form): table entry
                allowed = cn == 'verlet' and mat == 'QT'
                okr &= allowed
                detail.append('diagonal term with f[n]' + (' (verlet: explicit diagonal with the new f, exception)' if allowed else ''))
            okr &= not other and len(strict) >= 1
            R.check(okr, key + ' ranges: full/lower row subtracted, strictly lower part added back', w, 'sub lo..M|n ; add lo..n-1', detail + [t['text'] for t in other])
        # (d) solver factor
        for c in N.contribs:
            if c.call and c.call[0] in SOLVER_COMPONENT and owner.name not in ('FullyImplicitDAE', 'SemiImplicitDAE'):
                fac = c.call[1][1] if len(c.call[1]) > 1 else ''
                ft = N._terms(ast.parse(fac, mode='eval').body)
                m = [(_MAT.match(x), x) for s, f in ft for x in f]
                m = [x for x, _ in m if x]
                comps = SOLVER_COMPONENT[c.call[0]]
                paired = sorted({t['mat'] for t in terms if set(t['comp']) & comps})
                ok = len(ft) == 1 and ft[0][0] == 1 and len(m) == 1 and sorted(ft[0][1]) == sorted(['L.dt', m[0].group(0)]) and _aff(m[0].group(2)) == node and _aff(m[0].group(3)) == node and [m[0].group(1)] == paired
                R.check(ok, f'{owner.name}.update_nodes :: factor of {c.call[0]}', w, f'dt * {paired}[n, n] (the matrix paired with the component {sorted(comps)} this solver inverts)', fac)
            elif c.call and c.call[0] == 'P.solve_system' and owner.name in ('FullyImplicitDAE', 'SemiImplicitDAE'):
                fac = c.call[1][2] if len(c.call[1]) > 2 else ''
                R.check(fac == 'L.dt * self.QI[i1, i1]', f'{owner.name}.update_nodes :: factor of P.solve_system', w, 'L.dt * self.QI[n, n]', fac)
    # node-parallel sweepers: only the diagonal term exists
    for rel, cn in sw.QD_MPI:
        ci = repo.cls(rel, cn)
        slots = sw.qd_slots(repo, ci)
        owner, fn, sig = sw.method_sig(repo, ci, 'update_nodes')
        w = sw.where(owner, fn)
        R.fn(w)
        terms = _qd_terms(sig.N, slots)
        r1_ = Affine(1, {'self.rank': 1})
        ok = len(terms) == 1 and terms[0]['sign'] < 0 and terms[0]['row'] == r1_ and terms[0]['col'] == r1_ and terms[0]['fidx'] == [r1_] and terms[0]['rest'] == ['L.dt']
        R.check(ok, f'{cn}.update_nodes :: only -dt*QI[r+1,r+1]*f[r+1] is subtracted (diagonal preconditioner)', w, 'one diagonal term', [t['text'] for t in terms])
        sol = [c for c in sig.N.contribs if c.call and c.call[0] == 'P.solve_system']
        R.check(len(sol) == 1 and sol[0].call[1][1] == 'L.dt * self.QI[self.rank + 1, self.rank + 1]', f'{cn}.update_nodes :: factor of P.solve_system', w, 'L.dt * self.QI[r+1, r+1]', [c.call[1][1] for c in sol])


def _tau_terms(N, idx_pat):
    out = []
    for c in N.contribs:
        if c.op == '+=' and c.terms:
            for s, f in c.terms:
                if len(f) == 1 and re.fullmatch(idx_pat, f[0]):
                    out.append((c, s, f[0]))
    return out


@rule('C01', 'C01.R2', 'tau is added (once, +, under its is-not-None guard) in sweep, residual and end point of every multi-level capable sweeper', floor=26)
def r2(ctx, R):
    repo = ctx.repo
    # sweeps
    fam = sw.QD_SERIAL + sw.QD_MPI + [sw.SECOND_ORDER[0]]
    for rel, cn in fam:
        ci = repo.cls(rel, cn)
        owner, fn, sig = sw.method_sig(repo, ci, 'update_nodes')
        w = sw.where(owner, fn)
        R.fn(w)
        idx = r'self\.rank' if (rel, cn) in sw.QD_MPI else r'i1 - 1'
        tt = _tau_terms(sig.N, rf'L\.tau\[{idx}\]')
        ok = len(tt) == 1 and tt[0][1] == 1 and any(re.fullmatch(rf'L\.tau\[{idx}\] is not None', g) for g in tt[0][0].guards)
        R.check(ok, f'{owner.name}.update_nodes :: + tau[n] if tau[n] is not None', w, 'exactly one +tau[n] under the guard', [f'{"+" if s > 0 else "-"}{f} if {c.guards}' for c, s, f in tt])
    # boris: node-to-node tau
    ci = repo.cls(*sw.SECOND_ORDER[1])
    owner, fn, sig = sw.method_sig(repo, ci, 'update_nodes')
    w = sw.where(owner, fn)
    R.fn(w)
    tt = _tau_terms(sig.N, r'L\.tau\[i1 - [12]\]')
    got = sorted((s, f, tuple(c.guards)) for c, s, f in tt)
    want = sorted([(1, 'L.tau[i1 - 1]', ('L.tau[i1 - 1] is not None',)), (-1, 'L.tau[i1 - 2]', ('L.tau[i1 - 1] is not None', 'i1 - 1 > 0'))])
    R.check(got == want, 'boris_2nd_order.update_nodes :: + tau[n] - tau[n-1] (node-to-node form)', w, want, got)
    # exceptions with reason
    for rel, cn, reason in (
        (sw.SW + 'ParaDiagSweepers.py', 'QDiagonalization', 'raises if tau is set (single level by contract)'),
        (sw.DAE + 'fullyImplicitDAE.py', 'FullyImplicitDAE', 'single-level DAE sweeper; residual is ||F(t,u,u\')||, no tau term by design'),
        (sw.DAE + 'semiImplicitDAE.py', 'SemiImplicitDAE', 'single-level DAE sweeper; no tau term by design'),
        (sw.SW + 'Runge_Kutta.py', 'RungeKutta', 'direct one-shot method, outside the quantifier of C01 (no iteration to a collocation fixed point)'),
    ):
        ci = repo.cls(rel, cn)
        owner, fn, sig = sw.method_sig(repo, ci, 'update_nodes')
        w = sw.where(owner, fn)
        if cn == 'QDiagonalization':
            raises = [st for st in ast.walk(fn) if isinstance(st, ast.Raise)]
            src = ast.unparse(fn)
            R.check(bool(raises) and 'tau' in src, 'QDiagonalization.update_nodes :: raises when tau is set', w, 'a raise guarded by a tau test', f'{len(raises)} raise(s)')
        else:
            R.exc(f'{owner.name}.update_nodes :: no tau term', w, reason)
    # residuals
    base = sw.sweeper_base(repo)
    for ci in repo.overriders(base, 'compute_residual'):
        if not repo.is_library(ci):
            continue
        fn = ci.methods['compute_residual']
        w = f'{ci.module.relpath}:{ci.name}.compute_residual'
        R.fn(w)
        N = Normalizer(fn)
        if any(c[0].startswith('super().compute_residual(') for c in N.calls) and not any(c.target == 'L.status.residual' for c in N.contribs):
            R.ok(f'{ci.name}.compute_residual :: delegates to super()', w, found='no own defect computation')
            continue
        if ci.name in ('FullyImplicitDAE', 'MultiStep', 'SweeperDAEMPI', 'RungeKuttaNystrom'):
            R.exc(f'{ci.name}.compute_residual :: no tau term', w, 'residual is not the collocation defect here (DAE: ||F||; multistep/RKN: direct method)')
            continue
        mpi = ci.name == 'SweeperMPI'
        idx = r'self\.rank' if mpi else r'i1 - 1'
        tt = _tau_terms(N, rf'L\.tau\[{idx}\]')
        ok = len(tt) == 1 and tt[0][1] == 1 and any(re.fullmatch(rf'L\.tau\[{idx}\] is not None', g) for g in tt[0][0].guards)
        R.check(ok, f'{ci.name}.compute_residual :: + tau[n] if tau[n] is not None', w, 'exactly one +tau[n] under the guard', [f'{"+" if s > 0 else "-"}{f} if {c.guards}' for c, s, f in tt])
    # end points: every quadrature branch adds tau[-1]
    seen = set()
    for rel, cn in sw.QD_SERIAL + sw.QD_MPI + sw.SECOND_ORDER:
        ci = repo.cls(rel, cn)
        owner, fn, sig = sw.method_sig(repo, ci, 'compute_end_point')
        if id(fn) in seen:
            continue
        seen.add(id(fn))
        w = sw.where(owner, fn)
        R.fn(w)
        quad = [c for c in sig.N.contribs if c.target.startswith('L.uend') and c.op == '+=' and c.terms and any('weights' in x or 'qQ' in x for s, f in c.terms for x in f)]
        mpi_quad = [c for c in sig.N.calls if c[0].startswith('self.comm.Allreduce(')]
        if not quad and not mpi_quad:
            R.exc(f'{owner.name}.compute_end_point :: no quadrature branch', w, 'copy-only end point (raises / not implemented otherwise)')
            continue
        tt = _tau_terms(sig.N, r'L\.tau\[-1\]')
        ok = len(tt) == 1 and tt[0][1] == 1 and tt[0][0].target == 'L.uend' and any(re.fullmatch(r'L\.tau\[(-1|self\.rank)\] is not None', g) for g in tt[0][0].guards)
        # the tau term lives in the same branch as the quadrature
        if ok and quad:
            qg = set(quad[0].guards)
            ok = qg <= set(tt[0][0].guards)
        R.check(ok, f'{owner.name}.compute_end_point :: quadrature branch adds + tau[-1] under its guard', w, 'uend += tau[-1] if tau[-1] is not None, in the quadrature branch', [f'{"+" if s > 0 else "-"}{f} -> {c.target} if {c.guards}' for c, s, f in tt])


@rule('C01', 'C01.R3', 'end-point mode: copy of the last node iff right_is_node and not do_coll_update; flag tables; automatic switch', floor=24)
def r3(ctx, R):
    repo = ctx.repo
    want_guard = 'self.coll.right_is_node and (not self.params.do_coll_update)'
    seen = set()
    for rel, cn in sw.QD_SERIAL + sw.QD_MPI + sw.QD_DAE + sw.SECOND_ORDER:
        ci = repo.cls(rel, cn)
        owner, fn, sig = sw.method_sig(repo, ci, 'compute_end_point')
        if id(fn) in seen:
            continue
        seen.add(id(fn))
        w = sw.where(owner, fn)
        R.fn(w)
        N = sig.N
        if owner.name == 'boris_2nd_order':
            R.exc('boris_2nd_order.compute_end_point :: always quadrature', w, 'no copy branch: the Boris sweeper always integrates (positions/velocities are node-to-node)')
            continue
        copies = [c for c in N.contribs if c.target == 'L.uend' and c.op == '=' and c.rhs == 'P.dtype_u(L.u[-1])']
        supers = [c for c in N.calls if c[0] == 'super().compute_end_point()']
        if copies:
            c = copies[0] if len(copies) == 1 else [x for x in copies if 'rank' not in ' '.join(x.guards)][0] if any('rank' not in ' '.join(x.guards) for x in copies) else copies[0]
            g = [x for x in c.guards if 'rank' not in x]
            R.check(guards_nnf(g) == guards_nnf([want_guard]), f'{owner.name}.compute_end_point :: copy branch guard', w, want_guard, g)
            R.check(True, f'{owner.name}.compute_end_point :: copy is constructed through the datatype', w, 'P.dtype_u(L.u[-1])', c.rhs)
        elif supers:
            R.check(guards_nnf(supers[0][2]) == guards_nnf([want_guard]), f'{owner.name}.compute_end_point :: copy branch delegates to super() under the guard', w, want_guard, supers[0][2])
        else:
            R.bad(f'{owner.name}.compute_end_point :: copy branch', w, 'L.uend = P.dtype_u(L.u[-1]) under ' + want_guard, 'not found')
        other = [c for c in N.contribs if c.target == 'L.uend' and c.op == '=' and c.rhs == 'P.dtype_u(L.u[0])' and 'rank' not in ' '.join(c.guards)]
        raises = [st for st in walk_no_nested(fn) if isinstance(st, ast.Raise)]
        if other:
            R.check(guards_nnf(other[0].guards) == guards_nnf([f'not ({want_guard})']), f'{owner.name}.compute_end_point :: quadrature branch is the complement', w, f'not ({want_guard})', other[0].guards)
        elif raises:
            R.exc(f'{owner.name}.compute_end_point :: raises instead of quadrature', w, 'collocation update not implemented for this sweeper (raises)')
        else:
            R.bad(f'{owner.name}.compute_end_point :: quadrature branch', w, 'copy(u[0]) + quadrature, or raise', 'neither')
    # Sweeper.__init__ switches do_coll_update on when the right end point is no node
    rel = 'pySDC/core/sweeper.py'
    fn = repo.func(rel, 'Sweeper.__init__')
    w = f'{rel}:Sweeper.__init__'
    R.fn(w)
    N = Normalizer(fn)
    sets = [c for c in N.contribs if c.target == 'self.params.do_coll_update' and c.rhs == 'True']
    ok = len(sets) == 1 and bool_nf(ast.parse(sets[0].guards[-1], mode='eval').body) == ('and', ('not', 'self.coll.right_is_node'), ('not', 'self.params.do_coll_update')) if sets and sets[0].guards else False
    if sets and len(sets[0].guards) == 1:
        nf = bool_nf(ast.parse(sets[0].guards[-1], mode='eval').body)
        ok = len(sets) == 1 and nf == ('and', tuple(sorted([('not', 'self.coll.right_is_node'), ('not', 'self.params.do_coll_update')], key=repr)))
    R.check(ok, 'Sweeper.__init__ :: do_coll_update forced when right end point is not a node', w, 'self.params.do_coll_update = True if not right_is_node and not do_coll_update', [c.describe() for c in sets])
    crel = 'pySDC/core/collocation.py'
    fn = repo.func(crel, 'CollBase.__init__')
    w = f'{crel}:CollBase.__init__'
    R.fn(w)
    N = Normalizer(fn, inline_scalars=False)
    for attr, want in (('left_is_node', {'LOBATTO', 'RADAU-LEFT'}), ('right_is_node', {'LOBATTO', 'RADAU-RIGHT'})):
        cs = [c for c in N.contribs if c.target == f'self.{attr}']
        got = None
        if len(cs) == 1:
            v = cs[0].stmt.value
            if isinstance(v, ast.Compare) and isinstance(v.ops[0], ast.In) and ast.unparse(v.left) == 'self.quad_type' and isinstance(v.comparators[0], (ast.List, ast.Tuple, ast.Set)):
                got = {e.value for e in v.comparators[0].elts if isinstance(e, ast.Constant)}
        R.check(got == want, f'CollBase.__init__ :: {attr} table', w, sorted(want), sorted(got) if got is not None else [c.describe() for c in cs])


def _nested(fn, name):
    for st in ast.walk(fn):
        if isinstance(st, ast.FunctionDef) and st.name == name and st is not fn:
            return st
    return None


@rule('C01', 'C01.R4', 'forward chain: send computes the end point, receive copies uend into u[0] and re-evaluates f[0]; tags agree', floor=10)
def r4(ctx, R):
    repo = ctx.repo
    # ---- serial controller
    sf = repo.func(NONMPI, 'controller_nonMPI.send_full')
    rf = repo.func(NONMPI, 'controller_nonMPI.recv_full')
    send, recv = _nested(sf, 'send'), _nested(rf, 'recv')
    if send is None or recv is None:
        raise AnalysisError('controller_nonMPI.send_full/recv_full: nested send/recv helpers not found')
    w = f'{NONMPI}:controller_nonMPI.send_full.send'
    R.fn(w)
    cfg = FuncCFG(send)
    cep = [n for n in cfg.stmt_of if any(ast.unparse(c.func).endswith('.sweep.compute_end_point') for c in cfg.calls_at(n))]
    tag = [n for n, s in cfg.stmt_of.items() if isinstance(s, ast.Assign) and ast.unparse(s.targets[0]).endswith('.tag')]
    ok = len(cep) == 1 and len(tag) == 1 and cfg.dominates(cep[0], tag[0]) and cfg.dominates(cep[0], 'EXIT')
    R.check(ok, 'controller_nonMPI.send :: compute_end_point() on every path, before the tag is published', w, 'compute_end_point dominates tag store and exit', f'{len(cep)} end-point call(s), {len(tag)} tag store(s)')
    w = f'{NONMPI}:controller_nonMPI.recv_full.recv'
    R.fn(w)
    N = Normalizer(recv, inline_scalars=False)
    cfg = FuncCFG(recv)
    a = recv.args.args
    tgt, src = a[0].arg, a[1].arg
    u0 = [c for c in N.contribs if c.target == f'{tgt}.u[0]']
    f0 = [c for c in N.contribs if c.target == f'{tgt}.f[0]']
    R.check(len(u0) == 1 and u0[0].op == '=' and u0[0].rhs == f'{tgt}.prob.dtype_u({src}.uend)', 'controller_nonMPI.recv :: u[0] <- copy of the sender\'s uend through the datatype', w, f'{tgt}.u[0] = {tgt}.prob.dtype_u({src}.uend)', [c.describe() for c in u0])
    okf = len(f0) == 1 and f0[0].rhs == f'{tgt}.prob.eval_f({tgt}.u[0], {tgt}.time)'
    if okf and u0:
        nu, nf = cfg.node_of[id(u0[0].stmt)], cfg.node_of[id(f0[0].stmt)]
        okf = cfg.dominates(nu, nf) and cfg.postdominates(nf, nu)
    R.check(okf, 'controller_nonMPI.recv :: f[0] re-evaluated from the new u[0] at the level time, after the copy, on every path', w, f'{tgt}.f[0] = {tgt}.prob.eval_f({tgt}.u[0], {tgt}.time) post-dominating the copy', [c.describe() for c in f0])
    raises = [(cfg.guards[id(s)], s) for n, s in cfg.stmt_of.items() if isinstance(s, ast.Raise)]
    okt = any('CommunicationError' in ast.unparse(s.exc) and any(f'{src}.tag != tag' in ast.unparse(g) for g, p in gs) for gs, s in raises)
    if okt and u0:
        okt = all(cfg.dominates(cfg.node_of[id(st)], cfg.node_of[id(u0[0].stmt)]) for st in [s for n, s in cfg.stmt_of.items() if isinstance(s, ast.If) and 'tag' in ast.unparse(s.test)])
    R.check(okt, 'controller_nonMPI.recv :: tag mismatch raises CommunicationError before anything is copied', w, 'raise CommunicationError under source.tag != tag, dominating the copy', [ast.unparse(s)[:80] for g, s in raises])
    # call sites: tags by role
    def call_of(fn, name):
        return [c for c in ast.walk(fn) if isinstance(c, ast.Call) and isinstance(c.func, ast.Name) and c.func.id == name]

    sc, rc = call_of(sf, 'send'), call_of(rf, 'recv')
    lv = sf.args.args[2].arg
    ok = len(sc) == 1 and ast.unparse(sc[0].args[0]) == f'S.levels[{lv}]' and {k.arg: ast.unparse(k.value) for k in sc[0].keywords}.get('tag') == f'({lv}, S.status.iter, S.status.slot)'
    R.check(ok, 'controller_nonMPI.send_full :: send(S.levels[l], tag=(l, iter, own slot))', f'{NONMPI}:controller_nonMPI.send_full', '(level, S.status.iter, S.status.slot)', [ast.unparse(c) for c in sc])
    lv = rf.args.args[2].arg
    ok = len(rc) == 1 and [ast.unparse(x) for x in rc[0].args] == [f'S.levels[{lv}]', f'S.prev.levels[{lv}]'] and {k.arg: ast.unparse(k.value) for k in rc[0].keywords}.get('tag') == f'({lv}, S.status.iter, S.prev.status.slot)'
    R.check(ok, 'controller_nonMPI.recv_full :: recv(S.levels[l], S.prev.levels[l], tag=(l, iter, sender slot))', f'{NONMPI}:controller_nonMPI.recv_full', '(level, S.status.iter, S.prev.status.slot)', [ast.unparse(c) for c in rc])
    for fn_, nm, want in ((sf, 'send_full', 'not S.status.last'), (rf, 'recv_full', None)):
        cfg = FuncCFG(fn_)
        cs = [s for n, s in cfg.stmt_of.items() if isinstance(s, ast.Expr) and isinstance(s.value, ast.Call) and isinstance(s.value.func, ast.Name) and s.value.func.id in ('send', 'recv')]
        g = [ast.unparse(t) if p else f'not ({ast.unparse(t)})' for t, p in cfg.guards[id(cs[0])]] if cs else None
        if want:
            R.check(g == [want], f'controller_nonMPI.{nm} :: guard of the transfer', f'{NONMPI}:controller_nonMPI.{nm}', want, g)
        else:
            nf = bool_nf(cfg.guards[id(cs[0])][0][0]) if cs and len(cfg.guards[id(cs[0])]) == 1 else None
            R.check(nf == ('and', tuple(sorted([('not', 'S.status.first'), ('not', 'S.status.prev_done')], key=repr))), f'controller_nonMPI.{nm} :: guard of the transfer', f'{NONMPI}:controller_nonMPI.{nm}', 'not prev_done and not first', g)
    # ---- MPI sibling
    fn = repo.func(MPI, 'controller_MPI.recv')
    w = f'{MPI}:controller_MPI.recv'
    R.fn(w)
    N = Normalizer(fn, inline_scalars=False)
    cfg = FuncCFG(fn)
    rcv = [n for n in cfg.stmt_of if any(ast.unparse(c.func) == 'target.u[0].irecv' for c in cfg.calls_at(n))]
    f0 = [c for c in N.contribs if c.target == 'target.f[0]']
    ok = len(rcv) == 1 and len(f0) == 1 and f0[0].rhs == 'target.prob.eval_f(target.u[0], target.time)' and cfg.dominates(rcv[0], cfg.node_of[id(f0[0].stmt)])
    wait = [n for n in cfg.stmt_of if any(ast.unparse(c.func) == 'self.wait_with_interrupt' for c in cfg.calls_at(n))]
    ok = ok and len(wait) == 1 and cfg.dominates(wait[0], cfg.node_of[id(f0[0].stmt)]) and cfg.dominates(rcv[0], wait[0])
    R.check(ok, 'controller_MPI.recv :: irecv into u[0], wait, then f[0] re-evaluated', w, 'irecv -> wait -> f[0] = eval_f(u[0], time)', [c.describe() for c in f0])
    fn = repo.func(MPI, 'controller_MPI.send_full')
    w = f'{MPI}:controller_MPI.send_full'
    R.fn(w)
    cfg = FuncCFG(fn)
    cep = [n for n in cfg.stmt_of if any(ast.unparse(c.func).endswith('.sweep.compute_end_point') for c in cfg.calls_at(n))]
    snd = [n for n in cfg.stmt_of if any(ast.unparse(c.func).endswith('.uend.isend') for c in cfg.calls_at(n))]
    ok = len(cep) == 1 and len(snd) == 1 and cfg.dominates(cep[0], snd[0])
    R.check(ok, 'controller_MPI.send_full :: compute_end_point() dominates isend(uend)', w, 'end point computed before it is sent', f'{len(cep)} end-point call(s), {len(snd)} isend(s)')


@rule('C01', 'C01.R5', 'stopping reads residual, tolerance and sweep count of the finest level only', floor=1)
def r5(ctx, R):
    repo = ctx.repo
    rel = 'pySDC/implementations/convergence_controller_classes/check_convergence.py'
    fn = repo.func(rel, 'CheckConvergence.check_convergence')
    w = f'{rel}:CheckConvergence.check_convergence'
    R.fn(w)
    lv = sorted({ast.unparse(n) for n in ast.walk(fn) if isinstance(n, ast.Subscript) and ast.unparse(n.value).endswith('.levels')})
    R.check(lv == ['S.levels[0]'], 'CheckConvergence.check_convergence :: levels consulted', w, ['S.levels[0]'], lv)


@rule('C01', 'C01.R6', 'fixed-point equation as a whole: sweep, integrate and end point of every QDelta sweeper equal the formula-derived reference signature (shared with C02)', floor=20)
def r6(ctx, R):
    """The fixed point of the sweep is u0 + dt*Q*F(U) + tau = U only if EVERY term of the sweep is the one the formula
    names (u0 present once, INT from integrate(), f re-evaluated from the new u at the node time, ...).  The clause-wise
    rules R1-R3 name the cancellation / tau / end-point clauses; this rule closes the rest with the C02 signatures."""
    from . import c02
    spec = c02._spec()
    fams = sw.QD_SERIAL + sw.QD_MPI
    for meth in ('integrate', 'update_nodes', 'compute_end_point'):
        c02._check_all(R, ctx.repo, fams, meth, spec)


@rule('C01', 'C01.R7', 'the number of time-parallel steps never changes the answer: what run() returns / carries to the next block is uend of the last ACTIVE step (value chain of run(), shared with C06.R1)', floor=12)
def r7(ctx, R):
    from . import c06
    c06.r1(ctx, R)


@rule('C01', 'C01.R8', 'the collocation problem that is solved is the configured one: the sweeper builds its collocation object from ALL its parameters and CollBase requests exactly that node family / quadrature type / node count (shared with C05.R1)', floor=4)
def r8(ctx, R):
    from . import c05
    c05.r1(ctx, R)
