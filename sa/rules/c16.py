"""rules for c16 (under construction)"""
