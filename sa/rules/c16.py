"""C16 - field files round-trip and survive interrupted appends (structural clauses: open modes, overwrite guard,
writer/reader dtype agreement, bounded record reads)."""

import ast
import re

from ..cfg import FuncCFG, walk_no_nested, ENTRY, EXIT
from ..model import AnalysisError
from ..norm import Normalizer
from ..runner import rule
from .. import facts

FIO = 'pySDC/helpers/fieldsIO.py'
LOG = 'pySDC/implementations/hooks/log_solution.py'


def _opens(fn):
    out = []
    for c in ast.walk(fn):
        if isinstance(c, ast.Call) and isinstance(c.func, ast.Name) and c.func.id == 'open':
            mode = c.args[1].value if len(c.args) > 1 and isinstance(c.args[1], ast.Constant) else next((k.value.value for k in c.keywords if k.arg == 'mode' and isinstance(k.value, ast.Constant)), 'r')
            out.append((c, mode))
    return out


def _methods(repo, rel):
    m = repo.module(rel)
    for cn in m.classes:
        ci = repo.classes[f'{m.name}.{cn}']
        for name, fn in ci.methods.items():
            yield ci, name, fn
    for name, fn in m.functions.items():
        yield None, name, fn


@rule('C16', 'C16.R1', 'open-mode discipline: read-only, append-only, and one truncating open in FieldsIO.initialize; appends only write in record order', floor=12)
def r1(ctx, R):
    repo = ctx.repo
    trunc = []
    n = 0
    for ci, name, fn in _methods(repo, FIO):
        for c, mode in _opens(fn):
            n += 1
            q = f'{(ci.name + ".") if ci else ""}{name}'
            w = f'{FIO}:{q}'
            R.fn(w)
            R.check(mode in ('rb', 'ab', 'w+b'), f'{q} :: open(.., {mode!r})', w, "mode in {'rb', 'ab', 'w+b'} (no r+b / in-place rewriting)", mode)
            if 'w' in mode or '+' in mode:
                trunc.append(q)
    if n < 7:
        raise AnalysisError(f'C16.R1: only {n} open() calls found in fieldsIO.py')
    R.check(trunc == ['FieldsIO.initialize'], 'fieldsIO :: the only truncating / read-write open is in FieldsIO.initialize', FIO, ['FieldsIO.initialize'], trunc)
    # seek is only used on files opened for reading
    for ci, name, fn in _methods(repo, FIO):
        for w_ in walk_no_nested(fn):
            if isinstance(w_, ast.With):
                modes = [m for c, m in _opens(w_.items[0].context_expr)] if w_.items else []
                body_calls = [ast.unparse(c.func) for s in w_.body for c in ast.walk(s) if isinstance(c, ast.Call)]
                if modes and modes[0] != 'rb':
                    bad = [c for c in body_calls if c.endswith('.seek') or c.endswith('.truncate') or c.endswith('.write')]
                    R.check(not bad, f'{ci.name if ci else ""}.{name} :: no seek/truncate/raw write on a file opened {modes[0]!r}', f'{FIO}:{name}', 'only tofile() in record order', bad)
    # addField: time first, then the field, nothing else
    fn = repo.func(FIO, 'FieldsIO.addField')
    w = f'{FIO}:FieldsIO.addField'
    R.fn(w)
    cfg = FuncCFG(fn)
    writes = [(n_, ast.unparse(c.func.value)) for n_ in sorted(cfg.stmt_of) for c in cfg.calls_at(n_) if isinstance(c.func, ast.Attribute) and c.func.attr == 'tofile']
    ok = [x for _, x in writes] == ['np.array(time, dtype=T_DTYPE)', 'field'] and cfg.dominates(writes[0][0], writes[1][0])
    R.check(ok, 'FieldsIO.addField :: appends the time stamp, then the field (an interrupted append leaves a strict prefix of one record)', w, ['np.array(time, dtype=T_DTYPE)', 'field'], [x for _, x in writes])
    asserts = [ast.unparse(s.test) for s in walk_no_nested(fn) if isinstance(s, ast.Assert)]
    ok = 'field.dtype == self.dtype' in asserts and 'field.size == self.nItems' in asserts and 'self.initialized' in asserts
    R.check(ok, 'FieldsIO.addField :: dtype and size of the record are asserted before anything is written', w, ['self.initialized', 'field.dtype == self.dtype', 'field.size == self.nItems'], asserts)
    # MPI open modes
    fn = repo.func(FIO, 'Rectilinear.MPI_FILE_OPEN')
    d = [s.value for s in walk_no_nested(fn) if isinstance(s, ast.Assign) and isinstance(s.value, ast.Subscript) and isinstance(s.value.value, ast.Dict)]
    got = {k.value: ast.unparse(v) for k, v in zip(d[0].value.keys, d[0].value.values)} if d else {}
    R.check(got == {'r': 'MPI.MODE_RDONLY', 'a': 'MPI.MODE_WRONLY | MPI.MODE_APPEND'}, 'Rectilinear.MPI_FILE_OPEN :: read-only or write-append only', f'{FIO}:Rectilinear.MPI_FILE_OPEN', {'r': 'RDONLY', 'a': 'WRONLY|APPEND'}, got)


@rule('C16', 'C16.R2', 'overwrite guard: the truncating open is dominated by the ALLOW_OVERWRITE / isfile test that raises FileExistsError; resuming goes through fromFile', floor=5)
def r2(ctx, R):
    repo = ctx.repo
    fn = repo.func(FIO, 'FieldsIO.initialize')
    w = f'{FIO}:FieldsIO.initialize'
    R.fn(w)
    cfg = FuncCFG(fn)
    op = [n for n, s in cfg.stmt_of.items() if isinstance(s, ast.With) and any(m == 'w+b' for _, m in _opens(s.items[0].context_expr))]
    rs = [(n, s) for n, s in cfg.stmt_of.items() if isinstance(s, ast.Raise) and 'FileExistsError' in ast.unparse(s)]
    test = [n for n, s in cfg.stmt_of.items() if isinstance(s, ast.If) and ast.unparse(s.test) == 'not self.ALLOW_OVERWRITE']
    ok = len(op) == 1 and len(rs) == 1 and len(test) == 1 and facts.guard_strings(cfg, rs[0][1])[-2:] == ['not self.ALLOW_OVERWRITE', 'os.path.isfile(self.fileName)'] and cfg.dominates(test[0], op[0]) and not cfg.reachable(rs[0][0], op[0])
    R.check(ok, 'FieldsIO.initialize :: existing file + ALLOW_OVERWRITE False -> FileExistsError before the file is opened for writing', w, 'if not ALLOW_OVERWRITE: if isfile: raise FileExistsError ... open(w+b)', [facts.guard_strings(cfg, s) for _, s in rs])
    cls = repo.cls(FIO, 'FieldsIO')
    R.check(ast.unparse(cls.class_assigns.get('ALLOW_OVERWRITE')) == 'False', 'FieldsIO.ALLOW_OVERWRITE :: default is False', FIO, 'False', ast.unparse(cls.class_assigns.get('ALLOW_OVERWRITE')) if cls.class_assigns.get('ALLOW_OVERWRITE') is not None else None)
    fn = repo.func(FIO, 'Rectilinear.initialize')
    sup = [c for c in ast.walk(fn) if isinstance(c, ast.Call) and ast.unparse(c.func) == 'super().initialize']
    R.check(len(sup) == 1, 'Rectilinear.initialize :: reaches the guarded base implementation (root rank)', f'{FIO}:Rectilinear.initialize', 'super().initialize()', len(sup))
    fn = repo.func(LOG, 'LogToFile.pre_run')
    w = f'{LOG}:LogToFile.pre_run'
    cfg = FuncCFG(fn)
    ff = [(n, s) for n, s in cfg.stmt_of.items() if isinstance(s, ast.Assign) and ast.unparse(s.value) == 'FieldsIO.fromFile(self.filename)']
    ok = len(ff) == 1 and any('os.path.isfile(self.filename)' in g for g in facts.guard_strings(cfg, ff[0][1])) and not [c for c in ast.walk(fn) if isinstance(c, ast.Call) and ast.unparse(c.func).endswith('.initialize')]
    R.check(ok, 'LogToFile.pre_run :: an existing file is re-opened through fromFile (never re-initialised by the hook)', w, 'self.outfile = FieldsIO.fromFile(self.filename) under isfile', [ast.unparse(s) for _, s in ff])
    ci = repo.cls(LOG, 'LogToFile')
    init = ci.methods['__init__']
    R.check('FieldsIO.ALLOW_OVERWRITE = self.allow_overwriting' in ast.unparse(init) and ast.unparse(ci.class_assigns.get('allow_overwriting')) == 'False', 'LogToFile :: overwriting is off unless the user enables it', f'{LOG}:LogToFile.__init__', 'allow_overwriting = False', ast.unparse(ci.class_assigns.get('allow_overwriting')) if ci.class_assigns.get('allow_overwriting') is not None else None)


def _dtype_runs(seq):
    out = []
    for x in seq:
        if not out or out[-1] != x:
            out.append(x)
    return out


@rule('C16', 'C16.R3', 'writer/reader agreement: header and record dtype sequences written equal the sequences read back; registry ids unique', floor=10)
def r3(ctx, R):
    repo = ctx.repo
    for cn in ('Scalar', 'Rectilinear'):
        hi = repo.func(FIO, f'{cn}.hInfos')
        rh = repo.func(FIO, f'{cn}.readHeader')
        w = f'{FIO}:{cn}.hInfos/readHeader'
        R.fn(f'{FIO}:{cn}.hInfos')
        R.fn(f'{FIO}:{cn}.readHeader')
        wseq = [ast.unparse(k.value) for c in ast.walk(hi) if isinstance(c, ast.Call) and ast.unparse(c.func) == 'np.array' for k in c.keywords if k.arg == 'dtype']
        rseq = [ast.unparse(k.value) for c in sorted((c for c in ast.walk(rh) if isinstance(c, ast.Call) and ast.unparse(c.func) == 'np.fromfile'), key=lambda c: (c.lineno, c.col_offset)) for k in c.keywords if k.arg == 'dtype']
        R.check(_dtype_runs(wseq) == _dtype_runs(rseq) and bool(wseq), f'{cn} :: header dtypes written == header dtypes read (in order)', w, _dtype_runs(wseq), _dtype_runs(rseq))
    # Rectilinear integer block: nVar, dim, *gridSizes  <->  count=2 then count=dim
    hi = repo.func(FIO, 'Rectilinear.hInfos')
    rh = repo.func(FIO, 'Rectilinear.readHeader')
    first = [c for c in ast.walk(hi) if isinstance(c, ast.Call) and ast.unparse(c.func) == 'np.array' and any(k.arg == 'dtype' and ast.unparse(k.value) == 'np.int32' for k in c.keywords)]
    okw = len(first) == 1 and ast.unparse(first[0].args[0]) == '[self.nVar, self.dim, *self.gridSizes]'
    counts = [ast.unparse(k.value) for c in sorted((c for c in ast.walk(rh) if isinstance(c, ast.Call) and ast.unparse(c.func) == 'np.fromfile'), key=lambda c: (c.lineno, c.col_offset)) for k in c.keywords if k.arg == 'count']
    R.check(okw and counts == ['2', 'dim', 'n'], 'Rectilinear :: integer block (nVar, dim, gridSizes) and one float64 block per axis are read back with the written counts', f'{FIO}:Rectilinear.readHeader', ['2', 'dim', 'n (for n in gridSizes)'], counts)
    for q_ in ('FieldsIO.hBase', 'FieldsIO.fromFile', 'FieldsIO.initialize', 'FieldsIO.readField', 'FieldsIO.times', 'FieldsIO.time', 'FieldsIO.register'):
        R.fn(f'{FIO}:{q_}')
    # base header
    hb = repo.func(FIO, 'FieldsIO.hBase')
    ff = repo.func(FIO, 'FieldsIO.fromFile')
    okb = 'np.array([self.sID, DTYPES_AVAIL[self.dtype]], dtype=H_DTYPE)' in ast.unparse(hb) and 'np.fromfile(f, dtype=H_DTYPE, count=2)' in ast.unparse(ff)
    R.check(okb, 'FieldsIO :: base header = 2 x H_DTYPE (struct id, dtype id), written by hBase, read by fromFile', f'{FIO}:FieldsIO.hBase/fromFile', '2 entries of H_DTYPE both sides', 'ok' if okb else 'mismatch')
    ini = repo.func(FIO, 'FieldsIO.initialize')
    cfg = FuncCFG(ini)
    wr = [ast.unparse(c.func.value) for n in sorted(cfg.stmt_of) for c in cfg.calls_at(n) if isinstance(c.func, ast.Attribute) and c.func.attr == 'tofile']
    R.check(wr == ['self.hBase', 'array'], 'FieldsIO.initialize :: writes hBase, then every hInfos array (the order readHeader expects)', f'{FIO}:FieldsIO.initialize', ['self.hBase', 'array (for array in self.hInfos)'], wr)
    # records
    for meth, want in (('readField', [('T_DTYPE', '1'), ('self.dtype', 'self.nItems')]), ('times', [('T_DTYPE', '1')]), ('time', [('T_DTYPE', '1')])):
        fn = repo.func(FIO, f'FieldsIO.{meth}')
        got = []
        for c in sorted((c for c in ast.walk(fn) if isinstance(c, ast.Call) and ast.unparse(c.func) == 'np.fromfile'), key=lambda c: (c.lineno, c.col_offset)):
            kw = {k.arg: ast.unparse(k.value) for k in c.keywords}
            got.append((kw.get('dtype'), kw.get('count')))
        R.check(got == want, f'FieldsIO.{meth} :: reads the record with the dtypes addField wrote (time: T_DTYPE x1, field: self.dtype x nItems)', f'{FIO}:FieldsIO.{meth}', want, got)
    cls = repo.cls(FIO, 'FieldsIO')
    R.check(ast.unparse(cls.class_assigns.get('tSize')) == 'T_DTYPE().itemsize', 'FieldsIO.tSize :: derived from the same T_DTYPE', FIO, 'T_DTYPE().itemsize', ast.unparse(cls.class_assigns.get('tSize')) if cls.class_assigns.get('tSize') is not None else None)
    reg = repo.func(FIO, 'FieldsIO.register')
    asserts = [ast.unparse(s.test) for s in ast.walk(reg) if isinstance(s, ast.Assert)]
    R.check('sID not in cls.STRUCTS' in asserts, 'FieldsIO.register :: structure ids are unique', f'{FIO}:FieldsIO.register', 'assert sID not in cls.STRUCTS', asserts)


@rule('C16', 'C16.R4', 'only complete records are reported: nFields is the floor of (fileSize - hSize) / record size and every record read is bounded by it', floor=9)
def r4(ctx, R):
    repo = ctx.repo
    for q_ in ('FieldsIO.nFields', 'FieldsIO.fSize', 'FieldsIO.hSize', 'FieldsIO.formatIndex', 'Rectilinear.toVTR'):
        R.fn(f'{FIO}:{q_}')
    fn = repo.func(FIO, 'FieldsIO.nFields')
    ret = [ast.unparse(s.value) for s in walk_no_nested(fn) if isinstance(s, ast.Return)]
    R.check(ret == ['int((self.fileSize - self.hSize) // (self.tSize + self.fSize))'], 'FieldsIO.nFields :: floor division by the full record size', f'{FIO}:FieldsIO.nFields', 'int((fileSize - hSize) // (tSize + fSize))', ret)
    fs = repo.func(FIO, 'FieldsIO.fSize')
    R.check([ast.unparse(s.value) for s in walk_no_nested(fs) if isinstance(s, ast.Return)] == ['self.nItems * self.itemSize'], 'FieldsIO.fSize :: nItems * itemSize', f'{FIO}:FieldsIO.fSize', 'self.nItems * self.itemSize', 'see source')
    hs = repo.func(FIO, 'FieldsIO.hSize')
    R.check([ast.unparse(s.value) for s in walk_no_nested(hs) if isinstance(s, ast.Return)] == ['self.hBase.nbytes + sum((hInfo.nbytes for hInfo in self.hInfos))'], 'FieldsIO.hSize :: bytes of exactly what initialize wrote', f'{FIO}:FieldsIO.hSize', 'hBase.nbytes + sum(hInfo.nbytes)', 'see source')
    fi = repo.func(FIO, 'FieldsIO.formatIndex')
    w = f'{FIO}:FieldsIO.formatIndex'
    cfg = FuncCFG(fi)
    asserts = [(n, ast.unparse(s.test)) for n, s in cfg.stmt_of.items() if isinstance(s, ast.Assert)]
    rets = [n for n, s in cfg.stmt_of.items() if isinstance(s, ast.Return)]
    ok = sorted(t for _, t in asserts) == ['idx < nFields', 'idx >= 0'] and all(cfg.dominates(n, r) for n, _ in asserts for r in rets)
    nf = [s for s in walk_no_nested(fi) if isinstance(s, ast.Assign) and ast.unparse(s.targets[0]) == 'nFields' and ast.unparse(s.value) == 'self.nFields']
    R.check(ok and len(nf) == 1, 'FieldsIO.formatIndex :: 0 <= idx < nFields asserted (after mapping negative indices) before the index is returned', w, ['idx < nFields', 'idx >= 0'], [t for _, t in asserts])
    for cn, meth in (('FieldsIO', 'time'), ('FieldsIO', 'readField'), ('Rectilinear', 'readField')):
        fn = repo.func(FIO, f'{cn}.{meth}')
        w = f'{FIO}:{cn}.{meth}'
        cfg = FuncCFG(fn)
        fmt = [n for n, s in cfg.stmt_of.items() if isinstance(s, ast.Assign) and ast.unparse(s.value) == 'self.formatIndex(idx)' and ast.unparse(s.targets[0]) == 'idx']
        off = [n for n, s in cfg.stmt_of.items() if isinstance(s, ast.Assign) and ast.unparse(s.targets[0]) == 'offset' and ast.unparse(s.value) == 'self.hSize + idx * (self.tSize + self.fSize)']
        reads = [n for n in cfg.stmt_of if any(ast.unparse(c.func) in ('np.fromfile', 'self.MPI_READ_AT_ALL') for c in cfg.calls_at(n))]
        ok = len(fmt) == 1 and len(off) == 1 and cfg.dominates(fmt[0], off[0]) and all(cfg.dominates(off[0], r) for r in reads) and bool(reads)
        R.check(ok, f'{cn}.{meth} :: index checked by formatIndex, offset = hSize + idx * record size, before any read', w, 'idx = formatIndex(idx); offset = hSize + idx*(tSize+fSize); read', f'{len(fmt)} check(s), {len(off)} offset(s), {len(reads)} read(s)')
    fn = repo.func(FIO, 'FieldsIO.times')
    loops = [ast.unparse(l.iter) for l in walk_no_nested(fn) if isinstance(l, ast.For)]
    R.check(loops == ['range(self.nFields)'], 'FieldsIO.times :: iterates over complete records only', f'{FIO}:FieldsIO.times', ['range(self.nFields)'], loops)
    fn = repo.func(FIO, 'Rectilinear.toVTR')
    loops = [ast.unparse(l.iter) for l in walk_no_nested(fn) if isinstance(l, ast.For) and 'nFields' in ast.unparse(l.iter)]
    R.check(loops == ['range(self.nFields)'], 'Rectilinear.toVTR :: iterates over complete records only', f'{FIO}:Rectilinear.toVTR', ['range(self.nFields)'], loops)


@rule('C16', 'C16.R5', 'appends start at a record boundary: addField truncates (or refuses) an incomplete trailing record before it appends', floor=2)
def r5(ctx, R):
    """`ab` always writes at the end of the file.  If a previous append was cut off, the end of the file is NOT a record
    boundary: every later record is misaligned and read back as garbage.  Necessary condition: before the append, addField
    brings the file to hSize + nFields*(tSize+fSize) bytes (truncate) or raises when (fileSize - hSize) % record size != 0."""
    repo = ctx.repo
    fn = repo.func(FIO, 'FieldsIO.addField')
    w = f'{FIO}:FieldsIO.addField'
    R.fn(w)
    cfg = FuncCFG(fn)
    op = [n for n, s in cfg.stmt_of.items() if isinstance(s, ast.With) and any(m == 'ab' for _, m in _opens(s.items[0].context_expr))]
    if len(op) != 1:
        raise AnalysisError(f'{w}: the appending open was not found')
    tr = [n for n in cfg.stmt_of for c in cfg.calls_at(n) if ast.unparse(c.func) in ('os.truncate',) and len(c.args) == 2 and ast.unparse(c.args[0]) == 'self.fileName']
    ok = False
    found = 'no alignment step: appends after an interrupted append are misaligned'
    if len(tr) == 1:
        call = [c for c in cfg.calls_at(tr[0]) if ast.unparse(c.func) == 'os.truncate'][0]
        N = Normalizer(fn)
        size = N.canon(call.args[1])
        g = facts.guard_strings(cfg, cfg.stmt_of[tr[0]])
        ok = size == 'self.hSize + self.nFields * (self.tSize + self.fSize)' and cfg.reachable(tr[0], op[0]) and not cfg.reachable(op[0], tr[0]) and (not g or 'fileSize' in g[-1])
        found = f'os.truncate(self.fileName, {size}) if {g}'
    else:
        rs = [s for s in cfg.stmt_of.values() if isinstance(s, (ast.Raise, ast.Assert)) and '%' in ast.unparse(s) and 'fileSize' in ast.unparse(s)]
        ok = bool(rs)
    R.check(ok, 'FieldsIO.addField :: file brought to a record boundary before appending', w, 'os.truncate(fileName, hSize + nFields*(tSize+fSize)) (or a raising alignment test) before open(.., "ab")', found)
    # parallel path
    fn = repo.func(FIO, 'Rectilinear.addField')
    w = f'{FIO}:Rectilinear.addField'
    R.fn(w)
    src = ast.unparse(fn)
    off = [s for s in walk_no_nested(fn) if isinstance(s, ast.Assign) and ast.unparse(s.targets[0]) == 'offset']
    aligned = any('nFields' in ast.unparse(s.value) for s in off) or 'truncate' in src or 'Set_size' in src
    R.check(aligned, 'Rectilinear.addField (MPI path) :: write offset is a record boundary', w, 'offset = hSize + nFields*(tSize+fSize) (or the file is truncated to it)', [ast.unparse(s) for s in off])


def _sym_blocks(fn):
    """symbolic case analysis of BlockDecomposition.localBounds: returns (ok, detail).  No value is ever computed: the
    comparisons of `rank` with `nRest` are replaced by 0/1 in each of the three orderings rank+1 < nRest, rank+1 == nRest,
    rank >= nRest, and the resulting polynomials are normalised with sympy.expand."""
    import sympy as sp

    loops = [l for l in walk_no_nested(fn) if isinstance(l, ast.For)]
    if len(loops) != 1 or not isinstance(loops[0].target, ast.Tuple):
        raise AnalysisError('localBounds: the loop over (rank, nPoints, nBlocks) was not found')
    names = [e.id for e in loops[0].target.elts]
    its = [ast.unparse(a) for a in loops[0].iter.args] if isinstance(loops[0].iter, ast.Call) else []
    if names != ['rank', 'nPoints', 'nBlocks'] or its[:3] != ['self.ranks', 'self.gridSizes', 'self.nBlocks']:
        raise AnalysisError(f'localBounds: loop header not recognised: {names} in zip({its})')
    defs = {}
    for s in loops[0].body:
        if isinstance(s, ast.Assign) and isinstance(s.targets[0], ast.Name):
            defs[s.targets[0].id] = s.value
    for need in ('n0', 'nRest', 'nLoc', 'iLoc'):
        if need not in defs:
            raise AnalysisError(f'localBounds: definition of {need} not found')
    if ast.unparse(defs['n0']) != 'nPoints // nBlocks':
        return False, f"n0 = {ast.unparse(defs['n0'])} (expected nPoints // nBlocks)"
    r, q, Rr, P, B = sp.symbols('rank n0 nRest nPoints nBlocks', integer=True)
    sym = {'rank': r, 'n0': q, 'nRest': Rr, 'nPoints': P, 'nBlocks': B}

    def conv(node, shift, case):
        """ast -> sympy with rank := rank + shift; comparisons decided by the case"""
        if isinstance(node, ast.Constant) and isinstance(node.value, (int, bool)):
            return sp.Integer(int(node.value))
        if isinstance(node, ast.Name):
            if node.id == 'rank':
                return r + shift
            if node.id in sym:
                return sym[node.id]
            raise AnalysisError(f'localBounds: unknown name {node.id}')
        if isinstance(node, ast.BinOp):
            a, b = conv(node.left, shift, case), conv(node.right, shift, case)
            if isinstance(node.op, ast.Add):
                return a + b
            if isinstance(node.op, ast.Sub):
                return a - b
            if isinstance(node.op, ast.Mult):
                return a * b
            raise AnalysisError(f'localBounds: operator {type(node.op).__name__} not supported')
        if isinstance(node, ast.UnaryOp) and isinstance(node.op, ast.USub):
            return -conv(node.operand, shift, case)
        if isinstance(node, ast.Compare) and len(node.ops) == 1:
            d = sp.expand(conv(node.left, shift, case) - conv(node.comparators[0], shift, case))
            t = sp.expand(d - (r - Rr))  # d = (rank - nRest) + c
            if not t.is_Integer:
                raise AnalysisError(f'localBounds: comparison {ast.unparse(node)} is not between rank and nRest')
            c = int(t)
            lo, hi = {'A': (None, c - 2), 'B': (c - 1, c - 1), 'C': (c, None)}[case]  # range of d in the case
            op = type(node.ops[0])
            def holds(pred_lo, pred_hi):
                # d in [lo, hi]; predicate true on [pred_lo, pred_hi]
                inside = (pred_lo is None or (lo is not None and lo >= pred_lo)) and (pred_hi is None or (hi is not None and hi <= pred_hi))
                outside = (pred_hi is not None and lo is not None and lo > pred_hi) or (pred_lo is not None and hi is not None and hi < pred_lo)
                if inside:
                    return sp.Integer(1)
                if outside:
                    return sp.Integer(0)
                raise AnalysisError(f'localBounds: {ast.unparse(node)} is not decided by the ordering of rank and nRest')
            if op is ast.Lt:
                return holds(None, -1)
            if op is ast.LtE:
                return holds(None, 0)
            if op is ast.Gt:
                return holds(1, None)
            if op is ast.GtE:
                return holds(0, None)
            raise AnalysisError(f'localBounds: comparison operator in {ast.unparse(node)} not supported')
        raise AnalysisError(f'localBounds: cannot read {ast.unparse(node)}')

    detail = []
    ok = True
    for case, subst in (('A', {}), ('B', {r: Rr - 1}), ('C', {})):
        # in case A (rank+1 < nRest) both rank and rank+1 are below nRest; B: rank = nRest-1; C: rank >= nRest
        case_next = {'A': 'A', 'B': 'C', 'C': 'C'}[case]
        # evaluate at rank (ordering `case`) and rank+1 (ordering of rank+1 relative to nRest)
        i0 = conv(defs['iLoc'], 0, case)
        # for rank+1 the comparisons see d+1: emulate by shifting and keeping the case of `rank`
        i1 = conv(defs['iLoc'], 1, case)
        n_ = conv(defs['nLoc'], 0, case)
        diff = sp.expand((i1 - i0 - n_).subs(subst))
        detail.append(f'{case}: iLoc(r+1)-iLoc(r)-nLoc(r) = {diff}')
        ok &= diff == 0
    # first block starts at 0: rank = 0, orderings nRest > 0 (case A or B) and nRest == 0 (case C)
    for case, subst in (('A', {r: 0}), ('C', {r: 0, Rr: 0})):
        v = sp.expand(conv(defs['iLoc'], 0, case).subs(subst))
        detail.append(f'iLoc(0) [{case}] = {v}')
        ok &= v == 0
    # sizes add up: sum_r nLoc = nBlocks*n0 + nRest must equal nPoints by the definition of nRest
    nrest = sp.expand(conv(defs['nRest'], 0, 'C'))
    tot = sp.expand(B * q + nrest - P)
    detail.append(f'nBlocks*n0 + nRest - nPoints = {tot}')
    ok &= tot == 0
    # nLoc is n0 + [rank < nRest]
    for case, want in (('A', q + 1), ('B', q + 1), ('C', q)):
        v = sp.expand(conv(defs['nLoc'], 0, case))
        ok &= sp.expand(v - want) == 0
        detail.append(f'nLoc [{case}] = {v}')
    return ok, detail


def _enum_blocks(fn):
    loops = [l for l in walk_no_nested(fn) if isinstance(l, ast.For)]
    defs = []
    for s in loops[0].body:
        if isinstance(s, ast.Assign) and isinstance(s.targets[0], ast.Name):
            defs.append((s.targets[0].id, s.value))
        elif isinstance(s, ast.Assign) and isinstance(s.targets[0], ast.Tuple) and isinstance(s.value, ast.Call) and ast.unparse(s.value.func) == 'divmod' and len(s.value.args) == 2 and len(s.targets[0].elts) == 2 and all(isinstance(e, ast.Name) for e in s.targets[0].elts):
            a, b = s.value.args
            defs.append((s.targets[0].elts[0].id, ast.BinOp(left=a, op=ast.FloorDiv(), right=b)))
            defs.append((s.targets[0].elts[1].id, ast.BinOp(left=a, op=ast.Mod(), right=b)))
    names = [n for n, _ in defs]
    for need in ('nLoc', 'iLoc'):
        if need not in names:
            raise AnalysisError(f'localBounds: definition of {need} not found')

    def ev(n, env):
        if isinstance(n, ast.Constant) and isinstance(n.value, (int, bool)):
            return int(n.value)
        if isinstance(n, ast.Name):
            if n.id in env:
                return env[n.id]
            raise AnalysisError(f'localBounds: unknown name {n.id}')
        if isinstance(n, ast.BinOp):
            a, b = ev(n.left, env), ev(n.right, env)
            if isinstance(n.op, ast.Add):
                return a + b
            if isinstance(n.op, ast.Sub):
                return a - b
            if isinstance(n.op, ast.Mult):
                return a * b
            if isinstance(n.op, (ast.FloorDiv, ast.Mod)):
                if b == 0:
                    raise ZeroDivisionError
                return a // b if isinstance(n.op, ast.FloorDiv) else a % b
        if isinstance(n, ast.UnaryOp) and isinstance(n.op, ast.USub):
            return -ev(n.operand, env)
        if isinstance(n, ast.Compare) and len(n.ops) == 1:
            a, b = ev(n.left, env), ev(n.comparators[0], env)
            return int({ast.Lt: a < b, ast.LtE: a <= b, ast.Gt: a > b, ast.GtE: a >= b, ast.Eq: a == b, ast.NotEq: a != b}[type(n.ops[0])])
        if isinstance(n, ast.IfExp):
            return ev(n.body, env) if ev(n.test, env) else ev(n.orelse, env)
        if isinstance(n, ast.Call) and ast.unparse(n.func) in ('min', 'max', 'int') and not n.keywords:
            vals = [ev(a, env) for a in n.args]
            return {'min': min, 'max': max, 'int': lambda *v: int(v[0])}[ast.unparse(n.func)](*vals)
        raise AnalysisError(f'localBounds: cannot evaluate {ast.unparse(n)}')

    def bounds(rank, P, B):
        env = {'rank': rank, 'nPoints': P, 'nBlocks': B}
        for name, val in defs:
            env[name] = ev(val, env)
        return env['iLoc'], env['nLoc']

    bad = []
    cases = 0
    for P in range(1, 49):
        for B in range(1, min(P, 9) + 1):
            cases += 1
            try:
                pos = 0
                for rk in range(B):
                    i, n = bounds(rk, P, B)
                    if i != pos or n < 0:
                        bad.append(f'nPoints={P}, nBlocks={B}: rank {rk} starts at {i} (expected {pos}), size {n}')
                        break
                    pos += n
                else:
                    if pos != P:
                        bad.append(f'nPoints={P}, nBlocks={B}: blocks cover {pos} of {P} points')
            except ZeroDivisionError:
                bad.append(f'nPoints={P}, nBlocks={B}: division by zero')
            if len(bad) >= 3:
                break
        if len(bad) >= 3:
            break
    return (not bad), (bad or [f'{cases} (nPoints, nBlocks) cases tile exactly'])


@rule('C16', 'C16.R6', 'block decomposition tiles each direction: iLoc(0) = 0, iLoc(r+1) = iLoc(r) + nLoc(r) in every ordering of rank and nRest, sizes add up to nPoints (symbolic case analysis)', floor=1)
def r6(ctx, R):
    repo = ctx.repo
    rel = 'pySDC/helpers/blocks.py'
    fn = repo.func(rel, 'BlockDecomposition.localBounds')
    w = f'{rel}:BlockDecomposition.localBounds'
    R.fn(w)
    try:
        ok, detail = _sym_blocks(fn)
        R.check(ok, 'BlockDecomposition.localBounds :: consecutive blocks are adjacent, the first starts at 0, the sizes sum to nPoints', w, 'all identities reduce to 0 in the three orderings', detail)
    except AnalysisError as e:
        # arithmetic outside the symbolic vocabulary (%, conditional expressions ..): finite case analysis of the extracted integer
        # expressions over nPoints <= 48, nBlocks <= 9 - still no pySDC code runs, only the expressions read from the AST
        ok, detail = _enum_blocks(fn)
        R.check(ok, 'BlockDecomposition.localBounds :: consecutive blocks are adjacent, the first starts at 0, the sizes sum to nPoints', w, f'tiling for every nPoints <= 48, nBlocks <= 9 (finite enumeration; the symbolic analysis does not apply: {str(e)[:80]})', detail)


@rule('C16', 'C16.R7', 'readers are built from the file on every use: no FieldsIO reader is cached across calls (a re-created file would be decoded with a stale header)', floor=2)
def r7(ctx, R):
    repo = ctx.repo
    ci = repo.cls(LOG, 'LogToFile')
    fn = ci.methods.get('load')
    if fn is None:
        raise AnalysisError('LogToFile.load vanished')
    w = f'{LOG}:LogToFile.load'
    R.fn(w)
    cfg = FuncCFG(fn)
    rd = [(n, c) for n in cfg.stmt_of for c in cfg.calls_at(n) if isinstance(c.func, ast.Attribute) and c.func.attr in ('readField', 'times', 'time')]
    ok = bool(rd)
    detail = []
    for n, c in rd:
        recv = ast.unparse(c.func.value)
        d = [m_ for m_, s in cfg.stmt_of.items() if isinstance(s, ast.Assign) and ast.unparse(s.targets[0]) == recv]
        fresh = len(d) == 1 and ast.unparse(cfg.stmt_of[d[0]].value) == 'FieldsIO.fromFile(cls.filename)' and cfg.dominates(d[0], n) and not facts.guard_strings(cfg, cfg.stmt_of[d[0]])
        ok &= fresh
        detail.append(f'{recv} <- ' + (ast.unparse(cfg.stmt_of[d[0]].value) if len(d) == 1 else f'{len(d)} definitions'))
    R.check(ok, 'LogToFile.load :: the reader is FieldsIO.fromFile(cls.filename) of this very call', w, 'file = FieldsIO.fromFile(cls.filename) unconditionally, then file.readField(..)', detail)
    # no FieldsIO object is stored in class-level state anywhere in the logging hooks
    bad = []
    for name, f in ci.methods.items():
        for s in ast.walk(f):
            tg = s.targets if isinstance(s, ast.Assign) else []
            for t in tg:
                if isinstance(t, ast.Attribute) and ast.unparse(t.value) in ('cls', 'type(self)', 'LogToFile') and 'FieldsIO' in ast.unparse(s.value):
                    bad.append(f'{name}: {ast.unparse(s)[:70]}')
    R.check(not bad, 'LogToFile :: no FieldsIO reader/writer kept in class attributes', f'{LOG}:LogToFile', 'instance attribute self.outfile only', bad)


@rule('C16', 'C16.R8', 'the block of a rank follows the rank: BlockDecomposition.ranks / localBounds are derived from the settable attribute gRank on EVERY access - a property that stores its result on the object answers for the first rank that asked, so every other rank would get the same block and the rest of the grid would belong to nobody', floor=2)
def r8(ctx, R):
    repo = ctx.repo
    rel = 'pySDC/helpers/blocks.py'
    ci = repo.cls(rel, 'BlockDecomposition')
    n = 0
    for name, fn in ci.methods.items():
        if not any(ast.unparse(d) in ('property', 'functools.cached_property', 'cached_property', 'cache', 'functools.cache') or ast.unparse(d).endswith('lru_cache') for d in fn.decorator_list):
            continue
        n += 1
        w = f'{rel}:BlockDecomposition.{name}'
        R.fn(w)
        cachedeco = [ast.unparse(d) for d in fn.decorator_list if ast.unparse(d) != 'property']
        stores = [f'line {s.lineno}: {ast.unparse(s)[:70]}' for s in ast.walk(fn) if isinstance(s, (ast.Assign, ast.AugAssign, ast.AnnAssign)) for t in (s.targets if isinstance(s, ast.Assign) else [s.target]) if ast.unparse(t).startswith('self.')]
        R.check(not stores and not cachedeco, f'BlockDecomposition.{name} :: recomputed from gRank on every access (nothing is stored on the object)', w, 'a plain @property without assignments to self', stores + cachedeco)
    if n < 2:
        raise AnalysisError(f'C16.R8: properties ranks / localBounds of BlockDecomposition not found ({n})')
