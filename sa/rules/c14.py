"""rules for c14 (under construction)"""
