"""C14 - statistics are a faithful, uniquely keyed record of the run (structural clauses)."""

import ast
import re

import networkx as nx

from ..cfg import FuncCFG, walk_no_nested, ENTRY, EXIT
from ..model import AnalysisError, ClassInfo, qual
from ..norm import Normalizer
from ..runner import rule
from .. import controllers as ct

HK = 'pySDC/core/hooks.py'
SH = 'pySDC/helpers/stats_helper.py'
RECORD = ('add_to_stats', 'increment_stats')
KEYS = ['process', 'time', 'level', 'iter', 'sweep', 'type']


def _hooks(repo):
    base = repo.cls(HK, 'Hooks')
    return base, [c for c in repo.subclasses(base, strict=True) if repo.is_library(c)]


def _record_calls(fn):
    return [c for c in ast.walk(fn) if isinstance(c, ast.Call) and isinstance(c.func, ast.Attribute) and c.func.attr in RECORD and ast.unparse(c.func.value) == 'self']


@rule('C14', 'C14.R1', 'key completeness: every record carries process, time, level, iter, sweep, type with the roles of the step/level it was issued for; num_restarts cannot be overridden', floor=32)
def r1(ctx, R):
    repo = ctx.repo
    base, subs = _hooks(repo)
    time_ok = re.compile(r'^(L\.time|L\.time \+ L\.dt|t|-\d+|self\.t_last_solution)$')
    for ci in subs:
        for name, fn in ci.methods.items():
            calls = _record_calls(fn)
            if not calls:
                continue
            w = f'{ci.module.relpath}:{ci.name}.{name}'
            R.fn(w)
            N = Normalizer(fn, inline_scalars=False)
            La = N.env.alias.get('L')
            for i, c in enumerate(calls):
                kw = {k.arg: ast.unparse(k.value) for k in c.keywords if k.arg}
                ty = kw.get('type', '?')
                cons = f'{ci.name}.{name} :: record type={ty}'
                missing = [k for k in KEYS if k not in kw]
                if missing or 'value' not in kw and not c.args:
                    R.bad(cons, w, f'keys {KEYS} + value', f'missing {missing}')
                    continue
                na = lambda v: re.fullmatch(r'-\d+', v) is not None  # "not applicable" sentinel: a negative literal
                ok = time_ok.match(kw['time']) is not None and (kw['process'] == 'step.status.slot' or na(kw['process'])) and (kw['iter'] in ('step.status.iter', 'iter') or na(kw['iter'])) and (kw['level'] == 'L.level_index' or na(kw['level'])) and (kw['sweep'] == 'L.status.sweep' or na(kw['sweep']))
                if ok and kw['time'] == 't':
                    # the only sanctioned loop variable: for t in [L.time, L.time + L.dt]
                    loops = [l for l in walk_no_nested(fn) if isinstance(l, ast.For) and ast.unparse(l.target) == 't']
                    ok = len(loops) == 1 and ast.unparse(loops[0].iter) == '[L.time, L.time + L.dt]'
                if ok and 'L.' in ' '.join(kw.values()):
                    ok = La is not None and ast.unparse(La) == 'step.levels[level_number]'
                R.check(ok, cons, w, 'process=step.status.slot|-1, time=L.time|L.time+L.dt, level=L.level_index|-1, iter=step.status.iter|-1, sweep=L.status.sweep|-1 with L = step.levels[level_number]', {k: kw[k] for k in KEYS})
    # Hooks.add_to_stats / increment_stats: num_restarts after **kwargs
    for m in RECORD:
        fn = repo.func(HK, f'Hooks.{m}')
        w = f'{HK}:Hooks.{m}'
        R.fn(w)
        d = [s.value for s in walk_no_nested(fn) if isinstance(s, ast.Assign) and ast.unparse(s.targets[0]) == 'meta' and isinstance(s.value, ast.Dict)]
        ok = len(d) == 1
        if ok:
            ks = [(None if k is None else k.value, ast.unparse(v)) for k, v in zip(d[0].keys, d[0].values)]
            pos_kw = [i for i, (k, v) in enumerate(ks) if k is None and v == 'kwargs']
            pos_nr = [i for i, (k, v) in enumerate(ks) if k == 'num_restarts']
            ok = len(pos_kw) == 1 and len(pos_nr) == 1 and pos_nr[0] > pos_kw[0] and ks[pos_nr[0]][1] == 'self._Hooks__num_restarts' or (len(pos_kw) == 1 and len(pos_nr) == 1 and pos_nr[0] > pos_kw[0] and ks[pos_nr[0]][1].endswith('__num_restarts'))
        R.check(ok, f'Hooks.{m} :: num_restarts is placed after **kwargs (callers cannot override it)', w, "{**meta_data, **kwargs, 'num_restarts': self.__num_restarts}", [ast.unparse(x) for x in d])
        key = [s for s in walk_no_nested(fn) if isinstance(s, (ast.Assign, ast.AugAssign)) and '__stats[' in ast.unparse(s.targets[0] if isinstance(s, ast.Assign) else s.target)]
        R.check(bool(key) and all('entry(**meta)' in ast.unparse(s) or 'key' in ast.unparse(s) for s in key), f'Hooks.{m} :: the record is stored under the Entry built from that meta dict', w, 'self.__stats[self.entry(**meta)] = value', [ast.unparse(s)[:80] for s in key])


def _recording_methods(repo, ci):
    """names of methods (resolved on ci) that record directly"""
    out = set()
    for c in ci.mro:
        if isinstance(c, ClassInfo):
            for n, fn in c.methods.items():
                if _record_calls(fn):
                    out.add(n)
    return out


@rule('C14', 'C14.R2', 'restart count is current: a recording callback override calls super().<same callback>() before its first record (hooks are shared by all steps of a block)', floor=40)
def r2(ctx, R):
    repo = ctx.repo
    base, subs = _hooks(repo)
    # all base callbacks refresh the counter
    for cb in ct.CALLBACKS:
        fn = base.methods.get(cb)
        if fn is None:
            raise AnalysisError(f'Hooks.{cb} vanished')
        src = [ast.unparse(s) for s in walk_no_nested(fn) if isinstance(s, ast.Assign)]
        ok = any(re.fullmatch(r"self\.(_Hooks)?__num_restarts = step\.status\.get\('restarts_in_a_row'\) if step is not None else 0", s) for s in src)
        R.check(ok, f'Hooks.{cb} :: refreshes num_restarts from the step it is called for', f'{HK}:Hooks.{cb}', "self.__num_restarts = step.status.get('restarts_in_a_row') if step is not None else 0", src)
    for ci in subs:
        recm = _recording_methods(repo, ci)
        for name, fn in ci.methods.items():
            if name not in ct.CALLBACKS:
                continue
            cfg = FuncCFG(fn)
            rec_nodes = []
            for n in cfg.stmt_of:
                for c in cfg.calls_at(n):
                    if isinstance(c.func, ast.Attribute) and ast.unparse(c.func.value) == 'self' and (c.func.attr in RECORD or (c.func.attr in recm and c.func.attr not in ct.CALLBACKS)):
                        rec_nodes.append(n)
            if not rec_nodes:
                continue
            w = f'{ci.module.relpath}:{ci.name}.{name}'
            R.fn(w)
            sup = [n for n in cfg.stmt_of if any(ast.unparse(c.func) == f'super().{name}' and [ast.unparse(a) for a in c.args][:2] == ['step', 'level_number'] for c in cfg.calls_at(n))]
            ok = bool(sup) and all(any(cfg.dominates(s, r) and s != r for s in sup) for r in rec_nodes)
            R.check(ok, f'{ci.name}.{name} :: super().{name}(step, level_number) dominates every record', w, 'base callback first (it refreshes the restart count for THIS step)', f'{len(sup)} super call(s), {len(rec_nodes)} recording site(s)')


@rule('C14', 'C14.R3', 'recomputed markers: written at both ends of the step with the restart flag; the reader uses the same literal; consumed types are produced', floor=4)
def r3(ctx, R):
    repo = ctx.repo
    rel = 'pySDC/implementations/hooks/default_hook.py'
    fn = repo.func(rel, 'DefaultHooks.post_step')
    w = f'{rel}:DefaultHooks.post_step'
    R.fn(w)
    marks = [c for c in _record_calls(fn) if {k.arg: ast.unparse(k.value) for k in c.keywords}.get('type') == "'_recomputed'"]
    ok = len(marks) == 1
    if ok:
        kw = {k.arg: ast.unparse(k.value) for k in marks[0].keywords}
        loops = [l for l in walk_no_nested(fn) if isinstance(l, ast.For) and marks[0] in list(ast.walk(l))]
        ok = kw.get('value') == "step.status.get('restart')" and kw.get('time') == 't' and len(loops) == 1 and ast.unparse(loops[0].iter) == '[L.time, L.time + L.dt]'
    R.check(ok, "DefaultHooks.post_step :: '_recomputed' = restart flag at L.time and L.time + L.dt", w, "for t in [L.time, L.time + L.dt]: add_to_stats(type='_recomputed', value=step.status.get('restart'), time=t)", [ast.unparse(c)[:120] for c in marks])
    if len(marks) == 1:
        def _lit(v):
            return isinstance(v, ast.Constant) or isinstance(v, ast.UnaryOp) and isinstance(v.operand, ast.Constant)
        varying = sorted(k.arg for k in marks[0].keywords if k.arg not in ('time', 'value') and not _lit(k.value))
        R.check(not varying, "DefaultHooks.post_step :: the marker key depends on the time only (all other key fields are constants), so a later attempt at the same time overwrites the marker of an abandoned one - whichever slot computed it", w, 'process, level, iter, sweep, process_sweeper are literals', varying)
    fs = repo.func(SH, 'filter_stats')
    w = f'{SH}:filter_stats'
    R.fn(w)
    lits = sorted({c.value for c in ast.walk(fs) if isinstance(c, ast.Constant) and isinstance(c.value, str) and c.value.startswith('_')})
    R.check(lits == ['_recomputed'], "filter_stats :: reads exactly the marker literal the hook writes", w, ['_recomputed'], lits)
    # producer / consumer agreement of type literals inside the library
    produced = set()
    base, subs = _hooks(repo)
    for ci in subs:
        for fn in ci.methods.values():
            for c in _record_calls(fn):
                for k in c.keywords:
                    if k.arg == 'type':
                        if isinstance(k.value, ast.Constant):
                            produced.add(k.value.value)
                        elif isinstance(k.value, ast.JoinedStr):
                            produced.add(''.join(v.value if isinstance(v, ast.Constant) else '*' for v in k.value.values))
                        elif isinstance(k.value, (ast.Attribute, ast.Name)):
                            produced.add('*')
        for k, v in ci.class_assigns.items():
            if k == 'name' and isinstance(v, ast.Constant):
                produced.add(v.value)
    consumed = []
    for m in repo.modules.values():
        if not repo.is_library(m):
            continue
        for c in ast.walk(m.tree):
            if isinstance(c, ast.Call) and (ast.unparse(c.func).split('.')[-1] in ('get_sorted', 'filter_stats')):
                for k in c.keywords:
                    if k.arg == 'type' and isinstance(k.value, ast.Constant) and isinstance(k.value.value, str):
                        consumed.append((m.relpath, k.value.value))
    def is_produced(t):
        for p in produced:
            if p == t:
                return True
            if '*' in p and re.fullmatch(re.escape(p).replace(r'\*', '.*'), t):
                return True
        return False
    for relp, t in sorted(set(consumed)):
        R.check(is_produced(t), f"type {t!r} consumed in {relp.split('/')[-1]} is produced by a library hook", relp, 'a hook with add_to_stats(type=<that literal>)', 'no producer' if not is_produced(t) else 'ok')


def _has_counter(repo, ci, key):
    for c in ci.mro:
        if isinstance(c, ClassInfo):
            for fn in c.methods.values():
                for s in ast.walk(fn):
                    if isinstance(s, ast.Assign) and f"work_counters['{key}']" in ast.unparse(s.targets[0]):
                        return True
    return False


@rule('C14', 'C14.R5', 'work counters: every eval_f of a class with a registered rhs counter ticks it exactly once on every path (or delegates)', floor=38)
def r5(ctx, R):
    repo = ctx.repo
    base = repo.cls('pySDC/core/problem.py', 'Problem')
    for ci in repo.subclasses(base, strict=True):
        if not repo.is_library(ci) or 'eval_f' not in ci.methods or not _has_counter(repo, ci, 'rhs'):
            continue
        fn = ci.methods['eval_f']
        w = f'{ci.module.relpath}:{ci.name}.eval_f'
        R.fn(w)
        cfg = FuncCFG(fn)
        T = [n for n in cfg.stmt_of if any(ast.unparse(c.func) == "self.work_counters['rhs']" for c in cfg.calls_at(n))]
        S = [n for n in cfg.stmt_of if any(ast.unparse(c.func) == 'super().eval_f' for c in cfg.calls_at(n))]
        named = [n for n, s in cfg.stmt_of.items() if isinstance(s, ast.Expr) and ast.unparse(s.value) == "self.work_counters['rhs']"]
        pts = T + S
        at_least = bool(pts) and cfg.must_pass(ENTRY, EXIT, pts)
        at_most = all(not (set(nx.descendants(cfg.g, t)) & set(pts)) for t in pts)
        found = f'{len(T)} tick(s), {len(S)} super().eval_f' + (f"; {len(named)} statement(s) that NAME the counter without calling it" if named else '')
        R.check(at_least and at_most, f"{ci.name}.eval_f :: work_counters['rhs']() exactly once per evaluation", w, 'one tick (or one delegation) on every path to return, never inside a loop', found)


@rule('C14', 'C14.R6', 'helpers: filter_stats compares all supplied keys; sort_stats sorts ascending by the requested field', floor=3)
def r6(ctx, R):
    repo = ctx.repo
    fs = repo.func(SH, 'filter_stats')
    w = f'{SH}:filter_stats'
    R.fn(w)
    tests = [s.test for s in walk_no_nested(fs) if isinstance(s, ast.If)]
    cands = [ast.unparse(t) for t in tests if '_asdict' in ast.unparse(t)]
    first = cands[0] if cands else ''
    ok = len(cands) == 1 and first.startswith('all([k._asdict().get(k2, None) == v2 for k2, v2 in kwargs.items() if v2 is not None]')
    R.check(ok, 'filter_stats :: an entry is kept iff ALL supplied (non-None) keys are equal', w, 'all([k._asdict().get(k2) == v2 for k2, v2 in kwargs.items() if v2 is not None])', first)
    ss = repo.func(SH, 'sort_stats')
    w = f'{SH}:sort_stats'
    R.fn(w)
    srt = [c for c in ast.walk(ss) if isinstance(c, ast.Call) and ast.unparse(c.func) == 'sorted']
    ok = len(srt) == 1 and not any(k.arg == 'reverse' for k in srt[0].keywords) and any(k.arg == 'key' and ast.unparse(k.value) == 'lambda tup: tup[0]' for k in srt[0].keywords)
    R.check(ok, 'sort_stats :: ascending sort on the extracted field', w, 'sorted(result, key=lambda tup: tup[0])', [ast.unparse(c) for c in srt])
    item = [s for s in walk_no_nested(ss) if isinstance(s, ast.Assign) and ast.unparse(s.value) == 'getattr(k, sortby)']
    R.check(len(item) == 1, 'sort_stats :: the field is the requested key of the entry', w, 'item = getattr(k, sortby)', [ast.unparse(s) for s in item])
    gs = repo.func(SH, 'get_sorted')
    src = ast.unparse(gs)
    R.check('sort_stats(filter_stats(stats, **kwargs), sortby=sortby)' in src, 'get_sorted :: filter, then sort', f'{SH}:get_sorted', 'sort_stats(filter_stats(stats, **kwargs), sortby=sortby)', src[-90:])


@rule('C14', 'C14.R7', 'filter_stats(recomputed=..): superseded restart generations are removed per (time, TYPE), only generations below the highest one of that type', floor=3)
def r7(ctx, R):
    repo = ctx.repo
    fs = repo.func(SH, 'filter_stats')
    w = f'{SH}:filter_stats'
    R.fn(w)
    # (a) highest generation per type
    acc = [s for s in ast.walk(fs) if isinstance(s, ast.Assign) and isinstance(s.targets[0], ast.Subscript) and ast.unparse(s.targets[0].slice) == 'me.type' and re.fullmatch(r'max\(\[?(\w+)\.get\(me\.type, 0\), me\.num_restarts\]?\)|max\(\[?me\.num_restarts, (\w+)\.get\(me\.type, 0\)\]?\)', ast.unparse(s.value))]
    R.check(len(acc) == 1, 'filter_stats :: the highest restart generation is tracked per record type', w, 'restarts[me.type] = max([restarts.get(me.type, 0), me.num_restarts])', [ast.unparse(s) for s in acc])
    # (b) pops are restricted to that type and to strictly lower generations
    inner = [c for c in ast.walk(fs) if isinstance(c, ast.Call) and ast.unparse(c.func) == 'filter_stats' and {'type', 'num_restarts'} <= {k.arg for k in c.keywords}]
    ok = len(inner) == 1
    detail = [ast.unparse(c) for c in inner]
    if ok:
        kw = {k.arg: ast.unparse(k.value) for k in inner[0].keywords}
        comps = [g for lc in ast.walk(fs) if isinstance(lc, ast.ListComp) for g in lc.generators]
        gen_i = [g for g in comps if ast.unparse(g.target) == kw['num_restarts']]
        gen_t = [g for g in comps if isinstance(g.target, ast.Tuple) and ast.unparse(g.target.elts[0]) == kw['type']]
        ok = len(gen_i) == 1 and len(gen_t) == 1 and ast.unparse(gen_t[0].iter).endswith('.items()') and ast.unparse(gen_i[0].iter) == f'range({ast.unparse(gen_t[0].target.elts[1])})'
        detail += [ast.unparse(g.iter) for g in gen_i + gen_t]
    R.check(ok, 'filter_stats :: removes records of generations 0..max-1 of the SAME type only', w, 'for type_, n in restarts.items(): for i in range(n): pop(filter_stats(.., type=type_, num_restarts=i))', detail)
    # (c) only times that were restarted are touched
    tr = [s for s in ast.walk(fs) if isinstance(s, ast.Assign) and ast.unparse(s.targets[0]) == 'times_restarted']
    ok = len(tr) == 1 and ast.unparse(tr[0].value) == 'np.unique([me.time for me in result.keys() if me.num_restarts > 0])'
    R.check(ok, 'filter_stats :: only times that carry a restarted record are revisited', w, 'np.unique([me.time for me in result.keys() if me.num_restarts > 0])', [ast.unparse(s.value) for s in tr])


@rule('C14', 'C14.R8', 'LogWork: the baseline of every work counter is taken at the pre_step of THIS step (level 0, unconditionally) and is moved by nothing else; the record is current - baseline', floor=3)
def r8(ctx, R):
    repo = ctx.repo
    rel = 'pySDC/implementations/hooks/log_work.py'
    ci = repo.cls(rel, 'LogWork')
    store = re.compile(r'self\.(_LogWork)?__work_last_step')
    writes = {}
    for name, fn in ci.methods.items():
        for s in ast.walk(fn):
            tg = s.targets if isinstance(s, ast.Assign) else [s.target] if isinstance(s, (ast.AugAssign, ast.AnnAssign)) else []
            for t in tg:
                if isinstance(t, ast.Subscript) and store.match(ast.unparse(t)):
                    writes.setdefault(name, []).append(s)
            if isinstance(s, ast.Call) and isinstance(s.func, ast.Attribute) and s.func.attr in ('update', 'setdefault', 'pop', 'clear') and store.match(ast.unparse(s.func.value)):
                writes.setdefault(name, []).append(s)
    w = f'{rel}:LogWork'
    R.fn(w)
    R.check(sorted(writes) == ['pre_step'] and len(writes['pre_step']) == 1, 'LogWork :: the baseline store is written in pre_step only', w, {'pre_step': 1}, {k: len(v) for k, v in writes.items()})
    if 'pre_step' in writes:
        fn = ci.methods['pre_step']
        cfg = FuncCFG(fn)
        s = writes['pre_step'][0]
        node = next((n for n, st in cfg.stmt_of.items() if st is s), None)
        if node is None:
            raise AnalysisError('LogWork.pre_step: baseline write is not a statement of the method')
        g = sorted(ast.unparse(t) if p else f'not ({ast.unparse(t)})' for t, p in cfg.guards[id(s)])
        tgt = ast.unparse(s.targets[0]) if isinstance(s, ast.Assign) else ''
        val = ast.unparse(s.value) if isinstance(s, ast.Assign) else ''
        ok = g == ['level_number == 0'] and store.sub('S', tgt) == 'S[step.status.slot]' and '.niter' in val and 'range(len(step.levels))' in val and 'work_counters.keys()' in val
        R.check(ok, 'LogWork.pre_step :: every pre_step of level 0 snapshots all counters of all levels for its slot', f'{w}.pre_step', 'if level_number == 0: S[slot] = [{key: counter.niter ...} for every level]', {'guards': g, 'target': tgt, 'value': val[:120]})
    fn = ci.methods.get('post_step')
    if fn is None:
        raise AnalysisError('LogWork.post_step vanished')
    vals = [ast.unparse(k.value) for c in _record_calls(fn) for k in c.keywords if k.arg == 'value']
    ok = len(vals) == 1 and store.sub('S', vals[0]) == 'L.prob.work_counters[key].niter - S[step.status.slot][level_number][key]'
    R.check(ok, 'LogWork.post_step :: recorded work = counter now - counter at the pre_step of this slot and level', f'{w}.post_step', 'L.prob.work_counters[key].niter - S[step.status.slot][level_number][key]', vals)


@rule('C14', 'C14.R9', 'hook registry: a hook class is instantiated once per controller and duplicates are recognised by EXACT type (a subclass registered earlier must not swallow its base class: both record their own quantities)', floor=2)
def r9(ctx, R):
    repo = ctx.repo
    rel = 'pySDC/core/controller.py'
    fn = repo.func(rel, 'Controller.add_hook')
    w = f'{rel}:Controller.add_hook'
    R.fn(w)
    ifs = [s for s in walk_no_nested(fn) if isinstance(s, ast.If)]
    ok = len(ifs) == 1
    test = ast.unparse(ifs[0].test) if ifs else ''
    exact = re.fullmatch(r'hook not in \[type\((\w+)\) for \1 in self\.hooks\]', test) is not None or re.fullmatch(r'not any\(\(?type\((\w+)\) (is|==) hook for \1 in self\.hooks\)?\)', test) is not None or re.fullmatch(r'all\(\(?type\((\w+)\) (is not|!=) hook for \1 in self\.hooks\)?\)', test) is not None
    R.check(ok and exact, 'Controller.add_hook :: a hook is skipped only if an instance of exactly this class is registered already', w, 'hook not in [type(me) for me in self.hooks]  (type identity, not isinstance)', test)
    body = [ast.unparse(s) for s in (ifs[0].body if ifs else [])]
    R.check(len(body) == 1 and re.fullmatch(r'self\.(_Controller)?__hooks \+= \[hook\(\)\]', body[0]) is not None, 'Controller.add_hook :: the class is instantiated and appended once', w, 'self.__hooks += [hook()]', body)


@rule('C14', 'C14.R10', 'post_run records come from the step that ended the run only: recording post_run callbacks are guarded by step.status.last, and restart_block clears first/last on the steps that do not take part in the block it forms', floor=2)
def r10(ctx, R):
    repo = ctx.repo
    base, subs = _hooks(repo)
    for ci in subs:
        fn = ci.methods.get('post_run')
        if fn is None or not _record_calls(fn):
            continue
        w = f'{ci.module.relpath}:{ci.name}.post_run'
        R.fn(w)
        cfg = FuncCFG(fn)
        bad = []
        defs = {ast.unparse(a.targets[0]): ast.unparse(a.value) for a in ast.walk(fn) if isinstance(a, ast.Assign) and len(a.targets) == 1}
        n_sol = 0
        for n, s in cfg.stmt_of.items():
            for c in cfg.calls_at(n):
                if isinstance(c.func, ast.Attribute) and c.func.attr in RECORD and ast.unparse(c.func.value) == 'self':
                    val = next((ast.unparse(k.value) for k in c.keywords if k.arg == 'value'), '')
                    for _ in range(3):
                        val = re.sub(r'\b([A-Za-z_]\w*)\b', lambda m: f'({defs[m.group(1)]})' if m.group(1) in defs else m.group(1), val)
                    if not re.search(r'\.uend\b|\.u\[', val):
                        continue  # per-process quantities (timings) are legitimately recorded by every step
                    n_sol += 1
                    from ..norm import guards_nnf
                    from .. import facts as _facts
                    nf = guards_nnf(_facts.guard_strings(cfg, s))
                    atoms = set(nf[1]) if isinstance(nf, tuple) and nf[0] == 'and' else {nf}
                    if 'step.status.last' not in atoms:
                        bad.append(ast.unparse(c)[:60])
        if not n_sol:
            continue
        R.check(not bad, f'{ci.name}.post_run :: every record of a solution-derived quantity is written under `step.status.last` (post_run is issued for every step of the controller)', w, 'if ... step.status.last: add_to_stats(..)', bad)
    rel = 'pySDC/implementations/controller_classes/controller_nonMPI.py'
    fn = repo.func(rel, 'controller_nonMPI.restart_block')
    w = f'{rel}:controller_nonMPI.restart_block'
    R.fn(w)
    N = Normalizer(fn, inline_scalars=False)
    cl = sorted(c.describe() for c in N.contribs if re.fullmatch(r'self\.MS\[.+\]\.status\.(first|last)', c.target) and c.rhs == 'False')
    ok = len(cl) == 2 and all(re.fullmatch(r'self\.MS\[i1 - 1\]\.status\.(first|last) = \+False for i1=1\.\.len\(self\.MS\) if (len\(active_slots\) > 0 and )?i1 - 1 not in active_slots( and len\(active_slots\) > 0)?', d) for d in cl) and {d.split('.status.')[1].split(' ')[0] for d in cl} == {'first', 'last'}
    R.check(ok, 'controller_nonMPI.restart_block :: when a block is formed, every step outside it gets first = last = False', w, 'for q in all steps: if active_slots and q not in active_slots: first = last = False', cl)


@rule('C14', 'C14.R11', 'a hook that overrides the restart generation of its records (private key of the base class) does so after the base-class callback refreshed it and before it records: base callback -> override -> add_to_stats; the overriding value is the one remembered from the step that was accepted', floor=3)
def r11(ctx, R):
    repo = ctx.repo
    n = 0
    for m, ci, fn in repo.all_functions():
        if ci is None or not repo.is_library(ci) or (m.relpath == HK and ci.name == 'Hooks'):
            continue
        cfg = FuncCFG(fn)
        ov = [(k, s) for k, s in cfg.stmt_of.items() if isinstance(s, ast.Assign) and any(ast.unparse(t) in ('self._Hooks__num_restarts',) for t in s.targets)]
        if not ov:
            continue
        n += 1
        w = qual(m, ci, fn)
        R.fn(w)
        sup = [k for k in cfg.stmt_of for c in cfg.calls_at(k) if ast.unparse(c.func) == f'super().{fn.name}']
        rec = [k for k in cfg.stmt_of for c in cfg.calls_at(k) if isinstance(c.func, ast.Attribute) and c.func.attr in RECORD and ast.unparse(c.func.value) == 'self']
        ok = len(ov) == 1 and not cfg.guards.get(id(ov[0][1]))
        R.check(ok, f'{ci.name}.{fn.name} :: one unconditional override of the restart generation', w, 'self._Hooks__num_restarts = <remembered value>', [ast.unparse(s) for _, s in ov])
        if not ok:
            continue
        o = ov[0][0]
        late = [k for k in sup if cfg.reachable(o, k)]
        R.check(bool(sup) and not late, f'{ci.name}.{fn.name} :: the base-class callback (which refreshes the generation from the step status) runs before the override, never after it', w, f'super().{fn.name}(..) precedes the override', f'{len(sup)} base call(s), {len(late)} after the override')
        early = [k for k in rec if not cfg.dominates(o, k)]
        R.check(bool(rec) and not early, f'{ci.name}.{fn.name} :: the override dominates every record written by the callback', w, 'override -> add_to_stats', f'{len(rec)} record call(s), {len(early)} not dominated')
        # the remembered value: written in another callback of the same class from the step status
        val = ast.unparse(ov[0][1].value)
        src = [ast.unparse(s) for f2 in ci.methods.values() if f2.name not in ('__init__', fn.name) for s in ast.walk(f2) if isinstance(s, ast.Assign) and ast.unparse(s.targets[0]) == val]
        ok = len(src) >= 1 and all('restarts_in_a_row' in x and 'step.status' in x for x in src)
        R.check(ok, f'{ci.name} :: {val} is remembered from the status of the step the solution belongs to', f'{m.relpath}:{ci.name}', f"{val} = step.status.get('restarts_in_a_row', 0) in post_step", src)
    # the time remembered together with the generation is the END time of the step whose solution is compared in post_run
    rel = 'pySDC/implementations/hooks/log_errors.py'
    ps = repo.func(rel, 'LogGlobalErrorPostRun.post_step')
    tl = [ast.unparse(s_.value) for s_ in ast.walk(ps) if isinstance(s_, ast.Assign) and ast.unparse(s_.targets[0]) == 'self.t_last_solution']
    R.fn(f'{rel}:LogGlobalErrorPostRun.post_step')
    R.check(tl in (['step.levels[0].time + step.levels[0].dt'], ['step.levels[0].dt + step.levels[0].time'], ['step.time + step.dt'], ['step.dt + step.time']), 'LogGlobalErrorPostRun.post_step :: the remembered time is the end of the step (time + dt of level 0)', f'{rel}:LogGlobalErrorPostRun.post_step', 'self.t_last_solution = step.levels[0].time + step.levels[0].dt', tl)
    if not n:
        raise AnalysisError('C14.R11: the confirmed override site (LogGlobalErrorPostRun.post_run) not found')


@rule('C14', 'C14.R12', 'accumulated records accumulate: increment_stats ADDS to an existing entry and creates a missing one (with `initialize` if given, else with the value) - the membership test and the two stores are wired in this polarity', floor=3)
def r12(ctx, R):
    repo = ctx.repo
    fn = repo.func(HK, 'Hooks.increment_stats')
    w = f'{HK}:Hooks.increment_stats'
    R.fn(w)
    cfg = FuncCFG(fn)
    rows = []
    for n, s in cfg.stmt_of.items():
        tgt = s.target if isinstance(s, ast.AugAssign) else s.targets[0] if isinstance(s, ast.Assign) and len(s.targets) == 1 else None
        if tgt is None or not (isinstance(tgt, ast.Subscript) and ast.unparse(tgt.value).endswith('__stats')):
            continue
        g = tuple(sorted((ast.unparse(t), pol) for t, pol in cfg.guards.get(id(s), ())))
        rows.append(('+=' if isinstance(s, ast.AugAssign) else '=', ast.unparse(s.value), g))
    member = lambda g, pol: any(re.fullmatch(r'key in self\.(_Hooks)?__stats(\.keys\(\))?', t) and p == pol for t, p in g)
    add = [r for r in rows if r[0] == '+=']
    new = [r for r in rows if r[0] == '=']
    R.check(len(add) == 1 and add[0][1] == 'value' and member(add[0][2], True), 'Hooks.increment_stats :: an existing entry is incremented by the value', w, 'if key in stats: stats[key] += value', add)
    ini = [r for r in new if r[1] == 'initialize']
    val = [r for r in new if r[1] == 'value']
    R.check(len(ini) == 1 and member(ini[0][2], False) and any(t == 'initialize is not None' and p for t, p in ini[0][2]), 'Hooks.increment_stats :: a missing entry starts from `initialize` when it is given', w, 'elif initialize is not None: stats[key] = initialize', ini)
    R.check(len(val) == 1 and member(val[0][2], False) and any(t == 'initialize is not None' and not p for t, p in val[0][2]), 'Hooks.increment_stats :: otherwise a missing entry starts from the value', w, 'else: stats[key] = value', val)


@rule('C14', 'C14.R13', 'superseded generations are removed GLOBALLY: filter_stats merges the records of all ranks (comm.allgather) BEFORE it removes recomputed values - the rejected attempt of a step and its recomputation live on different ranks whenever a restart moves the step to another slot, so a removal per rank leaves the superseded record in the gathered result', floor=2)
def r13(ctx, R):
    repo = ctx.repo
    rel = 'pySDC/helpers/stats_helper.py'
    fn = repo.func(rel, 'filter_stats')
    w = f'{rel}:filter_stats'
    R.fn(w)
    gather = [i for i, s in enumerate(fn.body) if any(isinstance(c, ast.Call) and isinstance(c.func, ast.Attribute) and c.func.attr in ('allgather', 'gather', 'allreduce') for c in ast.walk(s))]
    removal = [i for i, s in enumerate(fn.body) if isinstance(s, ast.If) and any(isinstance(n, ast.Name) and n.id == 'recomputed' for n in ast.walk(s.test))]
    if len(gather) != 1 or len(removal) != 1:
        raise AnalysisError(f'filter_stats: expected one gathering statement and one `recomputed` block at the top level, found {len(gather)} / {len(removal)} - re-confirm C14.R13')
    R.check(gather[0] < removal[0], 'filter_stats :: the ranks are merged before superseded records are removed', w, 'comm.allgather(..) block, then the `recomputed` block', f'gather is statement #{gather[0]}, removal is statement #{removal[0]}')
    g = fn.body[gather[0]]
    guarded = isinstance(g, ast.If) and ast.unparse(g.test) in ('comm is not None', 'comm')
    tgt = [ast.unparse(t) for s in ast.walk(g) if isinstance(s, ast.Assign) for t in s.targets]
    R.check(guarded and tgt == ['result'], 'filter_stats :: the merged dictionary replaces `result` (what every later filter and the return see)', w, 'if comm is not None: result = {merge of comm.allgather(result)}', {'guard': ast.unparse(g.test) if isinstance(g, ast.If) else None, 'assigned': tgt})
