"""C19 - runs are reproducible, re-entrant and composable (structural clauses: reset discipline, state that outlives a run,
randomness, cloning of steps)."""

import ast
from fractions import Fraction
import re

from ..cfg import FuncCFG, walk_no_nested, ENTRY, EXIT
from ..model import AnalysisError, ClassInfo, qual
from ..norm import Normalizer
from ..runner import rule
from .. import controllers as ct
from .. import facts

RUNTIME = ('pySDC/core/', 'controller_classes', 'sweeper_classes', 'convergence_controller_classes', 'transfer_classes', '/hooks/', 'pySDC/helpers/pysdc_helper.py', 'pySDC/helpers/stats_helper.py')
STEP_STATUS_RESET = ['done', 'prev_done', 'iter', 'stage', 'force_done', 'first', 'last', 'slot', 'time_size']
LEVEL_SLOT_EXC = {
    'u_avg': 'written by prepare_Jacobians before it is read, in the only code that reads it (ParaDiag)',
    'residual': 'rebound by compute_residual (L.residual = self.integrate()) before it is read',
    'increment': 'written by the ParaDiag iteration before it is read',
}


def _is_runtime(rel):
    return any(x in rel for x in RUNTIME)


@rule('C19', 'C19.R1', 'reset at run/block start: statistics cleared before anything is recorded; restart_block assigns every step status field the handlers read; reset_level rebinds every data slot', floor=24)
def r1(ctx, R):
    repo = ctx.repo
    for spec in ct.ALL:
        rel, cn, driver = spec
        fn = repo.func(rel, f'{cn}.run')
        w = f'{rel}:{cn}.run'
        R.fn(w)
        cfg = FuncCFG(fn)
        rs = [n for n in cfg.stmt_of if any(ast.unparse(c.func) == 'hook.reset_stats' for c in cfg.calls_at(n))]
        ok = len(rs) == 1
        if ok:
            lp = cfg.loops_of[id(cfg.stmt_of[rs[0]])]
            hdr = cfg.node_of[id(lp[0])] if lp else rs[0]
            ok = bool(lp) and ast.unparse(lp[0].iter) == 'self.hooks'
            later = [n for n in cfg.stmt_of if any(isinstance(c.func, ast.Attribute) and c.func.attr in ('restart_block', driver, 'pre_run', 'post_setup') for c in cfg.calls_at(n))]
            ok = ok and bool(later) and all(cfg.dominates(hdr, n) for n in later)
        R.check(ok, f'{cn}.run :: every hook forgets the previous run before restart_block / the first callback', w, 'for hook in self.hooks: hook.reset_stats() dominating restart_block and all callbacks', f'{len(rs)} reset site(s)')
        fn = repo.func(rel, f'{cn}.restart_block')
        w = f'{rel}:{cn}.restart_block'
        R.fn(w)
        N = Normalizer(fn, inline_scalars=False)
        fields = {}
        for c in N.contribs:
            m = re.fullmatch(r'(self\.MS\[p\]|self\.S)\.status\.(\w+)', c.target)
            if m and c.op == '=':
                fields[m.group(2)] = c
        want = [f for f in STEP_STATUS_RESET if not (cn == 'controller_MPI' and f == 'slot')]
        missing = [f for f in want if f not in fields]
        R.check(not missing, f'{cn}.restart_block :: assigns every step status field that handlers read before writing', w, want, f'missing {missing}')
        cond = [f for f, c in fields.items() if any('status' in g for g in c.guards)]
        R.check(not cond, f'{cn}.restart_block :: the status reset does not depend on the previous status', w, 'unconditional assignments', cond)
        calls = [c[0] for c in N.calls]
        ok = any(re.fullmatch(r'(self\.MS\[p\]|self\.S)\.reset_step\(\)', c) for c in calls) and any(re.fullmatch(r'(self\.MS\[p\]|self\.S)\.init_step\(u0\)', c) for c in calls)
        if ok:
            cfg = FuncCFG(fn)
            a = [n for n in cfg.stmt_of if any(isinstance(c.func, ast.Attribute) and c.func.attr == 'reset_step' for c in cfg.calls_at(n))]
            b = [n for n in cfg.stmt_of if any(isinstance(c.func, ast.Attribute) and c.func.attr == 'init_step' for c in cfg.calls_at(n))]
            ok = cfg.dominates(a[0], b[0])
        R.check(ok, f'{cn}.restart_block :: reset_step() before init_step(u0)', w, 'levels are emptied, then u[0] is set', 'order/calls differ')
        rsv = [c for c in calls if c.startswith('C.reset_status_variables(')]
        R.check(len(rsv) == 1, f'{cn}.restart_block :: convergence controllers reset their status variables for the new block', w, 'C.reset_status_variables(self, ...) for every controller', rsv)
    # Step.reset_step -> Level.reset_level for all levels
    fn = repo.func('pySDC/core/step.py', 'Step.reset_step')
    N = Normalizer(fn, inline_scalars=False)
    ok = any(c[0] == 'l.reset_level()' and c[1] and c[1][0].it == 'self.levels' for c in N.calls)
    R.check(ok, 'Step.reset_step :: resets every level', 'pySDC/core/step.py:Step.reset_step', 'for l in self.levels: l.reset_level()', [c[0] for c in N.calls])
    lv = repo.cls('pySDC/core/level.py', 'Level')
    init, reset = lv.methods['__init__'], lv.methods['reset_level']
    declared = []
    for s in walk_no_nested(init):
        if isinstance(s, ast.AnnAssign) and isinstance(s.target, ast.Attribute) and ast.unparse(s.target.value) == 'self' and s.value is not None:
            if isinstance(s.value, ast.BinOp) or (isinstance(s.value, ast.Constant) and s.value.value is None and s.target.attr in ('uend',)):
                declared.append(s.target.attr)
    rebound = {ast.unparse(t)[5:] for s in walk_no_nested(reset) if isinstance(s, ast.Assign) for t in s.targets if ast.unparse(t).startswith('self.')}
    w = 'pySDC/core/level.py:Level.reset_level'
    R.fn(w)
    for a in declared:
        if a in rebound:
            # a reset level is a fresh level: the slot gets the expression the constructor gives it (M+1 entries for u/uold/f/fold, M for tau)
            iv = [ast.unparse(s.value) for s in walk_no_nested(init) if isinstance(s, ast.AnnAssign) and ast.unparse(s.target) == f'self.{a}']
            rv = [ast.unparse(s.value) for s in walk_no_nested(reset) if isinstance(s, ast.Assign) and any(ast.unparse(t) == f'self.{a}' for t in s.targets)]
            R.check(len(rv) == 1 and rv == iv[-1:], f'Level.reset_level :: rebinds {a}', w, f'self.{a} = {iv[-1] if iv else "?"} (as in Level.__init__)', rv)
        elif a in LEVEL_SLOT_EXC:
            R.exc(f'Level.reset_level :: does not rebind {a}', w, LEVEL_SLOT_EXC[a])
        else:
            R.bad(f'Level.reset_level :: rebinds {a}', w, 'every data slot declared in Level.__init__ is reset', f'{a} keeps the objects of the previous step')
    if len(declared) < 8:
        raise AnalysisError(f'Level.__init__: only {len(declared)} data slots recognised')
    st = [s for s in walk_no_nested(reset) if isinstance(s, ast.Assign) and ast.unparse(s.targets[0]) == 'self.status']
    cfg = FuncCFG(reset)
    ok = len(st) == 1 and ast.unparse(st[0].value) == '_Status()' and facts.guard_strings(cfg, st[0]) == ['reset_status']
    R.check(ok, 'Level.reset_level :: a fresh level status with reset_status', w, 'self.status = _Status() if reset_status', [ast.unparse(s) for s in st])


# class-level / global state written from methods, each with the reason it cannot change a result (table B5)
CLASS_STATE = {
    'FrozenClass.__init_subclass__': 'per-subclass allow-list created at class creation time',
    'FrozenClass.add_attr': 'append-only allow-list of attribute names: only widens what may be assigned, never a value',
    'mesh.__new__': 'communicator of the last mesh built from a tuple; None in every serial run',
    'cupy_mesh.__new__': 'same as mesh (GPU variant)',
    'RungeKuttaIMEX.__init__': 'idempotent default: weights_explicit = weights if it was None',
    'LogToPickleFile.log_to_file': 'file counter of a logging hook (names of output files only)',
    'LogToFile.__init__': 'forwards the user flag allow_overwriting to FieldsIO.ALLOW_OVERWRITE',
    'LogToFile.pre_run': 'counter of written solutions (bookkeeping of the output file)',
    'LogToFile.post_step': 'same',
    'LogToFile.post_run': 'same',
    'Rectilinear.setupMPI': 'explicit user call that configures parallel output',
    'SpectralHelper1D.setup_GPU': 'explicit backend switch (user call)', 'SpectralHelper1D.setup_CPU': 'explicit backend switch (user call)',
    'SpectralHelper.setup_GPU': 'explicit backend switch (user call)', 'SpectralHelper.setup_CPU': 'explicit backend switch (user call)',
    'testequation0d.setup_GPU': 'explicit backend switch (user call)', 'IMEX_Laplacian_MPIFFT.setup_GPU': 'explicit backend switch (user call)',
    'polynomial_testequation.__init__': 'GPU switch selected by the useGPU parameter',
}


def _class_writes(repo, fn):
    names = set(repo.by_simple)
    params = {a.arg for a in fn.args.args + fn.args.kwonlyargs}
    local = {n.id for n in ast.walk(fn) if isinstance(n, ast.Name) and isinstance(n.ctx, ast.Store)}
    out = []
    for s in ast.walk(fn):
        tg = s.targets if isinstance(s, ast.Assign) else [s.target] if isinstance(s, (ast.AugAssign, ast.AnnAssign)) else []
        for t in tg:
            if isinstance(t, ast.Attribute):
                b = ast.unparse(t.value)
                if b in ('cls', 'type(self)', 'self.__class__') or (b in names and b not in params and b not in local):
                    out.append(ast.unparse(t))
        if isinstance(s, ast.Global):
            out += [f'global {n}' for n in s.names]
    return out


@rule('C19', 'C19.R2', 'state that outlives a run: every write to a class attribute / module global from a method is a tabled entry with a reason (B5)', floor=18)
def r2(ctx, R):
    repo = ctx.repo
    seen = set()
    for m, ci, fn in repo.all_functions():
        ws = _class_writes(repo, fn)
        if not ws:
            continue
        name = (ci.name + '.' if ci else '') + fn.name
        w = qual(m, ci, fn)
        R.fn(w)
        if name in CLASS_STATE:
            seen.add(name)
            R.exc(f'{name} :: writes {sorted(set(ws))[:3]}', w, CLASS_STATE[name])
        else:
            R.bad(f'{name} :: writes {sorted(set(ws))[:3]}', w, 'no class-level / global state written from a method (or a table entry with the reason it cannot change a result)', f'{sorted(set(ws))}')
    missing = set(CLASS_STATE) - seen
    if missing:
        raise AnalysisError(f'C19.R2: tabled class-state writers not found any more: {sorted(missing)[:4]}')
    # positive control
    pc = ast.parse('class K:\n    n = 0\n    def f(self):\n        type(self).n += 1\n').body[0].body[1]
    if not _class_writes(repo, pc):
        raise AnalysisError('C19.R2 positive control not detected')


GLOBAL_RNG = re.compile(r'^(np|numpy|cp|xp|self\.xp)\.random\.(?!RandomState$|default_rng$|Generator$|SeedSequence$)\w+$|^random\.\w+$')


@rule('C19', 'C19.R3', 'randomness: no draw from a global RNG in run-time modules; per-instance generators are re-seeded on a path from run()/restart_block', floor=2)
def r3(ctx, R):
    repo = ctx.repo
    n = 0
    for m, ci, fn in repo.all_functions():
        draws = sorted({ast.unparse(c.func) for c in ast.walk(fn) if isinstance(c, ast.Call) and GLOBAL_RNG.match(ast.unparse(c.func))})
        if not draws:
            continue
        name = (ci.name + '.' if ci else '') + fn.name
        w = qual(m, ci, fn)
        if _is_runtime(m.relpath):
            n += 1
            R.bad(f'{name} :: draws from the global RNG {draws}', w, 'a seeded per-instance generator', draws)
        else:
            R.note(f'{name} :: uses the global RNG {draws}', w, 'outside the run-time modules anchored by C19 (problem classes / DAE project): initial data or project-specific predictor')
    R.ok('run-time modules :: scan for global RNG draws', 'pySDC/core + implementations/{controller,sweeper,convergence_controller,transfer}_classes + hooks', found=f'{n} draw site(s)')
    # per-instance generators
    gens = []
    W = ctx.memo('attr_writes', lambda: facts.attr_writes(repo))
    for x in W:
        if _is_runtime(x.module.relpath) and x.receiver == 'self' and isinstance(x.value, ast.Call) and re.search(r'random\.(RandomState|default_rng)$', ast.unparse(x.value.func)):
            gens.append(x)
    if not gens:
        raise AnalysisError('C19.R3: Sweeper.rng (the confirmed per-instance generator) not found')
    for g in gens:
        cname = g.cls.name if g.cls else '?'
        resets = [y for y in W if y.attr == g.attr and y.receiver.endswith(('sweep', 'self')) and y is not g and _is_runtime(y.module.relpath) and y.fn.name not in ('__init__',)]
        seeds = [c for c in ctx.memo('call_sites', lambda: facts.call_sites(repo)) if c.name == 'seed' and c.receiver and c.receiver.endswith(g.attr)]
        ok = bool(resets) or bool(seeds)
        R.check(ok, f'{cname}.{g.fn.name} :: generator self.{g.attr} is re-seeded / re-created at the start of a run or block', g.qual, f'an assignment or .seed() of {g.attr} reachable from run()/restart_block/predict', f'created in {g.fn.name} only; advanced by every predict() with initial_guess=random')


@rule('C19', 'C19.R4', 'steps are clones by value: MS[1:] are dill copies of MS[0] or freshly constructed, never references', floor=2)
def r4(ctx, R):
    repo = ctx.repo
    for spec in (ct.NONMPI, ct.PARADIAG):
        rel, cn, _ = spec
        fn = repo.func(rel, f'{cn}.__init__')
        w = f'{rel}:{cn}.__init__'
        R.fn(w)
        app = [ast.unparse(c.args[0]) for c in ast.walk(fn) if isinstance(c, ast.Call) and ast.unparse(c.func) == 'self.MS.append' and c.args]
        first = [ast.unparse(s.value) for s in walk_no_nested(fn) if isinstance(s, (ast.Assign, ast.AnnAssign)) and ast.unparse(s.targets[0] if isinstance(s, ast.Assign) else s.target) == 'self.MS']
        ok = first in (['[Step(description)]'], ['[]']) and bool(app) and all(a == 'dill.copy(self.MS[0])' or re.fullmatch(r'(\w+\.)?Step\(description\)', a) for a in app)
        R.check(ok, f'{cn}.__init__ :: steps are independent objects', w, 'self.MS = [Step(description)]; append dill.copy(self.MS[0]) | Step(description)', {'first': first, 'appended': app})


@rule('C19', 'C19.R5', 'k-dependent preconditioner matrices are rebuilt at every sweep index, so none survives from an earlier sweep or run (shared with C02.R6)', floor=4)
def r5(ctx, R):
    from . import c02
    c02.r6(ctx, R)


@rule('C19', 'C19.R6', 'statistics handed out are never reused: reset_stats rebinds a new dict, return_stats merges into a new dict', floor=3)
def r6(ctx, R):
    repo = ctx.repo
    HK = 'pySDC/core/hooks.py'
    fn = repo.func(HK, 'Hooks.reset_stats')
    st = [s for s in walk_no_nested(fn) if isinstance(s, ast.Assign) and ast.unparse(s.targets[0]).endswith('__stats')]
    calls = [ast.unparse(c.func) for c in ast.walk(fn) if isinstance(c, ast.Call)]
    ok = len(st) == 1 and ast.unparse(st[0].value) in ('{}', 'dict()') and not any(c.endswith('.clear') for c in calls)
    R.check(ok, 'Hooks.reset_stats :: rebinds a fresh dict (the old one may still be referenced by the caller of the previous run)', f'{HK}:Hooks.reset_stats', 'self.__stats = {}', [ast.unparse(s) for s in st] + calls)
    rs = repo.func(HK, 'Hooks.return_stats')
    R.check([ast.unparse(s.value) for s in walk_no_nested(rs) if isinstance(s, ast.Return)] == ['self.__stats'], 'Hooks.return_stats :: returns the live dict (hence the two rules around it)', f'{HK}:Hooks.return_stats', 'return self.__stats', 'see source')
    CT = 'pySDC/core/controller.py'
    fn = repo.func(CT, 'Controller.return_stats')
    w = f'{CT}:Controller.return_stats'
    R.fn(w)
    ret = [s for s in walk_no_nested(fn) if isinstance(s, ast.Return) and s.value is not None]
    ok = len(ret) == 1 and isinstance(ret[0].value, ast.Name)
    detail = []
    if ok:
        v = ret[0].value.id
        defs = sorted([s for s in walk_no_nested(fn) if isinstance(s, ast.Assign) and ast.unparse(s.targets[0]) == v], key=lambda s: s.lineno)
        fresh = [isinstance(s.value, ast.Dict) or ast.unparse(s.value) == 'dict()' for s in defs]
        inplace = [ast.unparse(c) for c in ast.walk(fn) if isinstance(c, ast.Call) and isinstance(c.func, ast.Attribute) and c.func.attr in ('update', 'setdefault', '__setitem__') and ast.unparse(c.func.value) == v]
        # in-place growth of the accumulator is fine only if the accumulator itself started as a fresh dict
        first_fresh = bool(defs) and (isinstance(defs[0].value, ast.Dict) and not defs[0].value.keys or ast.unparse(defs[0].value) == 'dict()')
        ok = all(fresh) and first_fresh
        detail = [ast.unparse(s) for s in defs] + inplace
    R.check(ok, 'Controller.return_stats :: the merged statistics are a new dict, never the dict of one of the hooks', w, 'stats = {}; stats = {**stats, **hook.return_stats()}', detail)


@rule('C19', 'C19.R7', 'a description can be reused: per-level parameter dictionaries are NEW dictionaries (constructors write their defaults into them), never the dictionaries owned by the caller', floor=5)
def r7(ctx, R):
    from ..purity import Purity
    repo = ctx.repo
    rel = 'pySDC/core/step.py'
    fn = repo.func(rel, 'Step.__dict_to_list')
    w = f'{rel}:Step.__dict_to_list'
    R.fn(w)
    P = Purity(fn)
    if not P.returns:
        raise AnalysisError(f'{w}: no return found')
    al = [ast.unparse(s) for s, tags in P.returns if any(t[0] == 'param' for t in tags)]
    R.check(not al, 'Step.__dict_to_list :: every returned dictionary is newly built (values copied key by key), on every path', w, 'no return value aliases or contains in_dict', al)
    hits = [h.target for h in P.hits if h.params()]
    R.check(not hits, 'Step.__dict_to_list :: the incoming dictionary is not modified', w, 'no store into in_dict', hits)
    gh = repo.func(rel, 'Step.__generate_hierarchy')
    w2 = f'{rel}:Step.__generate_hierarchy'
    R.fn(w2)
    src = {ast.unparse(s.targets[0]): ast.unparse(s.value) for s in walk_no_nested(gh) if isinstance(s, ast.Assign) and len(s.targets) == 1}
    for key, var in (('problem_params', 'pparams_list'), ('level_params', 'lparams_list'), ('sweeper_params', 'swparams_list')):
        ok = re.fullmatch(rf"self\.(_Step)?__dict_to_list\(descr\['{key}'\]\)", src.get(var, '')) and src.get(f"descr_new['{key}']") == var
        R.check(bool(ok), f"Step.__generate_hierarchy :: {key} handed to the levels are the per-level copies", w2, f"{var} = self.__dict_to_list(descr['{key}']); descr_new['{key}'] = {var}", {var: src.get(var), f"descr_new['{key}']": src.get(f"descr_new['{key}']")})
    lv = [c for c in ast.walk(gh) if isinstance(c, ast.Call) and ast.unparse(c.func) == 'Level']
    if len(lv) != 1:
        raise AnalysisError(f'{w2}: expected one Level(...) construction')
    kw = {k.arg: ast.unparse(k.value) for k in lv[0].keywords}
    want = {k: f"descr_list[l]['{k}']" for k in ('problem_params', 'sweeper_params', 'level_params')}
    R.check({k: kw.get(k) for k in want} == want and src.get('descr_list', '').endswith('__dict_to_list(descr_new)') and src.get('descr_new') == 'descr.copy()', 'Step.__generate_hierarchy :: Level receives the entries of descr_list (built from the copy descr_new), not of the caller\'s description', w2, want, {k: kw.get(k) for k in want})


def _ev(node, env):
    """integer evaluation of the small index expressions of prepare_next_block over a finite environment"""
    if isinstance(node, ast.Constant) and isinstance(node.value, int):
        return node.value
    if isinstance(node, ast.BinOp) and isinstance(node.op, (ast.Add, ast.Sub)):
        a, b = _ev(node.left, env), _ev(node.right, env)
        return a + b if isinstance(node.op, ast.Add) else a - b
    if isinstance(node, ast.UnaryOp) and isinstance(node.op, ast.USub):
        return -_ev(node.operand, env)
    u = ast.unparse(node)
    if u in env:
        return env[u]
    raise AnalysisError(f'prepare_next_block: index expression {u!r} is outside the affine vocabulary (slot, restart_from, size)')


@rule('C19', 'C19.R8', 'restart counters do not leak into later blocks/runs: after the per-step loop of prepare_next_block EVERY slot of the next block has been assigned a counter (finite case analysis over size <= 6, restart point, slot on the extracted index expressions)', floor=1)
def r8(ctx, R):
    repo = ctx.repo
    rel = 'pySDC/implementations/convergence_controller_classes/basic_restarting.py'
    fn = repo.func(rel, 'BasicRestartingNonMPI.prepare_next_block')
    w = f'{rel}:BasicRestartingNonMPI.prepare_next_block'
    R.fn(w)
    rf = [s for s in walk_no_nested(fn) if isinstance(s, ast.Assign) and ast.unparse(s.targets[0]) == 'restart_from']
    if len(rf) != 1 or ast.unparse(rf[0].value) != 'min([me.status.slot for me in MS if me.status.restart] + [size - 1])':
        raise AnalysisError(f'{w}: definition of restart_from changed - re-confirm the range 0..size-1 assumed by C19.R8')
    branch = [s for s in fn.body if isinstance(s, ast.If) and 'restart_from' in ast.unparse(s.test)]
    if len(branch) != 1 or not isinstance(branch[0].test, ast.Compare) or len(branch[0].test.ops) != 1:
        raise AnalysisError(f'{w}: expected one if/else on the restart point')
    br = branch[0]

    def targets(body):
        """index expressions (ast) of the steps whose restarts_in_a_row is assigned in this arm; 'S' means the step itself"""
        alias = {}
        out = []
        for s in body:
            for x in ast.walk(s):
                if isinstance(x, ast.Assign) and isinstance(x.targets[0], ast.Name) and isinstance(x.value, ast.Subscript) and ast.unparse(x.value.value) == 'MS':
                    alias[x.targets[0].id] = x.value.slice
                if isinstance(x, ast.Assign) and ast.unparse(x.targets[0]).endswith('.status.restarts_in_a_row'):
                    base = x.targets[0].value.value
                    if isinstance(base, ast.Subscript) and ast.unparse(base.value) == 'MS':
                        out.append(base.slice)
                    elif isinstance(base, ast.Name) and base.id in alias:
                        out.append(alias[base.id])
                    elif isinstance(base, ast.Name) and base.id == 'S':
                        out.append(ast.parse('S.status.slot', mode='eval').body)
                    else:
                        raise AnalysisError(f'{w}: cannot resolve the step written by `{ast.unparse(x)}`')
        return out

    arms = (targets(br.body), targets(br.orelse))
    ops = {ast.Lt: lambda a, b: a < b, ast.LtE: lambda a, b: a <= b, ast.Gt: lambda a, b: a > b, ast.GtE: lambda a, b: a >= b}
    op = ops.get(type(br.test.ops[0]))
    if op is None:
        raise AnalysisError(f'{w}: unexpected comparison in the branch on the restart point')
    uncovered = []
    for size in range(1, 7):
        for r in range(size):
            got = set()
            for slot in range(size):
                env = {'S.status.slot': slot, 'restart_from': r, 'size': size}
                arm = arms[0] if op(_ev(br.test.left, env), _ev(br.test.comparators[0], env)) else arms[1]
                for t in arm:
                    i = _ev(t, env)
                    if -size <= i < size:
                        got.add(i % size)
            miss = sorted(set(range(size)) - got)
            if miss:
                uncovered.append((size, r, miss))
    summary = '; '.join(f'size={s} restart_from={r}: slot(s) {m} keep the old counter' for s, r, m in uncovered[:4]) + (f' (+{len(uncovered) - 4} more cases)' if len(uncovered) > 4 else '')
    R.check(not uncovered, 'BasicRestartingNonMPI.prepare_next_block :: every slot of the next block is assigned a restart counter' + (f' [{summary}]' if uncovered else ''), w, 'for every block size and restart point the assigned positions cover 0..size-1', f'{len(uncovered)} uncovered case(s) of {sum(range(1, 7))}: ' + summary)


@rule('C19', 'C19.R9', 'hook state that outlives a step: the LogWork baseline is re-taken at every pre_step, so work done between two runs on the same controller is not charged to the next run (shared with C14.R8)', floor=3)
def r9(ctx, R):
    from . import c14
    c14.r8(ctx, R)


# table B6: sweeper instance state written outside __init__ (it outlives a step and, because sweeper objects live as long as the controller, a run)
B6 = {
    ('Sweeper', 'genQI'): 'generator object of the configured preconditioner, rebuilt from the configured name whenever the matrix is rebuilt; no history',
    ('Sweeper', 'genQE'): 'same for the explicit preconditioner',
    ('Sweeper', 'parallelizable'): 'flag derived from the configured preconditioner, idempotent',
    ('Sweeper', 'QI'): 'rebuilt for every sweep index by updateVariableCoeffs (C19.R5 / C02.R6): nothing of an earlier sweep survives',
    ('Sweeper', 'QE'): 'same',
    ('QDiagonalization', 'w'): 'set_G_inv: diagonalisation of the configured matrices, a pure function of its argument',
    ('QDiagonalization', 'S'): 'same',
    ('QDiagonalization', 'S_inv'): 'same',
    ('RungeKutta', 'u_secondary'): 'embedded solution: re-created from u[0] in every compute_end_point before it is accumulated',
    ('RungeKuttaIMEX', 'u_secondary'): 'same',
    ('MultiStep', 'cache'): 'history of the multistep method: advanced by every step by design; predict() re-creates it when the step does not start where the history ends (fix F23, checked below)',
    ('RungeKuttaDAE', 'du_init'): 'derivative carried from the end of one step to the start of the next; initialised once from du_exact(t0) - re-runs of BackwardEulerDAE / TrapezoidalRuleDAE / EDIRK4DAE on one controller were bit-identical (only the start guess of the stage solves), kept as a documented exception',
    ('RungeKuttaDAE', 'fully_initialized'): 'guards the one-time initialisation of du_init (see there)',
}


@rule('C19', 'C19.R10', 'sweeper objects live as long as the controller: every instance attribute a sweeper writes outside __init__ (and every history container it advances) is a tabled entry with a reason (B6) - a history that is not reset at the start of a run makes the second run on a controller differ from the first', floor=10)
def r10(ctx, R):
    repo = ctx.repo
    base = repo.cls('pySDC/core/sweeper.py', 'Sweeper')
    seen = set()
    found = {}
    for ci in repo.subclasses(base):
        if not (repo.is_library(ci) or 'projects/DAE/sweepers' in ci.module.relpath):
            continue
        for name, fn in ci.methods.items():
            if name == '__init__' or id(fn) in seen:
                continue
            seen.add(id(fn))
            if any('setter' in ast.unparse(d) for d in fn.decorator_list):
                continue
            w = f'{ci.module.relpath}:{ci.name}.{name}'
            for s in ast.walk(fn):
                tg = s.targets if isinstance(s, ast.Assign) else [s.target] if isinstance(s, (ast.AugAssign, ast.AnnAssign)) else []
                for t in tg:
                    for e in (t.elts if isinstance(t, (ast.Tuple, ast.List)) else [t]):
                        b = e
                        while isinstance(b, ast.Subscript):
                            b = b.value
                        if isinstance(b, ast.Attribute) and isinstance(b.value, ast.Name) and b.value.id == 'self':
                            found.setdefault((ci.name, b.attr), (w, 'assigned'))
                if isinstance(s, ast.Call) and isinstance(s.func, ast.Attribute) and s.func.attr in ('update', 'append', 'add', 'pop', 'clear', 'extend', 'insert') and isinstance(s.func.value, ast.Attribute) and isinstance(s.func.value.value, ast.Name) and s.func.value.value.id == 'self' and s.func.value.attr not in ('logger', 'params'):
                    found[(ci.name, s.func.value.attr)] = (w, f'advanced by .{s.func.attr}(..)')
    for (cn, attr), (w, how) in sorted(found.items()):
        R.fn(w)
        c = f'{cn}.{attr} :: sweeper instance state {how} outside __init__'
        if (cn, attr) in B6:
            R.exc(c, w, B6[(cn, attr)])
        else:
            R.bad(c, w, 'state that is rebuilt before it is read, or reset at the start of a run (an entry of table B6 with the reason)', f'{how} in {w.split(":")[1]}; nothing on a path from run()/restart_block resets it')
    multistep_reset(ctx, R)
    missing = set(B6) - set(found)
    if missing:
        raise AnalysisError(f'C19.R10: tabled sweeper state not found any more: {sorted(missing)}')

def _prob_aliases(fn):
    """local names bound to a problem object (`P = L.prob`, `prob = lvl.prob`)"""
    al = set()
    for s in walk_no_nested(fn):
        if isinstance(s, ast.Assign) and len(s.targets) == 1 and isinstance(s.targets[0], ast.Name) and isinstance(s.value, ast.Attribute) and s.value.attr == 'prob':
            al.add(s.targets[0].id)
    return al


def _prob_attr(e, al):
    """attribute name if e is `<..>.prob.<attr>` or `<alias>.<attr>`"""
    if isinstance(e, ast.Attribute):
        v = e.value
        if isinstance(v, ast.Attribute) and v.attr == 'prob':
            return e.attr
        if isinstance(v, ast.Name) and v.id in al:
            return e.attr
    return None


def _prob_state(fn):
    """(writes, reads) of problem attributes in fn: {attr: [lineno]}"""
    al = _prob_aliases(fn)
    wr, rd = {}, {}
    for n in ast.walk(fn):
        if isinstance(n, (ast.Assign, ast.AugAssign)):
            for t in (n.targets if isinstance(n, ast.Assign) else [n.target]):
                for e in (t.elts if isinstance(t, ast.Tuple) else [t]):
                    a = _prob_attr(e, al)
                    if a:
                        wr.setdefault(a, []).append(n.lineno)
                        if isinstance(n, ast.AugAssign):
                            rd.setdefault(a, []).append(n.lineno)
        elif isinstance(n, ast.Attribute) and isinstance(n.ctx, ast.Load):
            a = _prob_attr(n, al)
            if a:
                rd.setdefault(a, []).append(n.lineno)
    return wr, rd


@rule('C19', 'C19.R11', 'problem objects live as long as the controller: a problem attribute that run-time code outside the problem writes (Newton tolerance set by the inexactness controller) is a function of the step/level status and the writer\'s parameters only - no run-time module reads such an attribute back, otherwise the value used in step n depends on what an earlier step or run left behind', floor=1)
def r11(ctx, R):
    repo = ctx.repo
    sites = []
    for m, ci, fn in repo.all_functions():
        if not _is_runtime(m.relpath):
            continue
        wr, rd = _prob_state(fn)
        if wr or rd:
            sites.append((m, ci, fn, wr, rd))
    written = {}
    for m, ci, fn, wr, rd in sites:
        for a in wr:
            written.setdefault(a, []).append(qual(m, ci, fn))
    if 'newton_tol' not in written:
        raise AnalysisError('C19.R11: the confirmed writer of prob.newton_tol (NewtonInexactness.set_tolerance) not found')
    for a, ws in sorted(written.items()):
        for w in ws:
            R.fn(w)
        readers = sorted({f'{qual(m, ci, fn)} line {min(rd[a])}' for m, ci, fn, wr, rd in sites if a in rd})
        R.check(not readers, f'problem attribute {a} :: written by run-time code ({", ".join(x.split(":")[1] for x in ws)}), never read back by run-time code', ws[0], 'no read of the attribute in core / controller / sweeper / convergence-controller / transfer / hook modules', readers)
    pc = ast.parse("def f(self, lvl):\n    P = lvl.prob\n    P.newton_tol = min(self.params.tol, P.newton_tol)\n").body[0]
    wr, rd = _prob_state(pc)
    if 'newton_tol' not in wr or 'newton_tol' not in rd:
        raise AnalysisError('C19.R11 positive control not detected')


CC_SETUP = {'__init__', 'setup', 'dependencies', 'check_parameters', 'prepare_MPI_logical_operations', 'prepare_MPI_datatypes', 'setup_status_variables'}
CC_RESET = {'reset_status_variables': 'every block', 'reset_buffers_nonMPI': 'every iteration', 'post_run_processing': 'every run'}
CC_CALLBACKS = {'check_iteration_status', 'get_new_step_size', 'determine_restart', 'pre_iteration_processing', 'post_iteration_processing', 'post_step_processing',
                'prepare_next_block', 'convergence_control', 'post_spread_processing'}
# run-time state of convergence controllers that is NOT re-initialised by a reset callback, with the reason it cannot carry
# information from one step / run into the next (confirmed by reading)
B7 = {
    ('AdaptivityForConvergedCollocationProblems', 'res_last_iter'): 'assigned unconditionally at the end of every determine_restart call; the only read is guarded by iter > 0, i.e. it follows the assignment made at iteration 0 of the same step',
    ('BasicRestartingMPI', 'buffers.max_restart_reached'): 'MPI flavour: computed (first rank) or received before it is read in the same call; by reading only',
    ('BasicRestartingMPI', 'buffers.restart_earlier'): 'MPI flavour: computed (first rank) or received before it is read in the same call; by reading only',
    ('CheckIterationEstimatorNonMPI', 'status.diff_old_loc'): 'assigned at iteration 1 of every step, read only at iterations > 1 of the same step',
    ('CheckIterationEstimatorNonMPI', 'status.diff_first_loc'): 'assigned at iteration 1 of every step, read only at iterations > 1 of the same step',
    ('EstimateEmbeddedErrorLinearizedMPI', 'buffers.e_em_last'): 'MPI flavour: received or set to 0.0 before it is read in the same call; by reading only',
    ('EstimateExtrapolationErrorWithinQ', 'coeff.u'): 'extrapolation WITHIN a step: the coefficients are a function of the collocation nodes only (a cache)',
    ('EstimateExtrapolationErrorWithinQ', 'coeff.f'): 'as coeff.u',
    ('EstimateExtrapolationErrorWithinQ', 'coeff.prefactor'): 'as coeff.u',
    ('EstimateExtrapolationErrorNonMPI', 'coeff.prefactor'): 'recomputed together with coeff.u, which is reset at the end of a run (None in coeff.u triggers the recomputation)',
    ('EstimatePolynomialError', 'interpolation_matrix'): 'cache of a matrix that depends on the collocation nodes only',
    ('InterpolateBetweenRestarts', 'status.u_inter'): 'written together with perform_interpolation, read only under that flag, which post_spread_processing clears at the start of every block',
    ('InterpolateBetweenRestarts', 'status.f_inter'): 'as status.u_inter',
    ('InterpolateBetweenRestarts', 'status.perform_interpolation'): 'set when a step restarts, consumed and cleared in post_spread_processing of the next block (a run cannot end on a restart)',
    ('InterpolateBetweenRestarts', 'status.skip_interpolation'): 'cleared in post_spread_processing of every block',
}


def _self_state(fn):
    """run-time state touched by fn: {'a' | 'a.b': how} for stores into self.a / self.a.b (also through subscripts) and
    in-place container calls on them"""
    out = {}

    def key(e):
        while isinstance(e, ast.Subscript):
            e = e.value
        parts = []
        while isinstance(e, ast.Attribute):
            parts.append(e.attr)
            e = e.value
        if isinstance(e, ast.Name) and e.id == 'self' and parts:
            parts = parts[::-1][:2]
            if parts[0] in ('params', 'logger'):
                return None
            return '.'.join(parts)
        return None

    for s in ast.walk(fn):
        tg = s.targets if isinstance(s, ast.Assign) else [s.target] if isinstance(s, (ast.AugAssign, ast.AnnAssign)) else []
        for t in tg:
            for e in (t.elts if isinstance(t, (ast.Tuple, ast.List)) else [t]):
                k = key(e)
                if k:
                    fresh = isinstance(s, ast.Assign) and not isinstance(e, ast.Subscript) and not any(key(x) == k for x in ast.walk(s.value) if isinstance(x, ast.Attribute))
                    out.setdefault(k, []).append('fresh' if fresh else 'update')
        if isinstance(s, ast.Call) and isinstance(s.func, ast.Attribute) and s.func.attr in ('append', 'extend', 'pop', 'clear', 'update', 'insert', 'add'):
            k = key(s.func.value)
            if k:
                out.setdefault(k, []).append('update')
    return out


def _self_reads(fn):
    """keys self.a / self.a.b that fn reads, not counting the reads inside a statement that assigns the same key"""
    def key(e):
        while isinstance(e, ast.Subscript):
            e = e.value
        parts = []
        while isinstance(e, ast.Attribute):
            parts.append(e.attr)
            e = e.value
        if isinstance(e, ast.Name) and e.id == 'self' and parts:
            return '.'.join(parts[::-1][:2])
        return None

    out = set()
    for st in ast.walk(fn):
        if not isinstance(st, ast.stmt) or isinstance(st, (ast.FunctionDef, ast.If, ast.For, ast.While, ast.With, ast.Try)):
            continue
        own = set()
        tg = st.targets if isinstance(st, ast.Assign) else [st.target] if isinstance(st, (ast.AugAssign, ast.AnnAssign)) else []
        for t in tg:
            for e in (t.elts if isinstance(t, (ast.Tuple, ast.List)) else [t]):
                k = key(e)
                if k:
                    own.add(k)
        for x in ast.walk(st):
            if isinstance(x, ast.Attribute) and isinstance(x.ctx, ast.Load):
                k = key(x)
                if k and k not in own and not any(k.startswith(o + '.') or o.startswith(k + '.') for o in own):
                    out.add(k)
    for x in ast.walk(fn):
        if isinstance(x, ast.Call) and isinstance(x.func, ast.Name) and x.func.id in ('getattr', 'hasattr') and len(x.args) >= 2 and isinstance(x.args[0], ast.Name) and x.args[0].id == 'self' and isinstance(x.args[1], ast.Constant):
            # getattr(self, 'k', default) outside the statement that assigns self.k
            out.add(('getattr', x.args[1].value, id(x)))
    ga = {t for t in out if isinstance(t, tuple)}
    out -= ga
    for _, name, xid in ga:
        holder = [st for st in ast.walk(fn) if isinstance(st, (ast.Assign, ast.AugAssign)) and any(id(y) == xid for y in ast.walk(st))]
        tg = {key(t) for st in holder for t in (st.targets if isinstance(st, ast.Assign) else [st.target])}
        if name not in tg:
            out.add(name)
    # conditions of compound statements
    for st in ast.walk(fn):
        if isinstance(st, (ast.If, ast.While)):
            for x in ast.walk(st.test):
                if isinstance(x, ast.Attribute):
                    k = key(x)
                    if k:
                        out.add(k)
        if isinstance(st, ast.For):
            for x in ast.walk(st.iter):
                if isinstance(x, ast.Attribute):
                    k = key(x)
                    if k:
                        out.add(k)
    return out


def _cc_reach(repo, ci, roots):
    """methods of ci (MRO-resolved) reachable from the root callbacks through self.<m>(..) calls"""
    seen, todo = {}, [r for r in roots]
    while todo:
        m = todo.pop()
        if m in seen:
            continue
        r = repo.resolve(ci, m)
        if r is None:
            continue
        seen[m] = r
        for c in ast.walk(r[1]):
            if isinstance(c, ast.Call) and isinstance(c.func, ast.Attribute) and isinstance(c.func.value, ast.Name) and c.func.value.id == 'self':
                todo.append(c.func.attr)
            if isinstance(c, ast.Call) and isinstance(c.func, ast.Attribute) and ast.unparse(c.func.value).startswith('super()'):
                for b in ci.mro[1:]:
                    if isinstance(b, ClassInfo) and c.func.attr in b.methods:
                        seen.setdefault(f'super:{b.name}.{c.func.attr}', (b, b.methods[c.func.attr]))
    return seen


@rule('C19', 'C19.R12', 'convergence controllers live as long as the controller: every piece of instance state that a run-time callback writes is given a fresh value by a reset callback of the same class (reset_status_variables: every block, reset_buffers_nonMPI: every iteration, post_run_processing: every run) or is a tabled entry with the reason it cannot carry information into the next step or run (B7)', floor=20)
def r12(ctx, R):
    repo = ctx.repo
    base = repo.cls('pySDC/core/convergence_controller.py', 'ConvergenceController')
    used = set()
    n = 0
    for ci in repo.subclasses(base):
        if not repo.is_library(ci):
            continue
        run = _cc_reach(repo, ci, CC_CALLBACKS)
        rst = _cc_reach(repo, ci, CC_RESET)
        state = {}
        for m, (owner, fn) in run.items():
            for k, how in _self_state(fn).items():
                state.setdefault(k, (owner, fn))
        if not state:
            continue
        fresh = {}
        for m, (owner, fn) in rst.items():
            for k, how in _self_state(fn).items():
                if 'fresh' in how:
                    fresh.setdefault(k, f'{owner.name}.{fn.name}')
        reads = set()
        for m, (owner, fn) in run.items():
            reads |= _self_reads(fn)
        for k, (owner, fn) in sorted(state.items()):
            n += 1
            w = f'{owner.module.relpath}:{owner.name}.{fn.name}'
            if not any(r == k or r.startswith(k + '.') or k.startswith(r + '.') for r in reads):
                R.note(f'{ci.name} :: self.{k} is written at run time but never read by a callback (write-only state cannot influence a result)', w, 'no read outside its own update')
                continue
            R.fn(w)
            c = f'{ci.name} :: self.{k} (written by {owner.name}.{fn.name}) is re-initialised by a reset callback'
            hit = fresh.get(k) or next((v for kk, v in fresh.items() if k.startswith(kk + '.')), None)
            tab = next(((cn, k2) for (cn, k2) in B7 if k2 == k and any(isinstance(b, ClassInfo) and b.name == cn for b in ci.mro)), None)
            if hit:
                R.ok(c, w, found=f'fresh value assigned in {hit}')
            elif tab:
                used.add(tab)
                R.exc(c, w, B7[tab])
            else:
                R.bad(c, w, 'a fresh assignment in reset_status_variables / reset_buffers_nonMPI / post_run_processing (or a B7 entry with the reason)', f'written in {owner.name}.{fn.name}; no reset callback of {ci.name} assigns it')
    missing = set(B7) - used
    if missing:
        raise AnalysisError(f'C19.R12: tabled convergence-controller state not found any more: {sorted(missing)}')
    # positive control
    pc = ast.parse('class K:\n    def post_iteration_processing(self, controller, S):\n        self.hist.t[0] = S.time\n        self.seen.append(S.time)\n').body[0].body[0]
    if set(_self_state(pc)) != {'hist.t', 'seen'}:
        raise AnalysisError('C19.R12 positive control not detected')


HOOK_RESET = {'pre_run': 'every run', 'pre_step': 'every step', 'pre_setup': 'once'}
# hook instance state that is read by a callback but not re-initialised in pre_run / pre_step, with the reason
B8 = {
    ('Hooks', '__stats'): 'the statistics dictionary itself: rebound by reset_stats, which the controller calls at the start of every run (C19.R1 / R6)',
    ('LogGlobalErrorPostRun', 'num_restarts'): 'assigned in post_step of every step, read in post_run, which follows the last post_step of the same run',
    ('LogGlobalErrorPostRun', 't_last_solution'): 'as num_restarts',
    ('LogToFile', 't_next_log'): 'decides only WHICH steps are appended to the output file (never a solution or a statistics record); not reset between runs - observation O4 in DESIGN 11.3',
    ('LogToPickleFileAfterXS', 't_next_log'): 'decides only which steps are pickled; as LogToFile.t_next_log',
    ('Timings', '__t*'): 'wall-clock time stamps (the property excludes timings); each post_X stamps __t1_X itself before it reads it',
    ('PlottingHook', 'plot_counter'): 'numbers the image files only',
    ('PlotPostStep', 'skip_counter'): 'decides which steps are plotted only',
}


@rule('C19', 'C19.R13', 'hooks live as long as the controller: instance state of a hook that one callback writes and another reads is assigned afresh in pre_run / pre_step, or assigned in the paired pre_* callback of the same event, or is a tabled entry with the reason it cannot change a solution or a statistics record of a later run (B8)', floor=20)
def r13(ctx, R):
    repo = ctx.repo
    base = repo.cls('pySDC/core/hooks.py', 'Hooks')
    cbs = [n for n in base.methods if n.startswith(('pre_', 'post_'))]
    used = set()
    done = set()
    for ci in repo.subclasses(base):
        if not repo.is_library(ci):
            continue
        run = _cc_reach(repo, ci, cbs)
        rst = _cc_reach(repo, ci, HOOK_RESET)
        writes, reads = {}, set()
        for m, (owner, fn) in run.items():
            reads |= _self_reads(fn)
            for k, how in _self_state(fn).items():
                writes.setdefault(k, []).append((owner, fn, how))
        fresh = {}
        for m, (owner, fn) in rst.items():
            for k, how in _self_state(fn).items():
                if 'fresh' in how:
                    fresh.setdefault(k, f'{owner.name}.{fn.name}')
            # slot-wise re-initialisation: self.k[slot] = <value that does not read self.k>
            for st in ast.walk(fn):
                if isinstance(st, ast.Assign) and len(st.targets) == 1 and isinstance(st.targets[0], ast.Subscript):
                    kk = [k for k in _self_state(ast.Module(body=[st], type_ignores=[]))]
                    for k in kk:
                        if not any(isinstance(x, ast.Attribute) and ast.unparse(x) == f'self.{k}' for x in ast.walk(st.value)):
                            fresh.setdefault(k, f'{owner.name}.{fn.name} (per slot)')
        for k, ws in sorted(writes.items()):
            owner, fn, how = ws[0]
            if (owner.name, k) in done:
                continue
            if not any(r == k or r.startswith(k + '.') or k.startswith(r + '.') for r in reads):
                continue
            done.add((owner.name, k))
            w = f'{owner.module.relpath}:{owner.name}.{fn.name}'
            R.fn(w)
            c = f'{owner.name} :: self.{k} (written by {", ".join(sorted({f.name for _, f, _ in ws}))}) is fresh in every run'
            # paired event: every writer is a pre_X callback with a fresh assignment and the readers are post_X
            paired = all(f.name.startswith('pre_') and 'fresh' in h for _, f, h in ws if f.name.startswith('pre_')) and any(f.name.startswith('pre_') for _, f, _ in ws) and all(f.name.startswith(('pre_', 'post_')) for _, f, _ in ws)
            paired = paired and all('fresh' in h for _, f, h in ws)
            tab = next(((cn, k2) for (cn, k2) in B8 if (k2 == k or k2.endswith('*') and k.startswith(k2[:-1])) and any(isinstance(b, ClassInfo) and b.name == cn for b in ci.mro)), None)
            if k in fresh:
                R.ok(c, w, found=f'fresh value assigned in {fresh[k]}')
            elif paired:
                R.ok(c, w, found='assigned afresh by the pre_* callback of the event whose post_* callback reads it')
            elif tab:
                used.add(tab)
                R.exc(c, w, B8[tab])
            else:
                R.bad(c, w, 'a fresh assignment in pre_run / pre_step (or a B8 entry with the reason)', f'written in {owner.name}.{fn.name}; read by another callback; never re-initialised')
    missing = set(B8) - used
    if missing:
        raise AnalysisError(f'C19.R13: tabled hook state not found any more: {sorted(missing)}')


def multistep_reset(ctx, R):
    repo = ctx.repo
    # the one tabled history is reset when a new integration starts
    ms = repo.func('pySDC/implementations/sweeper_classes/Multistep.py', 'MultiStep.predict')
    cfg = FuncCFG(ms)
    rs = [s_ for s_ in cfg.stmt_of.values() if isinstance(s_, ast.Assign) and ast.unparse(s_.targets[0]) == 'self.cache' and ast.unparse(s_.value) == 'Cache(self.steps)']
    g = [ast.unparse(t) for s_ in rs for t, pol in cfg.guards[id(s_)] if pol]
    fill = [n for n, s_ in cfg.stmt_of.items() if any(isinstance(c, ast.Call) and ast.unparse(c.func) == 'self.cache.update' for c in ast.walk(s_)) and not isinstance(s_, (ast.If, ast.For))]
    ok = len(rs) == 1 and len(g) == 1 and 'self.cache.t[-1]' in g[0] and 'lvl.time' in g[0] and bool(fill) and all(cfg.reachable(cfg.node_of[id(rs[0])], n) for n in fill)
    R.check(ok, 'MultiStep.predict :: the history is re-created when the step does not continue it, before the initial value is stored', 'pySDC/implementations/sweeper_classes/Multistep.py:MultiStep.predict', 'self.cache = Cache(self.steps) if the last stored time differs from lvl.time', g)
    # the test is two-sided: sign-case analysis of the extracted guard over d = lvl.time - cache.t[-1] in {0, +, -}
    if ok:
        gt = [t for t, pol in cfg.guards[id(rs[0])] if pol][0]
        verdicts = {}
        for c0 in (Fraction(1), Fraction(0), Fraction(-3)):
            for d in (Fraction(0), Fraction(1, 2), Fraction(-1, 2)):
                env = {'lvl.time': c0 + d, 'self.level.time': c0 + d, 'self.cache.t[-1]': c0, 'lvl.dt': Fraction(1, 2), 'self.level.dt': Fraction(1, 2)}
                verdicts[(str(c0), str(d))] = _eval_guard(gt, env)
        bad = sorted(f'history ends at {c0}, step starts at {c0}{"+" if not d.startswith("-") else ""}{d}: reset={v}' for (c0, d), v in verdicts.items() if v != (d != '0'))
        R.check(not bad, 'MultiStep.predict :: the reset test is two-sided (a step starting before OR after the end of the history resets it, a continuing step does not)', 'pySDC/implementations/sweeper_classes/Multistep.py:MultiStep.predict', 'reset <=> lvl.time != cache.t[-1] on the 9 sign cases', bad)


def _eval_guard(e, env):
    """value of an extracted guard expression on one sign case (exact rational arithmetic; only comparisons, + - * /, abs/max/min,
    isclose and `is (not) None` are interpreted - anything else makes the analysis fail closed)"""
    key = ast.unparse(e)
    if key in env:
        return env[key]
    if isinstance(e, ast.Constant) and isinstance(e.value, (int, float)) and not isinstance(e.value, bool):
        return Fraction(e.value)
    if isinstance(e, ast.BoolOp):
        vals = [_eval_guard(v, env) for v in e.values]
        return all(vals) if isinstance(e.op, ast.And) else any(vals)
    if isinstance(e, ast.UnaryOp):
        v = _eval_guard(e.operand, env)
        return (not v) if isinstance(e.op, ast.Not) else (-v if isinstance(e.op, ast.USub) else v)
    if isinstance(e, ast.BinOp) and isinstance(e.op, (ast.Add, ast.Sub, ast.Mult, ast.Div)):
        a, b = _eval_guard(e.left, env), _eval_guard(e.right, env)
        return a + b if isinstance(e.op, ast.Add) else a - b if isinstance(e.op, ast.Sub) else a * b if isinstance(e.op, ast.Mult) else a / b
    if isinstance(e, ast.Compare):
        if len(e.ops) == 1 and isinstance(e.ops[0], (ast.Is, ast.IsNot)) and isinstance(e.comparators[0], ast.Constant) and e.comparators[0].value is None:
            return isinstance(e.ops[0], ast.IsNot)  # the history exists in every case considered
        vals = [_eval_guard(v, env) for v in [e.left] + e.comparators]
        res = True
        for op, a, b in zip(e.ops, vals, vals[1:]):
            res = res and {ast.Lt: a < b, ast.LtE: a <= b, ast.Gt: a > b, ast.GtE: a >= b, ast.Eq: a == b, ast.NotEq: a != b}[type(op)]
        return res
    if isinstance(e, ast.Call):
        f = ast.unparse(e.func)
        a = [_eval_guard(x, env) for x in e.args]
        if f in ('abs', 'np.abs', 'numpy.abs') and len(a) == 1:
            return abs(a[0])
        if f in ('max', 'min') and a:
            return max(a) if f == 'max' else min(a)
        if f in ('np.isclose', 'math.isclose', 'numpy.isclose') and len(a) == 2:
            return abs(a[0] - a[1]) <= Fraction(1, 10**6)
    raise AnalysisError(f'C19.R10: cannot interpret the reset test of MultiStep.predict: {key}')


@rule('C19', 'C19.R14', 'two controllers built from one controller_params dict do not influence each other: a controller never rewrites its own parameters after construction (the parameter object holds the caller\'s lists by reference), outside the tabled sites (shared with C20.R12)', floor=4)
def r14(ctx, R):
    from . import c20
    c20.r12(ctx, R)


LIFECYCLE = ('reset_status_variables', 'setup_status_variables', 'reset_buffers_nonMPI', 'dependencies', 'post_run_processing')


def _trivial(fn):
    body = [s for s in fn.body if not (isinstance(s, ast.Expr) and isinstance(s.value, ast.Constant))]
    return all(isinstance(s, (ast.Return, ast.Pass)) and (not isinstance(s, ast.Return) or s.value is None or isinstance(s.value, ast.Constant)) for s in body)


@rule('C19', 'C19.R15', 'resets are inherited, not replaced: a convergence controller that overrides a life-cycle callback (reset_status_variables, setup_status_variables, reset_buffers_nonMPI, dependencies, post_run_processing) whose inherited implementation does something also calls it - otherwise what the base class resets at every block (the restart flag of the step, ...) is never reset in that flavour', floor=6)
def r15(ctx, R):
    repo = ctx.repo
    base = repo.cls('pySDC/core/convergence_controller.py', 'ConvergenceController')
    n = 0
    for ci in repo.subclasses(base, strict=True):
        if not repo.is_library(ci):
            continue
        for name in LIFECYCLE:
            fn = ci.methods.get(name)
            if fn is None:
                continue
            nxt = next((c for c in ci.mro[1:] if isinstance(c, ClassInfo) and name in c.methods), None)
            if nxt is None or _trivial(nxt.methods[name]):
                continue
            n += 1
            w = f'{ci.module.relpath}:{ci.name}.{name}'
            R.fn(w)
            sup = any(isinstance(c, ast.Call) and isinstance(c.func, ast.Attribute) and c.func.attr == name and ast.unparse(c.func.value).startswith('super(') for c in ast.walk(fn))
            R.check(sup, f'{ci.name}.{name} :: calls the implementation it overrides ({nxt.name}.{name})', w, f'super().{name}(..)', 'no call of the inherited implementation')
    if n < 6:
        raise AnalysisError(f'C19.R15: only {n} overriding life-cycle callbacks found')


@rule('C19', 'C19.R16', 'stopping at a block boundary and continuing gives the uninterrupted run: the activity predicate that decides which steps of the FIRST block of a run take part is the same, tolerance included, as the one used between blocks (shared with C06.R3)', floor=4)
def r16(ctx, R):
    from . import c06
    c06.r3(ctx, R)
