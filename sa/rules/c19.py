"""rules for c19 (under construction)"""
