"""C19 - runs are reproducible, re-entrant and composable (structural clauses: reset discipline, state that outlives a run,
randomness, cloning of steps)."""

import ast
import re

from ..cfg import FuncCFG, walk_no_nested, ENTRY, EXIT
from ..model import AnalysisError, ClassInfo, qual
from ..norm import Normalizer
from ..runner import rule
from .. import controllers as ct
from .. import facts

RUNTIME = ('pySDC/core/', 'controller_classes', 'sweeper_classes', 'convergence_controller_classes', 'transfer_classes', '/hooks/', 'pySDC/helpers/pysdc_helper.py', 'pySDC/helpers/stats_helper.py')
STEP_STATUS_RESET = ['done', 'prev_done', 'iter', 'stage', 'force_done', 'first', 'last', 'slot', 'time_size']
LEVEL_SLOT_EXC = {
    'u_avg': 'written by prepare_Jacobians before it is read, in the only code that reads it (ParaDiag)',
    'residual': 'rebound by compute_residual (L.residual = self.integrate()) before it is read',
    'increment': 'written by the ParaDiag iteration before it is read',
}


def _is_runtime(rel):
    return any(x in rel for x in RUNTIME)


@rule('C19', 'C19.R1', 'reset at run/block start: statistics cleared before anything is recorded; restart_block assigns every step status field the handlers read; reset_level rebinds every data slot', floor=24)
def r1(ctx, R):
    repo = ctx.repo
    for spec in ct.ALL:
        rel, cn, driver = spec
        fn = repo.func(rel, f'{cn}.run')
        w = f'{rel}:{cn}.run'
        R.fn(w)
        cfg = FuncCFG(fn)
        rs = [n for n in cfg.stmt_of if any(ast.unparse(c.func) == 'hook.reset_stats' for c in cfg.calls_at(n))]
        ok = len(rs) == 1
        if ok:
            lp = cfg.loops_of[id(cfg.stmt_of[rs[0]])]
            hdr = cfg.node_of[id(lp[0])] if lp else rs[0]
            ok = bool(lp) and ast.unparse(lp[0].iter) == 'self.hooks'
            later = [n for n in cfg.stmt_of if any(isinstance(c.func, ast.Attribute) and c.func.attr in ('restart_block', driver, 'pre_run', 'post_setup') for c in cfg.calls_at(n))]
            ok = ok and bool(later) and all(cfg.dominates(hdr, n) for n in later)
        R.check(ok, f'{cn}.run :: every hook forgets the previous run before restart_block / the first callback', w, 'for hook in self.hooks: hook.reset_stats() dominating restart_block and all callbacks', f'{len(rs)} reset site(s)')
        fn = repo.func(rel, f'{cn}.restart_block')
        w = f'{rel}:{cn}.restart_block'
        R.fn(w)
        N = Normalizer(fn, inline_scalars=False)
        fields = {}
        for c in N.contribs:
            m = re.fullmatch(r'(self\.MS\[p\]|self\.S)\.status\.(\w+)', c.target)
            if m and c.op == '=':
                fields[m.group(2)] = c
        want = [f for f in STEP_STATUS_RESET if not (cn == 'controller_MPI' and f == 'slot')]
        missing = [f for f in want if f not in fields]
        R.check(not missing, f'{cn}.restart_block :: assigns every step status field that handlers read before writing', w, want, f'missing {missing}')
        cond = [f for f, c in fields.items() if any('status' in g for g in c.guards)]
        R.check(not cond, f'{cn}.restart_block :: the status reset does not depend on the previous status', w, 'unconditional assignments', cond)
        calls = [c[0] for c in N.calls]
        ok = any(re.fullmatch(r'(self\.MS\[p\]|self\.S)\.reset_step\(\)', c) for c in calls) and any(re.fullmatch(r'(self\.MS\[p\]|self\.S)\.init_step\(u0\)', c) for c in calls)
        if ok:
            cfg = FuncCFG(fn)
            a = [n for n in cfg.stmt_of if any(isinstance(c.func, ast.Attribute) and c.func.attr == 'reset_step' for c in cfg.calls_at(n))]
            b = [n for n in cfg.stmt_of if any(isinstance(c.func, ast.Attribute) and c.func.attr == 'init_step' for c in cfg.calls_at(n))]
            ok = cfg.dominates(a[0], b[0])
        R.check(ok, f'{cn}.restart_block :: reset_step() before init_step(u0)', w, 'levels are emptied, then u[0] is set', 'order/calls differ')
        rsv = [c for c in calls if c.startswith('C.reset_status_variables(')]
        R.check(len(rsv) == 1, f'{cn}.restart_block :: convergence controllers reset their status variables for the new block', w, 'C.reset_status_variables(self, ...) for every controller', rsv)
    # Step.reset_step -> Level.reset_level for all levels
    fn = repo.func('pySDC/core/step.py', 'Step.reset_step')
    N = Normalizer(fn, inline_scalars=False)
    ok = any(c[0] == 'l.reset_level()' and c[1] and c[1][0].it == 'self.levels' for c in N.calls)
    R.check(ok, 'Step.reset_step :: resets every level', 'pySDC/core/step.py:Step.reset_step', 'for l in self.levels: l.reset_level()', [c[0] for c in N.calls])
    lv = repo.cls('pySDC/core/level.py', 'Level')
    init, reset = lv.methods['__init__'], lv.methods['reset_level']
    declared = []
    for s in walk_no_nested(init):
        if isinstance(s, ast.AnnAssign) and isinstance(s.target, ast.Attribute) and ast.unparse(s.target.value) == 'self' and s.value is not None:
            if isinstance(s.value, ast.BinOp) or (isinstance(s.value, ast.Constant) and s.value.value is None and s.target.attr in ('uend',)):
                declared.append(s.target.attr)
    rebound = {ast.unparse(t)[5:] for s in walk_no_nested(reset) if isinstance(s, ast.Assign) for t in s.targets if ast.unparse(t).startswith('self.')}
    w = 'pySDC/core/level.py:Level.reset_level'
    R.fn(w)
    for a in declared:
        if a in rebound:
            R.ok(f'Level.reset_level :: rebinds {a}', w, found='fresh list of None / None')
        elif a in LEVEL_SLOT_EXC:
            R.exc(f'Level.reset_level :: does not rebind {a}', w, LEVEL_SLOT_EXC[a])
        else:
            R.bad(f'Level.reset_level :: rebinds {a}', w, 'every data slot declared in Level.__init__ is reset', f'{a} keeps the objects of the previous step')
    if len(declared) < 8:
        raise AnalysisError(f'Level.__init__: only {len(declared)} data slots recognised')
    st = [s for s in walk_no_nested(reset) if isinstance(s, ast.Assign) and ast.unparse(s.targets[0]) == 'self.status']
    cfg = FuncCFG(reset)
    ok = len(st) == 1 and ast.unparse(st[0].value) == '_Status()' and facts.guard_strings(cfg, st[0]) == ['reset_status']
    R.check(ok, 'Level.reset_level :: a fresh level status with reset_status', w, 'self.status = _Status() if reset_status', [ast.unparse(s) for s in st])


# class-level / global state written from methods, each with the reason it cannot change a result (table B5)
CLASS_STATE = {
    'FrozenClass.__init_subclass__': 'per-subclass allow-list created at class creation time',
    'FrozenClass.add_attr': 'append-only allow-list of attribute names: only widens what may be assigned, never a value',
    'mesh.__new__': 'communicator of the last mesh built from a tuple; None in every serial run',
    'cupy_mesh.__new__': 'same as mesh (GPU variant)',
    'RungeKuttaIMEX.__init__': 'idempotent default: weights_explicit = weights if it was None',
    'LogToPickleFile.log_to_file': 'file counter of a logging hook (names of output files only)',
    'LogToFile.__init__': 'forwards the user flag allow_overwriting to FieldsIO.ALLOW_OVERWRITE',
    'LogToFile.pre_run': 'counter of written solutions (bookkeeping of the output file)',
    'LogToFile.post_step': 'same',
    'LogToFile.post_run': 'same',
    'Rectilinear.setupMPI': 'explicit user call that configures parallel output',
    'SpectralHelper1D.setup_GPU': 'explicit backend switch (user call)', 'SpectralHelper1D.setup_CPU': 'explicit backend switch (user call)',
    'SpectralHelper.setup_GPU': 'explicit backend switch (user call)', 'SpectralHelper.setup_CPU': 'explicit backend switch (user call)',
    'testequation0d.setup_GPU': 'explicit backend switch (user call)', 'IMEX_Laplacian_MPIFFT.setup_GPU': 'explicit backend switch (user call)',
    'polynomial_testequation.__init__': 'GPU switch selected by the useGPU parameter',
}


def _class_writes(repo, fn):
    names = set(repo.by_simple)
    params = {a.arg for a in fn.args.args + fn.args.kwonlyargs}
    local = {n.id for n in ast.walk(fn) if isinstance(n, ast.Name) and isinstance(n.ctx, ast.Store)}
    out = []
    for s in ast.walk(fn):
        tg = s.targets if isinstance(s, ast.Assign) else [s.target] if isinstance(s, (ast.AugAssign, ast.AnnAssign)) else []
        for t in tg:
            if isinstance(t, ast.Attribute):
                b = ast.unparse(t.value)
                if b in ('cls', 'type(self)', 'self.__class__') or (b in names and b not in params and b not in local):
                    out.append(ast.unparse(t))
        if isinstance(s, ast.Global):
            out += [f'global {n}' for n in s.names]
    return out


@rule('C19', 'C19.R2', 'state that outlives a run: every write to a class attribute / module global from a method is a tabled entry with a reason (B5)', floor=18)
def r2(ctx, R):
    repo = ctx.repo
    seen = set()
    for m, ci, fn in repo.all_functions():
        ws = _class_writes(repo, fn)
        if not ws:
            continue
        name = (ci.name + '.' if ci else '') + fn.name
        w = qual(m, ci, fn)
        R.fn(w)
        if name in CLASS_STATE:
            seen.add(name)
            R.exc(f'{name} :: writes {sorted(set(ws))[:3]}', w, CLASS_STATE[name])
        else:
            R.bad(f'{name} :: writes {sorted(set(ws))[:3]}', w, 'no class-level / global state written from a method (or a table entry with the reason it cannot change a result)', f'{sorted(set(ws))}')
    missing = set(CLASS_STATE) - seen
    if missing:
        raise AnalysisError(f'C19.R2: tabled class-state writers not found any more: {sorted(missing)[:4]}')
    # positive control
    pc = ast.parse('class K:\n    n = 0\n    def f(self):\n        type(self).n += 1\n').body[0].body[1]
    if not _class_writes(repo, pc):
        raise AnalysisError('C19.R2 positive control not detected')


GLOBAL_RNG = re.compile(r'^(np|numpy|cp|xp|self\.xp)\.random\.(?!RandomState$|default_rng$|Generator$|SeedSequence$)\w+$|^random\.\w+$')


@rule('C19', 'C19.R3', 'randomness: no draw from a global RNG in run-time modules; per-instance generators are re-seeded on a path from run()/restart_block', floor=2)
def r3(ctx, R):
    repo = ctx.repo
    n = 0
    for m, ci, fn in repo.all_functions():
        draws = sorted({ast.unparse(c.func) for c in ast.walk(fn) if isinstance(c, ast.Call) and GLOBAL_RNG.match(ast.unparse(c.func))})
        if not draws:
            continue
        name = (ci.name + '.' if ci else '') + fn.name
        w = qual(m, ci, fn)
        if _is_runtime(m.relpath):
            n += 1
            R.bad(f'{name} :: draws from the global RNG {draws}', w, 'a seeded per-instance generator', draws)
        else:
            R.note(f'{name} :: uses the global RNG {draws}', w, 'outside the run-time modules anchored by C19 (problem classes / DAE project): initial data or project-specific predictor')
    R.ok('run-time modules :: scan for global RNG draws', 'pySDC/core + implementations/{controller,sweeper,convergence_controller,transfer}_classes + hooks', found=f'{n} draw site(s)')
    # per-instance generators
    gens = []
    W = ctx.memo('attr_writes', lambda: facts.attr_writes(repo))
    for x in W:
        if _is_runtime(x.module.relpath) and x.receiver == 'self' and isinstance(x.value, ast.Call) and re.search(r'random\.(RandomState|default_rng)$', ast.unparse(x.value.func)):
            gens.append(x)
    if not gens:
        raise AnalysisError('C19.R3: Sweeper.rng (the confirmed per-instance generator) not found')
    for g in gens:
        cname = g.cls.name if g.cls else '?'
        resets = [y for y in W if y.attr == g.attr and y.receiver.endswith(('sweep', 'self')) and y is not g and _is_runtime(y.module.relpath) and y.fn.name not in ('__init__',)]
        seeds = [c for c in ctx.memo('call_sites', lambda: facts.call_sites(repo)) if c.name == 'seed' and c.receiver and c.receiver.endswith(g.attr)]
        ok = bool(resets) or bool(seeds)
        R.check(ok, f'{cname}.{g.fn.name} :: generator self.{g.attr} is re-seeded / re-created at the start of a run or block', g.qual, f'an assignment or .seed() of {g.attr} reachable from run()/restart_block/predict', f'created in {g.fn.name} only; advanced by every predict() with initial_guess=random')


@rule('C19', 'C19.R4', 'steps are clones by value: MS[1:] are dill copies of MS[0] or freshly constructed, never references', floor=2)
def r4(ctx, R):
    repo = ctx.repo
    for spec in (ct.NONMPI, ct.PARADIAG):
        rel, cn, _ = spec
        fn = repo.func(rel, f'{cn}.__init__')
        w = f'{rel}:{cn}.__init__'
        R.fn(w)
        app = [ast.unparse(c.args[0]) for c in ast.walk(fn) if isinstance(c, ast.Call) and ast.unparse(c.func) == 'self.MS.append' and c.args]
        first = [ast.unparse(s.value) for s in walk_no_nested(fn) if isinstance(s, (ast.Assign, ast.AnnAssign)) and ast.unparse(s.targets[0] if isinstance(s, ast.Assign) else s.target) == 'self.MS']
        ok = first in (['[Step(description)]'], ['[]']) and bool(app) and all(a == 'dill.copy(self.MS[0])' or re.fullmatch(r'(\w+\.)?Step\(description\)', a) for a in app)
        R.check(ok, f'{cn}.__init__ :: steps are independent objects', w, 'self.MS = [Step(description)]; append dill.copy(self.MS[0]) | Step(description)', {'first': first, 'appended': app})


@rule('C19', 'C19.R5', 'k-dependent preconditioner matrices are rebuilt at every sweep index, so none survives from an earlier sweep or run (shared with C02.R6)', floor=4)
def r5(ctx, R):
    from . import c02
    c02.r6(ctx, R)


@rule('C19', 'C19.R6', 'statistics handed out are never reused: reset_stats rebinds a new dict, return_stats merges into a new dict', floor=3)
def r6(ctx, R):
    repo = ctx.repo
    HK = 'pySDC/core/hooks.py'
    fn = repo.func(HK, 'Hooks.reset_stats')
    st = [s for s in walk_no_nested(fn) if isinstance(s, ast.Assign) and ast.unparse(s.targets[0]).endswith('__stats')]
    calls = [ast.unparse(c.func) for c in ast.walk(fn) if isinstance(c, ast.Call)]
    ok = len(st) == 1 and ast.unparse(st[0].value) in ('{}', 'dict()') and not any(c.endswith('.clear') for c in calls)
    R.check(ok, 'Hooks.reset_stats :: rebinds a fresh dict (the old one may still be referenced by the caller of the previous run)', f'{HK}:Hooks.reset_stats', 'self.__stats = {}', [ast.unparse(s) for s in st] + calls)
    rs = repo.func(HK, 'Hooks.return_stats')
    R.check([ast.unparse(s.value) for s in walk_no_nested(rs) if isinstance(s, ast.Return)] == ['self.__stats'], 'Hooks.return_stats :: returns the live dict (hence the two rules around it)', f'{HK}:Hooks.return_stats', 'return self.__stats', 'see source')
    CT = 'pySDC/core/controller.py'
    fn = repo.func(CT, 'Controller.return_stats')
    w = f'{CT}:Controller.return_stats'
    R.fn(w)
    ret = [s for s in walk_no_nested(fn) if isinstance(s, ast.Return) and s.value is not None]
    ok = len(ret) == 1 and isinstance(ret[0].value, ast.Name)
    detail = []
    if ok:
        v = ret[0].value.id
        defs = sorted([s for s in walk_no_nested(fn) if isinstance(s, ast.Assign) and ast.unparse(s.targets[0]) == v], key=lambda s: s.lineno)
        fresh = [isinstance(s.value, ast.Dict) or ast.unparse(s.value) == 'dict()' for s in defs]
        inplace = [ast.unparse(c) for c in ast.walk(fn) if isinstance(c, ast.Call) and isinstance(c.func, ast.Attribute) and c.func.attr in ('update', 'setdefault', '__setitem__') and ast.unparse(c.func.value) == v]
        # in-place growth of the accumulator is fine only if the accumulator itself started as a fresh dict
        first_fresh = bool(defs) and (isinstance(defs[0].value, ast.Dict) and not defs[0].value.keys or ast.unparse(defs[0].value) == 'dict()')
        ok = all(fresh) and first_fresh
        detail = [ast.unparse(s) for s in defs] + inplace
    R.check(ok, 'Controller.return_stats :: the merged statistics are a new dict, never the dict of one of the hooks', w, 'stats = {}; stats = {**stats, **hook.return_stats()}', detail)
