"""C17 - spectral helper: ONLY the clauses whose truth is in the shape of the code (per-axis accumulation, forward/backward
pairing, where the interval map enters, tensor-product assembly).  That the operator matrices agree with exact polynomial /
Fourier calculus for every N is a statement about numeric matrix entries: NOT decided."""

import ast
import re

from ..cfg import FuncCFG, walk_no_nested
from ..inline import facts
from ..model import AnalysisError, qual
from ..runner import rule

SH = 'pySDC/helpers/spectral_helper.py'


def _names(node):
    return {n.id for n in ast.walk(node) if isinstance(n, ast.Name)}


def _assigned(stmt):
    out = set()
    for s in ast.walk(stmt):
        tg = s.targets if isinstance(s, ast.Assign) else [s.target] if isinstance(s, (ast.AugAssign, ast.AnnAssign)) else []
        for t in tg:
            for e in (t.elts if isinstance(t, ast.Tuple) else [t]):
                if isinstance(e, ast.Name):
                    out.add(e.id)
    return out


def axis_loops(fn):
    """loops `for <axis> in axes` (per-axis processing) directly in the function"""
    return [l for l in walk_no_nested(fn) if isinstance(l, ast.For) and isinstance(l.iter, ast.Name) and l.iter.id == 'axes']


def lost_updates(fn, loop):
    """names that (a) are re-bound inside the per-axis loop from an expression that reads NO value produced by an earlier iteration,
    (b) are read after the loop: only the last axis then has an effect.  A name is loop-carried if it is assigned in the loop."""
    assigned_in_loop = _assigned(loop)
    after = set()
    seen = False
    for s in fn.body:
        if s is loop:
            seen = True
            continue
        if seen:
            after |= _names(s)
    data_params = {a.arg for a in fn.args.args[1:2]}  # the array argument
    out = []
    for s in ast.walk(loop):
        if isinstance(s, ast.Assign) and len(s.targets) == 1 and isinstance(s.targets[0], ast.Name):
            v = s.targets[0].id
            if v not in after:
                continue
            used = _names(s.value)
            reads_input = used & data_params
            carried = used & assigned_in_loop
            if reads_input and not carried:
                out.append((v, ast.unparse(s)))
    return out


@rule('C17', 'C17.R1', 'per-axis loops accumulate: what is used after a `for axis in axes` loop is never re-started from the untouched input inside the loop (otherwise only the last axis has an effect)', floor=4)
def r1(ctx, R):
    repo = ctx.repo
    n = 0
    for cls in ('ChebychevHelper', 'FFTHelper', 'SpectralHelper1D', 'UltrasphericalHelper', 'SpectralHelper'):
        ci = repo.cls(SH, cls)
        for name, fn in ci.methods.items():
            loops = axis_loops(fn)
            for l in loops:
                n += 1
                w = f'{SH}:{cls}.{name}'
                R.fn(w)
                lost = lost_updates(fn, l)
                R.check(not lost, f'{cls}.{name} :: the per-axis loop carries its result from axis to axis', w, 'every value used after the loop is built from the result of the previous axis', lost)
    # the N-D fallback (one axis at a time through the 1-d helpers) carries u_hat
    for meth, op in (('transform', 'transform'), ('itransform', 'itransform')):
        fn = repo.func(SH, f'SpectralHelper.{meth}')
        w = f'{SH}:SpectralHelper.{meth}'
        R.fn(w)
        body = [ast.unparse(s) for l in ast.walk(fn) if isinstance(l, ast.For) and ast.unparse(l.iter) == 'axes' for s in l.body]
        ok = any(re.fullmatch(rf'(\w+) = self\.axes\[i\]\.{op}\(\1, axes=\(_axis,\)\)', b) for b in body)
        R.check(ok, f'SpectralHelper.{meth} :: serial path applies the 1-d {op} of axis i to the running array, one axis at a time', w, f'u_hat = self.axes[i].{op}(u_hat, axes=(_axis,))', body)


@rule('C17', 'C17.R2', 'forward and backward transforms are paired: same DCT type and default norm, multiply / divide by the same normalisation; FFT forward `backward`-normed, inverse `forward`-normed and divided by the transformed sizes', floor=6)
def r2(ctx, R):
    repo = ctx.repo
    tf, it = repo.func(SH, 'ChebychevHelper.transform'), repo.func(SH, 'ChebychevHelper.itransform')
    w = f'{SH}:ChebychevHelper.transform/itransform'
    R.fn(f'{SH}:ChebychevHelper.transform')
    R.fn(f'{SH}:ChebychevHelper.itransform')

    def call(fn, name):
        cs = [c for c in ast.walk(fn) if isinstance(c, ast.Call) and ast.unparse(c.func) == f'self.fft_lib.{name}']
        if len(cs) != 1:
            raise AnalysisError(f'{w}: expected one call of fft_lib.{name}')
        return {k.arg: ast.unparse(k.value) for k in cs[0].keywords if k.arg}

    kf, kb = call(tf, 'dctn'), call(it, 'idctn')
    R.check(kf.get('type') == kb.get('type') == '2', 'ChebychevHelper :: DCT-II forward, its inverse backward', w, {'dctn type': '2', 'idctn type': '2'}, {'dctn type': kf.get('type'), 'idctn type': kb.get('type')})
    nd = {}
    for nm, fn in (('transform', tf), ('itransform', it)):
        nd[nm] = [ast.unparse(s.value) for s in walk_no_nested(fn) if isinstance(s, ast.Assign) and ast.unparse(s.targets[0]) == "kwargs['norm']"]
    R.check(nd['transform'] == nd['itransform'] == ["kwargs.get('norm', 'backward')"], 'ChebychevHelper :: both directions default to the same DCT normalisation', w, "kwargs['norm'] = kwargs.get('norm', 'backward') in both", nd)
    mul = [ast.unparse(s) for s in ast.walk(tf) if isinstance(s, ast.AugAssign) and isinstance(s.op, ast.Mult) and 'norm' in ast.unparse(s.value)]
    div = [ast.unparse(s) for s in ast.walk(it) if isinstance(s, ast.AugAssign) and isinstance(s.op, ast.Div) and 'norm' in ast.unparse(s.value)]
    R.check(mul == ['trf *= norm[*expansion,]'] and div == ['_u /= norm[*expansion,]'], 'ChebychevHelper :: coefficients are MULTIPLIED by the normalisation forward and DIVIDED by it backward, along the axis being processed', w, ['trf *= norm[(*expansion,)]', '_u /= norm[(*expansion,)]'], mul + div)
    gn = [f[:-1] for f in facts(repo.func(SH, 'ChebychevHelper.get_norm'))]
    R.fn(f'{SH}:ChebychevHelper.get_norm')
    want = [('assign', '_v1', 'self.xp.ones(self.N if N is None else N) / (self.N if N is None else N)'), ('aug', '_v1[0]', 'Div', '2'), ('return', '_v1')]
    R.check(gn == want, 'ChebychevHelper.get_norm :: 1/N with the first coefficient halved', f'{SH}:ChebychevHelper.get_norm', want, gn)
    gp = repo.func(SH, 'FFTHelper.get_plan')
    R.fn(f'{SH}:FFTHelper.get_plan')
    parts = {}
    for s in ast.walk(gp):
        if isinstance(s, ast.If) and ast.unparse(s.test) == 'forward':
            parts['forward'] = [ast.unparse(x.value) for x in s.body if isinstance(x, ast.Return)]
            parts['backward'] = [ast.unparse(x.value) for x in s.orelse if isinstance(x, ast.Return)]
    want = {'forward': ["partial(self.fft_lib.fftn, norm=kwargs.get('norm', 'backward'))"], 'backward': ["partial(self.fft_lib.ifftn, norm=kwargs.get('norm', 'forward'))"]}
    R.check(parts == want, 'FFTHelper.get_plan :: forward = fftn (unnormalised), backward = ifftn (unnormalised; itransform divides)', f'{SH}:FFTHelper.get_plan', want, parts)
    ft, fi = [f[:-1] for f in facts(repo.func(SH, 'FFTHelper.transform'))], [f[:-1] for f in facts(repo.func(SH, 'FFTHelper.itransform'))]
    R.fn(f'{SH}:FFTHelper.transform')
    R.fn(f'{SH}:FFTHelper.itransform')
    AX = 'axes if axes else tuple((i for i in range(u.ndim)))'
    wt = ('return', f'self.get_plan(u, *args, forward=True, axes={AX}, **kwargs)(u, *args, axes={AX}, **kwargs)')
    wi = ('return', f'self.get_plan(u, *args, forward=False, axes={AX}, **kwargs)(u, *args, axes={AX}, **kwargs) / np.prod([u.shape[axis] for axis in ({AX})])')
    R.check(wt in ft and wi in fi, 'FFTHelper :: transform = forward plan; itransform = backward plan divided by the product of the transformed lengths (same axes)', f'{SH}:FFTHelper.transform/itransform', [wt[1], wi[1]], [x[1] for x in ft + fi if x[0] == 'return'])


@rule('C17', 'C17.R3', 'the interval map enters where it must: grid = fac * reference + offset, derivatives divided by fac^p, the ultraspherical integral multiplied by fac, Fourier wavenumbers scaled by 2 pi / L', floor=7)
def r3(ctx, R):
    repo = ctx.repo

    def F(name):
        R.fn(f'{SH}:{name}')
        return [f[:-1] for f in facts(repo.func(SH, name))]

    def chk(name, title, want, pick=None):
        got = F(name)
        sel = [g for g in got if pick is None or g[0] in pick]
        R.check(all(x in sel for x in want), f'{name} :: {title}', f'{SH}:{name}', want, sel)

    chk('SpectralHelper1D.__init__', 'L = x1 - x0', [('store', 'self.L', 'x1 - x0'), ('store', 'self.x0', 'x0'), ('store', 'self.x1', 'x1')])
    chk('ChebychevHelper.__init__', 'fac = (x1 - x0)/2, offset = (x1 + x0)/2', [('store', 'self.lin_trf_fac', '(x1 - x0) / 2'), ('store', 'self.lin_trf_off', '(x1 + x0) / 2')])
    chk('ChebychevHelper.get_1dgrid', 'Chebychev points mapped affinely to [x0, x1]', [('return', 'self.lin_trf_fac * self.xp.cos(np.pi / self.N * (self.xp.arange(self.N) + 0.5)) + self.lin_trf_off')])
    chk('ChebychevHelper.get_differentiation_matrix', 'p-th derivative divided by fac^p', [('return', 'self.sparse_lib.csc_matrix(self.xp.linalg.matrix_power(_v1, p)) / self.lin_trf_fac ** p')])
    chk('UltrasphericalHelper.get_differentiation_matrix', 'p-th derivative divided by fac^p', [('return', '2 ** (p - 1) * factorial(p - 1) * self.sparse_lib.diags(self.xp.arange(self.N - p) + p, offsets=p) / self.lin_trf_fac ** p')])
    chk('UltrasphericalHelper.get_integration_matrix', 'integral multiplied by fac', [('return', 'self.sparse_lib.diags(1 / (self.xp.arange(self.N - 1) + 1), offsets=-1) @ self.get_basis_change_matrix(p_out=1, p_in=0) * self.lin_trf_fac')])
    chk('FFTHelper.get_1dgrid', 'equispaced points from x0, right end excluded', [('return', 'self.xp.arange(self.N) * (self.L / self.N) + self.x0')])
    chk('FFTHelper.get_wavenumbers', 'integer wavenumbers scaled by 2 pi / L', [('return', 'self.xp.fft.fftfreq(self.N, 1.0 / self.N) * 2 * np.pi / self.L')])


def _fold_shape(fn):
    """(op, first, loop iter, step) of `X = expand(self.axes[a0].op(..), a0); for axis in rest: _X = self.axes[axis].op(..); X = X @ expand(_X, axis); return X`"""
    src = ast.unparse(fn)
    first = [s for s in fn.body if isinstance(s, ast.Assign) and 'expand_matrix_ND' in ast.unparse(s.value)]
    loops = [s for s in fn.body if isinstance(s, ast.For)]
    rets = [s for s in ast.walk(fn) if isinstance(s, ast.Return)]
    if len(first) != 1 or len(loops) != 1:
        return None
    X = ast.unparse(first[0].targets[0])
    m = re.fullmatch(r'self\.expand_matrix_ND\(self\.axes\[(.+)\]\.(\w+)\((.*)\), (.+)\)', ast.unparse(first[0].value))
    if not m or m.group(1) != m.group(4):
        return ('first slot mismatch', ast.unparse(first[0].value))
    op, args = m.group(2), m.group(3)
    lv = ast.unparse(loops[0].target)
    body = [ast.unparse(s) for s in loops[0].body]
    mm = re.fullmatch(rf'(\w+) = self\.axes\[{lv}\]\.{op}\({re.escape(args)}\)', body[0]) if len(body) == 2 else None
    ok = bool(mm) and body[1] == f'{X} = {X} @ self.expand_matrix_ND({mm.group(1)}, {lv})'
    return (op, m.group(1), ast.unparse(loops[0].iter), ok, body, [ast.unparse(r.value) for r in rets if r.value is not None] in ([X],) or not rets)


@rule('C17', 'C17.R4', 'n-d operators are tensor products: expand_matrix_ND puts the 1-d matrix in the slot of its axis and identities of the other axes\' sizes elsewhere, Kronecker product in axis order; the n-d differentiation / integration / identity / basis-change matrices are the product of such expansions over the requested axes', floor=6)
def r4(ctx, R):
    repo = ctx.repo
    fn = repo.func(SH, 'SpectralHelper.expand_matrix_ND')
    w = f'{SH}:SpectralHelper.expand_matrix_ND'
    R.fn(w)
    arms = {}
    for s in ast.walk(fn):
        if isinstance(s, ast.If) and re.fullmatch(r'ndim == \d', ast.unparse(s.test)):
            arms[ast.unparse(s.test)] = [ast.unparse(x) for x in s.body]
    a2, a3 = arms.get('ndim == 2', []), arms.get('ndim == 3', [])
    R.check(arms.get('ndim == 1') == ['mat = matrix'], 'expand_matrix_ND :: 1-d: the matrix itself', w, ['mat = matrix'], arms.get('ndim == 1'))
    ok2 = 'mats[aligned] = self.get_local_slice_of_1D_matrix(matrix, aligned)' in a2 and 'mats[axis] = self.get_local_slice_of_1D_matrix(I1D, axis)' in a2 and 'I1D = sp.eye(self.axes[axis].N)' in a2 and 'axis = axes[0]' in a2 and a2[-1] == 'mat = sp.kron(*mats)'
    R.check(ok2, 'expand_matrix_ND :: 2-d: matrix in slot `aligned`, identity of the OTHER axis\' size in its slot, kron(mats[0], mats[1])', w, 'mats[aligned] = M; mats[axis] = I(N_axis); mat = kron(*mats)', a2)
    ok3 = 'mats[aligned] = self.get_local_slice_of_1D_matrix(matrix, aligned)' in a3 and any(x.replace('\n', ' ').replace('    ', ' ') == 'for axis in axes: I1D = sp.eye(self.axes[axis].N) mats[axis] = self.get_local_slice_of_1D_matrix(I1D, axis)' or re.sub(r'\s+', ' ', x) == 'for axis in axes: I1D = sp.eye(self.axes[axis].N) mats[axis] = self.get_local_slice_of_1D_matrix(I1D, axis)' for x in a3) and a3[-1] == 'mat = sp.kron(mats[0], sp.kron(*mats[1:]))'
    R.check(ok3, 'expand_matrix_ND :: 3-d: identities for both other axes, kron(mats[0], kron(mats[1], mats[2]))', w, 'mats[aligned] = M; for axis in axes: mats[axis] = I(N_axis); mat = kron(mats[0], kron(*mats[1:]))', a3)
    ax = [ast.unparse(s.value) for s in walk_no_nested(fn) if isinstance(s, ast.Assign) and ast.unparse(s.targets[0]) == 'axes']
    R.check(ax == ['np.delete(np.arange(self.ndim), aligned)'], 'expand_matrix_ND :: the other axes are all axes except the aligned one', w, 'axes = np.delete(np.arange(self.ndim), aligned)', ax)
    shapes = {}
    for name in ('get_differentiation_matrix', 'get_integration_matrix', 'get_Id', 'get_basis_change_matrix'):
        f2 = repo.func(SH, f'SpectralHelper.{name}')
        R.fn(f'{SH}:SpectralHelper.{name}')
        sh = _fold_shape(f2)
        shapes[name] = sh
        ok = sh is not None and len(sh) == 6 and sh[3] and sh[0] == name
        it_ok = ok and ((sh[1], sh[2]) in (('axes[0]', 'axes[1:]'), ('0', 'range(1, self.ndim)')))
        R.check(bool(ok and it_ok), f'SpectralHelper.{name} :: product over the requested axes of expand_matrix_ND(1-d {name} of that axis, that axis)', f'{SH}:SpectralHelper.{name}', f'X = expand(axes[a0].{name}(), a0); for axis in the rest: X = X @ expand(axes[axis].{name}(), axis)', sh)


@rule('C17', 'C17.R5', 'boundary rows as tensor products: in SpectralHelper.get_BC the boundary factor sits in the slot of its axis when the Kronecker product is formed - no later store can overwrite it (negative axis indices alias non-negative ones), products in axis order', floor=3)
def r5(ctx, R):
    from ..cfg import FuncCFG
    repo = ctx.repo
    fn = repo.func(SH, 'SpectralHelper.get_BC')
    w = f'{SH}:SpectralHelper.get_BC'
    R.fn(w)
    cfg = FuncCFG(fn)
    arms = [s for s in ast.walk(fn) if isinstance(s, ast.If) and re.fullmatch(r'ndim == [23]', ast.unparse(s.test))]
    if len(arms) != 2:
        raise AnalysisError(f'{w}: expected the 2-d and 3-d arms')
    safe_idx = {ast.unparse(s.targets[0]) for s in ast.walk(fn) if isinstance(s, ast.Assign) and ast.unparse(s.value) == '(axis + 1) % ndim'}
    for arm in arms:
        dim = ast.unparse(arm.test)[-1]
        stores = [s for st in arm.body for s in ast.walk(st) if isinstance(s, ast.Assign) and isinstance(s.targets[0], ast.Subscript) and ast.unparse(s.targets[0].value) == 'mats']
        bc = [s for s in stores if 'BC' in ast.unparse(s.value)]
        ok = len(bc) == 1 and ast.unparse(bc[0].targets[0]) == 'mats[axis]' and ast.unparse(bc[0].value) == 'self.get_local_slice_of_1D_matrix(BC, axis=axis)'
        late = []
        if ok:
            nb = cfg.node_of[id(bc[0])]
            for s in stores:
                if s is bc[0]:
                    continue
                ns = cfg.node_of[id(s)]
                if cfg.reachable(nb, ns) and ast.unparse(s.targets[0].slice) not in safe_idx:
                    late.append(ast.unparse(s.targets[0]) + ' = ' + ast.unparse(s.value)[:50])
        R.check(ok and not late, f'get_BC :: {dim}-d: the boundary matrix is stored into mats[axis] and nothing that may alias that slot is stored afterwards', w, 'mats[axis] = BC after the identities (or the other slot is (axis + 1) % ndim)', {'BC stores': [ast.unparse(s) for s in bc], 'stores reachable after it': late})
        kr = [ast.unparse(s.value) for st in arm.body for s in ast.walk(st) if isinstance(s, ast.Assign) and ast.unparse(s.targets[0]) == 'mat']
        want = 'self.sparse_lib.csc_matrix(self.sparse_lib.kron(*mats))' if dim == '2' else 'self.sparse_lib.csc_matrix(self.sparse_lib.kron(mats[0], self.sparse_lib.kron(*mats[1:])))'
        R.check(kr == [want], f'get_BC :: {dim}-d: Kronecker product in axis order', w, want, kr)
    row = [ast.unparse(s) for s in ast.walk(fn) if isinstance(s, ast.Assign) and ast.unparse(s.targets[0]) == 'BC[line, :]']
    R.check(len(row) == 2 and all('base.get_BC(kind=kind, **kwargs)' in r for r in row) and 'base = self.axes[axis]' in [ast.unparse(s) for s in walk_no_nested(fn) if isinstance(s, ast.Assign)], 'get_BC :: the 1-d boundary row of THIS axis goes into the requested line of an otherwise zero matrix', w, 'BC[line, :] = self.axes[axis].get_BC(kind, ..)', row)


@rule('C17', 'C17.R6', 'ultraspherical conversion chain: C^(p_in) -> C^(p_out) is the product of the one-step conversions S_i for exactly the bases i between the two (min .. max-1), returned as is upwards and inverted downwards; a recursive use passes BOTH bases (an omitted one defaults to 0 and silently converts via the Chebychev base)', floor=4)
def r6(ctx, R):
    repo = ctx.repo
    name = 'UltrasphericalHelper.get_basis_change_matrix'
    fn = repo.func(SH, name)
    w = f'{SH}:{name}'
    R.fn(w)
    params = [a.arg for a in fn.args.args]
    R.check('p_in' in params and 'p_out' in params, f'{name} :: takes the ingoing and the outgoing base', w, 'p_in, p_out', params)
    # (a) the accumulation loop(s): mat = self.get_S(i) @ mat for i in range(lo, hi)
    loops = [l for l in ast.walk(fn) if isinstance(l, ast.For) and any(isinstance(c, ast.Call) and ast.unparse(c.func) == 'self.get_S' for c in ast.walk(l))]
    spans = []
    ok_body = bool(loops)
    for l in loops:
        it = l.iter
        okr = isinstance(it, ast.Call) and ast.unparse(it.func) == 'range' and len(it.args) == 2
        lo, hi = (ast.unparse(it.args[0]), ast.unparse(it.args[1])) if okr else ('?', '?')
        g = ' and '.join(sorted(ast.unparse(t) if pol else f'not ({ast.unparse(t)})' for t, pol in FuncCFG(fn).guards.get(id(l), ())))
        spans.append((lo, hi, g))
        body = [s for s in l.body if isinstance(s, ast.Assign)]
        ok_body = ok_body and len(body) == 1 and isinstance(body[0].value, ast.BinOp) and isinstance(body[0].value.op, ast.MatMult) and ast.unparse(body[0].value.left) == f'self.get_S({ast.unparse(l.target)})' and ast.unparse(body[0].value.right) == ast.unparse(body[0].targets[0])
    norm = lambda s: s.replace(' ', '').replace('[', '').replace(']', '')
    sym = {(norm(lo), norm(hi)) for lo, hi, g in spans}
    ok_span = sym == {('min(p_in,p_out)', 'max(p_in,p_out)')} or sym == {('min(p_out,p_in)', 'max(p_out,p_in)')} or (
        sym == {('p_in', 'p_out'), ('p_out', 'p_in')} and all(g for lo, hi, g in spans))
    if not ok_span and sym == {('p_in', 'p_out')}:
        # one direction by the loop, the other by a recursive call with the two bases exchanged
        rec = [c for c in ast.walk(fn) if isinstance(c, ast.Call) and ast.unparse(c.func) == 'self.get_basis_change_matrix']
        kw = [{k.arg: ast.unparse(k.value) for k in c.keywords} for c in rec]
        ok_span = len(rec) == 1 and kw[0].get('p_in') == 'p_out' and kw[0].get('p_out') == 'p_in' and all(g for lo, hi, g in spans)
    R.check(ok_body, f'{name} :: each step multiplies the next one-step conversion from the LEFT: mat = S_i @ mat', w, 'mat_fwd = self.get_S(i) @ mat_fwd', [ast.unparse(l)[:120] for l in loops])
    R.check(ok_span, f'{name} :: the product runs over the bases min(p_in, p_out) .. max(p_in, p_out) - 1', w, 'range(min([p_in, p_out]), max([p_in, p_out])) (or one range per direction)', spans)
    # (b) upward: returned as is; downward: inverted
    cfg = FuncCFG(fn)
    rets = [(ast.unparse(s.value), [ast.unparse(t) if pol else f'not ({ast.unparse(t)})' for t, pol in cfg.guards.get(id(s), ())]) for s in cfg.stmt_of.values() if isinstance(s, ast.Return)]
    up = [r for r in rets if any(norm(g) in ('p_out>p_in', 'p_in<p_out') for g in r[1])]
    down = [r for r in rets if any(norm(g) in ('not(p_out>p_in)', 'not(p_in<p_out)', 'p_out<=p_in', 'p_in>=p_out') for g in r[1])]
    inv = [s for s in ast.walk(fn) if isinstance(s, ast.Call) and ast.unparse(s.func).endswith('linalg.inv')]
    R.check(len(up) == 1 and len(down) == 1 and len(inv) == 1 and len(rets) == 2, f'{name} :: upward conversion returns the product, downward conversion returns its inverse', w, 'if p_out > p_in: return mat_fwd; else: return inv(mat_fwd)', rets)
    # (c) every use of the conversion inside the helper classes that sits in a function with both bases passes both
    n = 0
    for m, ci, f in repo.all_functions():
        if m.relpath != SH:
            continue
        fparams = {a.arg for a in f.args.args}
        for c in ast.walk(f):
            if isinstance(c, ast.Call) and isinstance(c.func, ast.Attribute) and c.func.attr == 'get_basis_change_matrix' and {'p_in', 'p_out'} <= fparams:
                n += 1
                kws = {k.arg for k in c.keywords}
                ok = {'p_in', 'p_out'} <= kws or len(c.args) >= 2 or any(k.arg is None for k in c.keywords)
                R.check(ok, f'{(ci.name + ".") if ci else ""}{f.name} :: a nested conversion names both bases', qual(m, ci, f), 'get_basis_change_matrix(p_in=.., p_out=..)', ast.unparse(c))
    R.ok(f'{SH} :: nested conversions inside functions that take both bases', SH, found=f'{n} call(s)')


def _cached_functions(repo):
    """names of functions that carry a caching decorator (the module's own @cache, functools.cache / lru_cache, cached_property)"""
    out = {}
    for m in repo.modules.values():
        if not repo.is_library(m):
            continue
        for node in ast.walk(m.tree):
            if isinstance(node, (ast.FunctionDef, ast.AsyncFunctionDef)):
                for d in node.decorator_list:
                    dn = ast.unparse(d.func if isinstance(d, ast.Call) else d).split('.')[-1]
                    if dn in ('cache', 'lru_cache', 'cached_property'):
                        out.setdefault(node.name, []).append(m.relpath)
    return out


def _mutated_cached_results(fn, cached):
    """in-place changes, inside fn, of a value that came out of a cached function"""
    names = {}
    hits = []

    def is_cached_call(e):
        return isinstance(e, ast.Call) and isinstance(e.func, (ast.Attribute, ast.Name)) and (e.func.attr if isinstance(e.func, ast.Attribute) else e.func.id) in cached

    for s in walk_no_nested(fn):
        if isinstance(s, ast.Assign) and len(s.targets) == 1 and isinstance(s.targets[0], ast.Name) and is_cached_call(s.value):
            names[s.targets[0].id] = s.lineno
    for s in walk_no_nested(fn):
        tg = s.targets if isinstance(s, ast.Assign) else [s.target] if isinstance(s, ast.AugAssign) else []
        for t in tg:
            b = t
            sub = False
            while isinstance(b, ast.Subscript):
                b = b.value
                sub = True
            if isinstance(b, ast.Name) and b.id in names and s.lineno > names[b.id] and (sub or isinstance(s, ast.AugAssign)):
                hits.append(f'line {s.lineno}: {ast.unparse(s)[:70]}')
            if is_cached_call(b) and sub:
                hits.append(f'line {s.lineno}: {ast.unparse(s)[:70]}')
        if isinstance(s, ast.Expr) and isinstance(s.value, ast.Call) and isinstance(s.value.func, ast.Attribute) and s.value.func.attr in ('sort', 'resize', 'fill', 'put', 'append', 'extend', 'setdiag'):
            b = s.value.func.value
            if isinstance(b, ast.Name) and b.id in names:
                hits.append(f'line {s.lineno}: {ast.unparse(s)[:70]}')
    return hits


_CONTROL_CACHED = "def g(self):\n    D = self._stencil()\n    D[0, :] /= 2\n    return D\n"


@rule('C17', 'C17.R7', 'what a cached function returns is shared by all later callers: no function changes such a value in place (a matrix taken from the cache, scaled in place and handed out is different at the second call)', floor=4)
def r7(ctx, R):
    repo = ctx.repo
    if len(_mutated_cached_results(ast.parse(_CONTROL_CACHED).body[0], {'_stencil'})) != 1:
        raise AnalysisError('C17.R7 positive control not detected')
    cached = _cached_functions(repo)
    if not {'get_conv', 'get_norm'} <= set(cached):
        raise AnalysisError(f'C17.R7: the confirmed cached functions (get_conv, get_norm) not found: {sorted(cached)}')
    n = 0
    for m, ci, fn in repo.all_functions():
        if m.relpath not in {r for rs in cached.values() for r in rs}:
            continue
        calls = [c for c in ast.walk(fn) if isinstance(c, ast.Call) and isinstance(c.func, (ast.Attribute, ast.Name)) and (c.func.attr if isinstance(c.func, ast.Attribute) else c.func.id) in cached]
        if not calls:
            continue
        n += 1
        w = qual(m, ci, fn)
        R.fn(w)
        hits = _mutated_cached_results(fn, cached)
        R.check(not hits, f'{(ci.name + ".") if ci else ""}{fn.name} :: values obtained from cached functions ({", ".join(sorted({(c.func.attr if isinstance(c.func, ast.Attribute) else c.func.id) for c in calls}))}) are not changed in place', w, 'read-only use (or a copy first)', hits)
    if n < 4:
        raise AnalysisError(f'C17.R7: only {n} callers of cached functions found')


@rule('C17', 'C17.R8', 'boundary rows are requested in REFERENCE coordinates end to end: the 1-d get_BC dispatchers hand their keyword arguments to the row builders unchanged (no rewriting of kwargs on the way - a translation table keyed by the physical end points collides with reference coordinates on intervals such as [1, 3] or [0, 1])', floor=1)
def r8(ctx, R):
    repo = ctx.repo
    n = 0
    for m, ci, fn in repo.all_functions():
        if m.relpath != SH or fn.name != 'get_BC' or ci is None or fn.args.kwarg is None:
            continue
        if ci.name == 'SpectralHelper':
            continue  # the n-d wrapper (C17.R5)
        kw = fn.args.kwarg.arg
        n += 1
        w = qual(m, ci, fn)
        R.fn(w)
        stores = []
        for s in walk_no_nested(fn):
            tg = s.targets if isinstance(s, ast.Assign) else [s.target] if isinstance(s, (ast.AugAssign, ast.AnnAssign)) else []
            for t in tg:
                b = t
                while isinstance(b, ast.Subscript):
                    b = b.value
                if isinstance(b, ast.Name) and b.id == kw:
                    stores.append(f'line {s.lineno}: {ast.unparse(s)[:80]}')
            if isinstance(s, ast.Expr) and isinstance(s.value, ast.Call) and isinstance(s.value.func, ast.Attribute) and isinstance(s.value.func.value, ast.Name) and s.value.func.value.id == kw and s.value.func.attr in ('update', 'pop', 'setdefault', 'clear'):
                stores.append(f'line {s.lineno}: {ast.unparse(s)[:80]}')
        fwd = [c for c in ast.walk(fn) if isinstance(c, ast.Call) and any(k.arg is None and ast.unparse(k.value) == kw for k in c.keywords)]
        R.check(not stores and bool(fwd), f'{ci.name}.get_BC :: **{kw} reaches the row builders unchanged', w, f'return self.get_<kind>_BC_row(**{kw}) with no assignment to {kw}', stores or 'kwargs not forwarded')
    if n < 1:
        raise AnalysisError('C17.R8: ChebychevHelper.get_BC(kind, **kwargs) not found')


@rule('C17', 'C17.R9', 'cached transforms / plans of the spectral helpers are keyed by everything they are built from (direction, axes, padding, shape)', floor=8)
def r9(ctx, R):
    from .. import memo
    memo.check(ctx, R, lambda m: m.relpath == SH, 'helpers/spectral_helper.py')


@rule('C17', 'C17.R10', 'scale-free helpers: (a) eliminate_zeros removes EXACT zeros only - no magnitude threshold, operators on long intervals have legitimately tiny entries ((2/L)^p); (b) every Fourier operator takes its wavenumbers from get_wavenumbers(), the one place where the 2 pi / L scaling is applied - no second fftfreq in the class', floor=3)
def r10(ctx, R):
    repo = ctx.repo
    fn = repo.func(SH, 'SpectralHelper.eliminate_zeros')
    w = f'{SH}:SpectralHelper.eliminate_zeros'
    R.fn(w)
    thr = [f'line {x.lineno}: {ast.unparse(x)[:70]}' for x in ast.walk(fn) if isinstance(x, ast.Compare) or (isinstance(x, ast.Call) and ast.unparse(x.func).split('.')[-1] in ('isclose', 'allclose', 'abs', 'absolute'))]
    R.check(not thr, 'SpectralHelper.eliminate_zeros :: no magnitude threshold', w, 'only A.eliminate_zeros() (exact zeros)', thr)
    ci = repo.cls(SH, 'FFTHelper')
    src = []
    for name, f in ci.methods.items():
        for x in ast.walk(f):
            if isinstance(x, ast.Attribute) and x.attr in ('fftfreq', 'rfftfreq'):
                src.append(name)
    R.check(sorted(set(src)) == ['get_wavenumbers'], 'FFTHelper :: fftfreq is called in get_wavenumbers only (single source of the scaled wavenumbers)', f'{SH}:FFTHelper', ['get_wavenumbers'], sorted(set(src)))
    # (c) the p-fold Fourier integral inverts the p-fold derivative mode by mode: S = (1/(ik))^p, D = (ik)^p (symbolic, p = 1..4)
    import sympy as sp
    from ..inline import facts as _facts

    def op(expr, kname):
        n = ast.parse(expr, mode='eval').body
        K, P = sp.Symbol('k', nonzero=True), sp.Symbol('p')

        def go(e):
            if isinstance(e, ast.Constant) and isinstance(e.value, complex):
                return sp.I * sp.nsimplify(e.value.imag)
            if isinstance(e, ast.Constant):
                return sp.nsimplify(e.value)
            if isinstance(e, ast.Name):
                return K if e.id == kname else P if e.id == 'p' else sp.Symbol(e.id)
            if isinstance(e, ast.BinOp):
                a, b = go(e.left), go(e.right)
                return {ast.Add: a + b, ast.Sub: a - b, ast.Mult: a * b, ast.Div: a / b, ast.Pow: a ** b}[type(e.op)]
            if isinstance(e, ast.Call):
                f = ast.unparse(e.func)
                if f == 'self.get_wavenumbers':
                    return K
                if f.split('.')[-1] in ('diags', 'csc_matrix', 'tocsc', 'array') and e.args:
                    return go(e.args[0])
                if isinstance(e.func, ast.Attribute) and e.func.attr in ('get', 'tocsc', 'tocsr') and not e.args:
                    return go(e.func.value)
                if f.split('.')[-1] == 'matrix_power' and len(e.args) == 2:
                    return go(e.args[0]) ** go(e.args[1])
            raise AnalysisError(f'C17.R10: cannot read the Fourier operator formula {ast.unparse(e)[:60]}')
        return go(n)

    fI = _facts(ci.methods['get_integration_matrix'])
    kI = [f[1] for f in fI if f[0] == 'assign' and 'get_wavenumbers' in f[2]]
    retI = [f[1] for f in fI if f[0] == 'return']
    fD = _facts(ci.methods['get_differentiation_matrix'])
    retD = [f[1] for f in fD if f[0] == 'return' and 'not (self.useGPU)' in f[-1]]
    if len(kI) != 1 or len(retI) != 1 or len(retD) != 1:
        raise AnalysisError('C17.R10: FFTHelper integration / differentiation matrix not in the expected shape')
    S, D = op(retI[0], kI[0]), op(retD[0], '')
    bad = [pv for pv in (1, 2, 3, 4) if sp.simplify((S * D).subs(sp.Symbol('p'), pv) - 1) != 0]
    R.check(not bad, 'FFTHelper :: integration matrix (p) times differentiation matrix (p) is the identity on every non-constant mode, p = 1..4', f'{SH}:FFTHelper.get_integration_matrix', 'S = (1/(ik))^p, D = (ik)^p', f'S = {S}, D = {D}; product != 1 for p in {bad}' if bad else 'ok')
    users = sorted(name for name, f in ci.methods.items() if name != 'get_wavenumbers' and any(isinstance(c, ast.Call) and ast.unparse(c.func) == 'self.get_wavenumbers' for c in ast.walk(f)))
    for name in ('get_differentiation_matrix', 'get_integration_matrix'):
        R.fn(f'{SH}:FFTHelper.{name}')
        R.check(name in users, f'FFTHelper.{name} :: built from self.get_wavenumbers()', f'{SH}:FFTHelper.{name}', 'a call of self.get_wavenumbers()', users)
