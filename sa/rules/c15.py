"""C15 - ParaDiag: ONLY the pipeline / pairing structure.  That the transforms are inverse to each other, that they diagonalise
the alpha-circulant matrix and that a converged run equals sequential collocation are matrix identities / numerics: NOT decided."""

import ast
import re

from ..cfg import FuncCFG, walk_no_nested
from ..model import AnalysisError
from ..runner import rule
from ..inline import facts
from .. import facts as _gfacts
from ..norm import Normalizer

PH = 'pySDC/helpers/ParaDiagHelper.py'
CC = 'pySDC/core/controller.py'
PC = 'pySDC/implementations/controller_classes/controller_ParaDiag_nonMPI.py'
SW = 'pySDC/implementations/sweeper_classes/ParaDiagSweepers.py'


def _stmts(fn):
    return sorted((s for s in walk_no_nested(fn) if isinstance(s, (ast.Assign, ast.AugAssign, ast.Return, ast.Expr)) and not (isinstance(s, ast.Expr) and isinstance(s.value, ast.Constant))), key=lambda s: (s.lineno, s.col_offset))


def _src(fn):
    return [ast.unparse(s) for s in _stmts(fn)]


@rule('C15', 'C15.R1', 'helper matrices are paired: forward = F @ J^-1, backward = J @ conj(F) (reversed product, reciprocal weights, one gamma everywhere), F orthonormal', floor=8)
def r1(ctx, R):
    repo = ctx.repo

    def F(name):
        R.fn(f'{PH}:{name}')
        return [(f[0],) + tuple(f[1:-1]) for f in facts(repo.func(PH, name))]

    def chk(name, title, want):
        got = F(name)
        R.check(got == want, f'{name} :: {title}', f'{PH}:{name}', want, got)

    GAM = 'alpha ** (-np.arange(N) / N)'
    chk('get_FFT_matrix', 'exp(-2 pi i j k / N) / sqrt(N): symmetric and orthonormal, so its inverse is its conjugate',
        [('store', '(i1, i2)', 'np.meshgrid(np.arange(N, dtype=complex), np.arange(N, dtype=complex))'), ('return', 'np.exp(-2 * np.pi * 1j * i1 * i2 / N) / np.sqrt(N)')])
    chk('get_J_matrix', 'J = diag(alpha^(-j/N))', [('return', f'sp.diags({GAM})')])
    chk('get_J_inv_matrix', 'J^-1 = diag(1 / alpha^(-j/N)) with the SAME weights', [('return', f'sp.diags(1 / {GAM})')])
    chk('get_weighted_FFT_matrix', 'forward transform F @ J^-1', [('return', 'get_FFT_matrix(N) @ get_J_inv_matrix(N, alpha)')])
    chk('get_weighted_iFFT_matrix', 'backward transform J @ conj(F): the factors of the forward transform inverted, in reverse order', [('return', 'get_J_matrix(N, alpha) @ np.conjugate(get_FFT_matrix(N))')])
    chk('get_E_matrix', '-1 on the first sub-diagonal, -alpha in the upper right corner (alpha-circulant)',
        [('assign', '_v1', 'sp.diags([-1.0] * (N - 1), offsets=-1).tolil()'), ('store', '_v1[0, -1]', '-alpha'), ('return', '_v1')])
    chk('get_H_matrix', 'ones in the LAST column only (the step ends at the last node)', [('assign', '_v1', 'sp.eye(N).tolil() * 0'), ('store', '_v1[:, -1]', '1'), ('return', '_v1')])
    g = "(np.fft.fft(1 / alpha ** (-np.arange(L) / L) * get_E_matrix(L, alpha)[:, 0].toarray().flatten(), norm='backward')[l] * get_H_matrix(sweeper_params['num_nodes'], sweeper_params) + sp.eye(sweeper_params['num_nodes'])).tocsc()"
    chk('get_G_inv_matrix', 'per-step factor: l-th eigenvalue of the weighted first column of E_alpha (same weights as J), G = d_l H + I, inverted',
        [('return', f'sp.linalg.inv({g}).toarray()'), ('return', f'1 / {g}.toarray()')])


@rule('C15', 'C15.R2', 'controller: one G^-1 per step with the step index and the block size; FFT_in_time / iFFT_in_time use the forward / backward matrix for (n_steps, alpha)', floor=4)
def r2(ctx, R):
    repo = ctx.repo
    fn = repo.func(PC, 'controller_ParaDiag_nonMPI.__init__')
    w = f'{PC}:controller_ParaDiag_nonMPI.__init__'
    R.fn(w)
    loops = [l for l in walk_no_nested(fn) if isinstance(l, ast.For) and 'get_G_inv_matrix' in ast.unparse(l)]
    ok = len(loops) == 1
    body = []
    if ok:
        l = loops[0]
        body = [ast.unparse(s) for s in l.body]
        v = ast.unparse(l.target)
        ok = ast.unparse(l.iter) == 'range(num_procs)' and body == [f"G_inv = get_G_inv_matrix({v}, num_procs, self.params.alpha, description['sweeper_params'])", "description['sweeper_params']['G_inv'] = G_inv", 'self.MS.append(stepclass.Step(description))']
    R.check(ok, 'controller_ParaDiag_nonMPI.__init__ :: step l is built with G_inv(l, n_steps, alpha) - in this order, once per step', w, "for l in range(num_procs): G_inv = get_G_inv_matrix(l, num_procs, alpha, ..); sweeper_params['G_inv'] = G_inv; MS.append(Step(description))", body)
    sup = [ast.unparse(c) for c in ast.walk(fn) if isinstance(c, ast.Call) and ast.unparse(c.func) == 'super().__init__']
    R.check(sup == ['super().__init__(controller_params, description, useMPI=False, n_steps=num_procs)'], 'controller_ParaDiag_nonMPI.__init__ :: the transform size n_steps is the number of steps of the block', w, 'super().__init__(.., n_steps=num_procs)', sup)
    for meth, getter, attr in (('FFT_in_time', 'get_weighted_FFT_matrix', '__FFT_matrix'), ('iFFT_in_time', 'get_weighted_iFFT_matrix', '__iFFT_matrix')):
        f2 = repo.func(CC, f'ParaDiagController.{meth}')
        w2 = f'{CC}:ParaDiagController.{meth}'
        R.fn(w2)
        src = [ast.unparse(s) for s in ast.walk(f2) if isinstance(s, (ast.Assign, ast.Expr)) and not (isinstance(s, ast.Expr) and isinstance(s.value, ast.Constant))]
        mk = [x for x in src if getter in x and '=' in x]
        ap = [x for x in src if x.startswith('self.apply_matrix(')]
        imp = [ast.unparse(s) for s in ast.walk(f2) if isinstance(s, ast.ImportFrom)]
        ok = len(mk) == 1 and re.fullmatch(rf'self\.(_ParaDiagController)?{attr} = {getter}\(self\.n_steps, self\.params\.alpha\)', mk[0]) and len(ap) == 1 and re.fullmatch(rf'self\.apply_matrix\(self\.(_ParaDiagController)?{attr}, quantity\)', ap[0]) and imp == [f'from pySDC.helpers.ParaDiagHelper import {getter}']
        R.check(bool(ok), f'ParaDiagController.{meth} :: applies {getter}(n_steps, alpha)', w2, f'M = {getter}(self.n_steps, self.params.alpha); self.apply_matrix(M, quantity)', {'build': mk, 'apply': ap, 'import': imp})


@rule('C15', 'C15.R3', 'it_ParaDiag: Jacobians -> all-at-once residual -> FFT(residual) -> local solves -> iFFT(increment) -> u += increment, each dominating the next; the quantities form one def-use chain', floor=8)
def r3(ctx, R):
    repo = ctx.repo
    fn = repo.func(PC, 'controller_ParaDiag_nonMPI.it_ParaDiag')
    w = f'{PC}:controller_ParaDiag_nonMPI.it_ParaDiag'
    R.fn(w)
    cfg = FuncCFG(fn)
    want = ['self.prepare_Jacobians(local_MS_running)', 'self.compute_all_at_once_residual(local_MS_running)', "self.FFT_in_time(quantity='residual')", 'S.levels[0].sweep.update_nodes()', "self.iFFT_in_time(quantity='increment')", 'self.update_solution(local_MS_running)']
    node = {}
    for n in cfg.stmt_of:
        for c in cfg.calls_at(n):
            u = ast.unparse(c)
            if u in want:
                node.setdefault(u, []).append(n)
    missing = [x for x in want if len(node.get(x, [])) != 1]
    if missing:
        R.bad('it_ParaDiag :: every stage of the pipeline occurs exactly once', w, want, {'missing or repeated': missing})
        return
    def lift(n):
        # a stage inside a top-level loop over the steps is represented by the loop header (the loop may run zero times)
        st = cfg.stmt_of[n]
        for l in fn.body:
            if isinstance(l, ast.For) and any(x is st for x in ast.walk(l)):
                return next(k for k, v in cfg.stmt_of.items() if v is l)
        return n

    for a, b in zip(want, want[1:]):
        na, nb = lift(node[a][0]), lift(node[b][0])
        R.check(cfg.dominates(na, nb) and na != nb and cfg.postdominates(nb, na), f'it_ParaDiag :: {a.split("(")[0]} before {b.split("(")[0]} on every path', w, f'{a} dominates {b}; {b} post-dominates {a}', 'order violated' if not (cfg.dominates(na, nb) and cfg.postdominates(nb, na)) else 'ok')
    # the sweep runs for every running step, between the two transforms
    lp = [l for l in walk_no_nested(fn) if isinstance(l, ast.For) and 'update_nodes' in ast.unparse(l)]
    R.check(len(lp) == 1 and ast.unparse(lp[0].iter) == 'local_MS_running' and ast.unparse(lp[0].target) == 'S', 'it_ParaDiag :: the local solve runs on every running step', w, 'for S in local_MS_running: S.levels[0].sweep.update_nodes()', [ast.unparse(l.iter) for l in lp])
    # def-use chain of the quantities
    am = repo.func(PC, 'controller_ParaDiag_nonMPI.apply_matrix')
    sel = {}
    for s in ast.walk(am):
        if isinstance(s, ast.If) and 'quantity ==' in ast.unparse(s.test):
            q = ast.unparse(s.test).split('==')[1].strip().strip("'")
            sel[q] = [ast.unparse(x.value) for x in s.body if isinstance(x, ast.Assign)]
    R.fn(f'{PC}:controller_ParaDiag_nonMPI.apply_matrix')
    R.check(sel == {'residual': ['[S.levels[0].residual for S in self.MS]'], 'increment': ['[S.levels[0].increment for S in self.MS]']}, "apply_matrix :: 'residual' / 'increment' select level.residual / level.increment of ALL steps of the block", f'{PC}:controller_ParaDiag_nonMPI.apply_matrix', "{'residual': level.residual, 'increment': level.increment}", sel)
    un = repo.func(SW, 'QDiagonalization.update_nodes')
    src = ast.unparse(un)
    R.fn(f'{SW}:QDiagonalization.update_nodes')
    R.check('self.mat_vec(self.S_inv, [self.level.residual[m] for m in range(M)])' in src and 'L.increment[m] = y[m]' in src, 'QDiagonalization.update_nodes :: reads the (transformed) residual, writes the increment', f'{SW}:QDiagonalization.update_nodes', 'x1 = S_inv * residual ... L.increment[m] = y[m]', 'not found')
    us = repo.func(PC, 'controller_ParaDiag_nonMPI.update_solution')
    R.fn(f'{PC}:controller_ParaDiag_nonMPI.update_solution')
    got = [d for l, d in _contribs(us)]
    want_us = ['S.levels[0].u[i1] += +S.levels[0].increment[i1 - 1] for S in local_MS_running, i1=1..S.levels[0].sweep.coll.num_nodes']
    R.check(got == want_us, 'update_solution :: u[m+1] += increment[m] for every node of every running step', f'{PC}:controller_ParaDiag_nonMPI.update_solution', want_us, got)
    pj = repo.func(PC, 'controller_ParaDiag_nonMPI.prepare_Jacobians')
    R.fn(f'{PC}:controller_ParaDiag_nonMPI.prepare_Jacobians')
    got = [d for l, d in _contribs(pj)]
    Mx = 'local_MS_running[0].levels[0].sweep.coll.num_nodes'
    want_pj = [f'u_avg[i1 - 1] += +1/(self.n_steps)·S.levels[0].u[i1] for S in local_MS_running, i1=1..{Mx} if self.params.average_jacobian', 'S.levels[0].u_avg = +u_avg for S in local_MS_running if self.params.average_jacobian']
    R.check(got[1:] == want_pj and len(got) == 3 and got[0].startswith('u_avg = +[local_MS_running[0].levels[0].prob.dtype_u(local_MS_running[0].levels[0].prob.init, val=0)]'), 'prepare_Jacobians :: u_avg[m] = mean over the steps of u[m+1], handed to every step', f'{PC}:controller_ParaDiag_nonMPI.prepare_Jacobians', want_pj, got)


def _contribs(fn):
    N = Normalizer(fn)
    return [(c.lineno, c.describe()) for c in N.contribs if c.target not in N.env.alias]


@rule('C15', 'C15.R4', 'apply_matrix: time matrix times the block vector (row i, column j, every node m), accumulated into fresh storage and written back only after the whole product', floor=3)
def r4(ctx, R):
    repo = ctx.repo
    fn = repo.func(PC, 'controller_ParaDiag_nonMPI.apply_matrix')
    w = f'{PC}:controller_ParaDiag_nonMPI.apply_matrix'
    R.fn(w)
    cs = _contribs(fn)
    M = 'self.MS[0].levels[0].sweep.params.num_nodes'
    init = [(l, d) for l, d in cs if re.fullmatch(rf'\(\[None\] \* len\(self\.MS\)\)\[i1 - 1\] = \+\[self\.MS\[0\]\.levels\[0\]\.prob\.u_init for \w+ in range\({re.escape(M)}\)\] for i1=1\.\.mat\.shape\[0\]', d)]
    acc = [(l, d) for l, d in cs if d == f'([None] * len(self.MS))[i1 - 1][i3 - 1] += +mat[i1 - 1, i2 - 1]·me[i2 - 1][i3 - 1] for i1=1..mat.shape[0], i2=1..mat.shape[1], i3=1..{M}']
    wb = [(l, d) for l, d in cs if d == f'me[i1 - 1][i2 - 1] = +([None] * len(self.MS))[i1 - 1][i2 - 1] for i1=1..mat.shape[0], i2=1..{M}']
    R.check(len(init) == 1 and len(acc) == 1, 'apply_matrix :: res[i][m] = sum_j mat[i, j] * me[j][m], starting from a fresh zero per (i, m)', w, 'res[i] = [u_init for each node]; res[i][m] += mat[i, j] * me[j][m] over all i, j, m', [d for l, d in cs])
    ok = len(wb) == 1 and len(acc) == 1
    if ok:
        loops = [l for l in fn.body if isinstance(l, ast.For)]
        ok = len(loops) == 2 and loops[0].lineno <= acc[0][0] <= loops[0].end_lineno and loops[1].lineno <= wb[0][0] <= loops[1].end_lineno
    R.check(ok, 'apply_matrix :: the block vector is overwritten in a SECOND loop nest, after all rows were computed from the old values', w, 'for i: for m: me[i][m] = res[i][m]  (after the accumulation loop nest has finished)', [d for l, d in cs if d.startswith('me[')])
    mv = repo.func(SW, 'QDiagonalization.mat_vec')
    R.fn(f'{SW}:QDiagonalization.mat_vec')
    got = [d for l, d in _contribs(mv)]
    want = ['result = +[]', 'result[i1 - 1] = +P.u_init for i1=1..mat.shape[0]', 'result[i1 - 1] += +mat[i1 - 1, i2 - 1]·vec[i2 - 1] for i1=1..mat.shape[0], i2=1..mat.shape[1]']
    rets = [ast.unparse(x.value) for x in walk_no_nested(mv) if isinstance(x, ast.Return)]
    R.check(got == want and rets == ['result'], 'QDiagonalization.mat_vec :: result[m] = sum_j mat[m, j] * vec[j] from a fresh zero', f'{SW}:QDiagonalization.mat_vec', want, got)


@rule('C15', 'C15.R5', 'QDiagonalization: A = Q[1:,1:] @ G_inv = S diag(w) S^-1; update_nodes applies S^-1, solves node m with w[m]*dt, applies S, then G_inv - in this order', floor=6)
def r5(ctx, R):
    repo = ctx.repo
    cd = [f[:-1] for f in facts(repo.func(SW, 'QDiagonalization.computeDiagonalization'))]
    w = f'{SW}:QDiagonalization.computeDiagonalization'
    R.fn(w)
    want = [('store', '(w, S)', 'np.linalg.eig(A)'), ('return', '(w, S, np.linalg.inv(S))')]
    R.check(cd == want, 'computeDiagonalization :: (w, S) = eig(A), S_inv = inv(S), returned as (w, S, S_inv)', w, want, cd)
    sg = [f[:-1] for f in facts(repo.func(SW, 'QDiagonalization.set_G_inv'))]
    R.fn(f'{SW}:QDiagonalization.set_G_inv')
    want = [('store', 'self.params.G_inv', 'G_inv'), ('store', '(self.w, self.S, self.S_inv)', 'self.computeDiagonalization(A=self.coll.Qmat[1:, 1:] @ self.params.G_inv)')]
    R.check(sg == want, 'set_G_inv :: stores G_inv and diagonalises Q[1:,1:] @ G_inv (the SAME G_inv that update_nodes applies last), unpacked in the order returned', f'{SW}:QDiagonalization.set_G_inv', want, sg)
    un = repo.func(SW, 'QDiagonalization.update_nodes')
    w = f'{SW}:QDiagonalization.update_nodes'
    R.fn(w)
    cs = _contribs(un)
    G = 'L.tau[0] is None'
    want = [
        f'x1 = +self.mat_vec(self.S_inv, [L.residual[m] for m in range(M)]) if {G} and self.params.ignore_ic',
        f'x1 = +self.mat_vec(self.S_inv, [L.u[0] for _ in range(M)]) if {G} and not self.params.ignore_ic',
        f'x2[i1 - 1] = +P.solve_jacobian(x1[i1 - 1], self.w[i1 - 1] * L.dt, u=u_avg, t=L.time + L.dt * self.coll.nodes[i1 - 1]) for i1=1..M if {G}',
        f'z = +self.mat_vec(self.S, x2) if {G}',
        f'y = +self.mat_vec(self.params.G_inv, z) if {G}',
        f'L.increment[i1 - 1] = +y[i1 - 1] for i1=1..M if {G} and self.params.ignore_ic',
        f'L.u[i1] = +y[i1 - 1] for i1=1..M if {G} and not self.params.ignore_ic',
    ]
    got = [d for l, d in cs]
    pos = [got.index(x) if x in got else -1 for x in want]
    for x, p in zip(want, pos):
        R.check(p >= 0, f'update_nodes :: {x.split(" = ")[0]} stage present with its operands', w, x, [g for g in got if g.startswith(x.split(" = ")[0])])
    if all(p >= 0 for p in pos):
        lines = [cs[p][0] for p in pos]
        R.check(lines[0] < lines[2] and lines[1] < lines[2] and lines[2] < lines[3] < lines[4] < lines[5] and lines[4] < lines[6], 'update_nodes :: S^-1, local solves, S, G_inv, store - in this order', w, 'x1 -> x2 -> z -> y -> L.increment / L.u', lines)
    ua = [d for l, d in cs if d.startswith('u_avg')]
    want_ua = [f'u_avg = +P.u_init if {G}', f'u_avg += +1/(M)·L.u_avg[i1 - 1] for i1=1..M if {G} and not any((me is None for me in L.u_avg))']
    R.check(ua == want_ua, 'update_nodes :: the Jacobian is evaluated at the mean over the nodes of the (block-averaged) state', w, want_ua, ua)


@rule('C15', 'C15.R6', 'QDiagonalization evaluates f at node m with the time of node m (residual and Jacobian solves see t_m = t + dt*c_m)', floor=3)
def r6(ctx, R):
    repo = ctx.repo
    for meth in ('eval_f_at_all_nodes', 'update_nodes'):
        fn = repo.func(SW, f'QDiagonalization.{meth}')
        w = f'{SW}:QDiagonalization.{meth}'
        R.fn(w)
        cs = [d for l, d in _contribs(fn) if d.startswith('L.f[')]
        want = 'L.f[i1] = +P.eval_f(L.u[i1], L.time + L.dt * self.coll.nodes[i1 - 1]) for i1=1..'
        ok = len(cs) == 1 and cs[0].startswith(want)
        R.check(ok, f'QDiagonalization.{meth} :: f[m] = f(u[m], t + dt*nodes[m-1]) for every node m = 1..M', w, want + 'M', cs)
    fn = repo.func(SW, 'QDiagonalization.update_nodes')
    cs = [d for l, d in _contribs(fn) if 'solve_jacobian' in d]
    R.check(len(cs) == 1 and 't=L.time + L.dt * self.coll.nodes[i1 - 1]' in cs[0] and cs[0].startswith('x2[i1 - 1] = +P.solve_jacobian(x1[i1 - 1], self.w[i1 - 1] * L.dt'), 'update_nodes :: the m-th local solve is linearised at the time of node m', f'{SW}:QDiagonalization.update_nodes', 'solve_jacobian(x1[m], w[m]*dt, u=u_avg, t=t + dt*nodes[m])', cs)
    gr = repo.func(SW, 'QDiagonalization.get_residual')
    R.fn(f'{SW}:QDiagonalization.get_residual')
    cs = [d for l, d in _contribs(gr)]
    want = ['residual[i1 - 1] += -L.u[i1] for i1=1..M', 'residual[i1 - 1] += +L.u[0] for i1=1..M']
    alt = [d for d in cs if d.startswith('residual[')]
    R.check(sorted(re.sub(r'self\.level', 'L', re.sub(r'self\.coll\.num_nodes', 'M', d)) for d in alt) == sorted(want) or sorted(alt) == sorted(want), 'get_residual :: residual[m] = integrate()[m] - u[m+1] + u[0]', f'{SW}:QDiagonalization.get_residual', want, alt)


@rule('C15', 'C15.R7', 'the all-at-once residual is the right-hand side of every iteration, so it is ALWAYS recomputed: the ParaDiag controller calls compute_residual() without a stage name (a named stage can be switched off through sweeper_params[\'skip_residual_computation\'], after which every iteration would re-transform a stale residual)', floor=3)
def r7(ctx, R):
    repo = ctx.repo
    rel = 'pySDC/implementations/controller_classes/controller_ParaDiag_nonMPI.py'
    n = 0
    for m, ci, fn in repo.all_functions():
        if m.relpath != rel:
            continue
        for c in ast.walk(fn):
            if isinstance(c, ast.Call) and isinstance(c.func, ast.Attribute) and c.func.attr == 'compute_residual':
                n += 1
                w = f'{rel}:{ci.name}.{fn.name}'
                R.fn(w)
                args = [ast.unparse(a) for a in c.args] + [f'{k.arg}={ast.unparse(k.value)}' for k in c.keywords]
                R.check(not args, f'{ci.name}.{fn.name} :: compute_residual() is called unconditionally skippable-free (no stage)', w, 'compute_residual()', ast.unparse(c))
    if n < 2:
        raise AnalysisError(f'C15.R7: expected the residual computations of spread and compute_all_at_once_residual, found {n}')
    # the premise: a named stage IS skippable in the base class, the default is not
    sw = repo.func('pySDC/core/sweeper.py', 'Sweeper.compute_residual')
    cfg = FuncCFG(sw)
    early = [s for s in cfg.stmt_of.values() if isinstance(s, ast.Return) and any('skip_residual_computation' in ast.unparse(t) and pol for t, pol in cfg.guards.get(id(s), ()))]
    dflt = [ast.unparse(d) for d in sw.args.defaults]
    R.check(len(early) == 1 and dflt in (["''"], ['None']), 'Sweeper.compute_residual :: returns early only for a stage listed in skip_residual_computation; the default stage is the empty name', 'pySDC/core/sweeper.py:Sweeper.compute_residual', "if stage in self.params.skip_residual_computation: return; default stage ''", {'early returns': len(early), 'default': dflt})


@rule('C15', 'C15.R8', 'ParaDiag over several blocks gives the serial answer only if run() chains the blocks like the serial controller: the value carried to the next block is uend of the last step, or u[0] of the first restarted step (value chain of run(), shared with C06.R1)', floor=12)
def r8(ctx, R):
    from . import c06
    c06.r1(ctx, R)


def _bodies(node):
    for n in ast.walk(node):
        for attr in ('body', 'orelse', 'finalbody'):
            b = getattr(n, attr, None)
            if isinstance(b, list) and b and isinstance(b[0], ast.stmt):
                yield b


def _assigns_name(stmt, name):
    for s in ast.walk(stmt):
        tg = s.targets if isinstance(s, ast.Assign) else [s.target] if isinstance(s, (ast.AugAssign, ast.AnnAssign)) else []
        for t in tg:
            if any(isinstance(n, ast.Name) and n.id == name for n in ast.walk(t)):
                return True
    return False


def _loads_name(stmt, name):
    return any(isinstance(n, ast.Name) and n.id == name and isinstance(n.ctx, ast.Load) for n in ast.walk(stmt))


def stale_active_slots(fn):
    """-> list of (lineno of the `active_slots = compress(slots, active)` statement, lineno of a later write of `active` that the
    statement does not see although the next reader of active_slots comes after it).  Syntax-directed walk over the statement list that
    holds the compression: the compression must read the FINAL mask of the block."""
    sites = []
    for body in _bodies(fn):
        for i, s in enumerate(body):
            if isinstance(s, ast.Assign) and any(isinstance(t, ast.Name) and t.id == 'active_slots' for t in s.targets) and _loads_name(s.value, 'active'):
                stale = None
                for later in body[i + 1:]:
                    if _assigns_name(later, 'active_slots'):
                        break
                    if _assigns_name(later, 'active') and stale is None:
                        stale = later.lineno
                    if _loads_name(later, 'active_slots'):
                        break
                else:
                    # the statement list ended without another reader: the loop head / the next iteration reads it
                    pass
                sites.append((s.lineno, stale))
    return sites


_R9_CONTROL = '''
def run(self, slots, time, Tend):
    active = [time[p] < Tend for p in slots]
    active_slots = list(itertools.compress(slots, active))
    if not all(active) and any(active):
        active = [True] * len(active)
    self.restart_block(active_slots, time, None)
'''


@rule('C15', 'C15.R9', 'the block is restarted with the steps of the FINAL activity mask: in run() of the serial controllers `active_slots = compress(slots, active)` is computed after the last write of `active` of that block (ParaDiag overrides the mask to "all steps" when Tend falls inside a block, because its transforms, G_inv and the 1/L weights span the whole block) - a compression taken before the override restarts fewer steps than the all-at-once system couples', floor=4)
def r9(ctx, R):
    repo = ctx.repo
    ctl = stale_active_slots(ast.parse(_R9_CONTROL).body[0])
    if len(ctl) != 1 or ctl[0][1] is None:
        raise AnalysisError('C15.R9: the embedded control (compression before the override) is not recognised')
    n = 0
    for rel, cn in ((PC, 'controller_ParaDiag_nonMPI'), ('pySDC/implementations/controller_classes/controller_nonMPI.py', 'controller_nonMPI')):
        fn = repo.func(rel, f'{cn}.run')
        w = f'{rel}:{cn}.run'
        R.fn(w)
        for line, stale in stale_active_slots(fn):
            n += 1
            R.check(stale is None, f'{cn}.run :: active_slots (#{n}) is compressed from the final `active` of the block', w, 'no write of `active` between the compression and the next reader of active_slots', f'`active` is written again at line {stale}, after the compression at line {line}' if stale else 'final')
    if n < 4:
        raise AnalysisError(f'C15.R9: only {n} compressions of the slot list found in the serial run() loops')


@rule('C15', 'C15.R10', 'ParaDiag forward coupling: in compute_all_at_once_residual every non-first step receives the end value of its predecessor into its INITIAL-VALUE slot (S.levels[0].u[0] = S.prev.levels[0].uend under `not S.status.first`), after the predecessor end point was computed in the same sweep over the steps and before the residual', floor=3)
def r10(ctx, R):
    repo = ctx.repo
    fn = repo.func(PC, 'controller_ParaDiag_nonMPI.compute_all_at_once_residual')
    w = f'{PC}:controller_ParaDiag_nonMPI.compute_all_at_once_residual'
    R.fn(w)
    recv = [s for s in ast.walk(fn) if isinstance(s, ast.Assign) and 'prev' in ast.unparse(s.value)]
    if len(recv) != 1:
        raise AnalysisError(f'compute_all_at_once_residual: expected one assignment from the predecessor, found {len(recv)} - re-confirm C15.R10')
    s = recv[0]
    R.check([ast.unparse(t) for t in s.targets] == ['S.levels[0].u[0]'] and ast.unparse(s.value) == 'S.prev.levels[0].uend', 'compute_all_at_once_residual :: predecessor end value -> own initial value, finest level', w, 'S.levels[0].u[0] = S.prev.levels[0].uend', ast.unparse(s))
    cfg = FuncCFG(fn)
    R.check(_gfacts.guard_strings(cfg, s) == ['not S.status.first'], 'compute_all_at_once_residual :: exactly the non-first steps receive', w, ['not S.status.first'], _gfacts.guard_strings(cfg, s))
    order = [(c.lineno, c.func.attr) for c in ast.walk(fn) if isinstance(c, ast.Call) and isinstance(c.func, ast.Attribute) and c.func.attr in ('compute_end_point', 'compute_residual')]
    names = [a for _, a in sorted(order)]
    R.check(names == ['compute_end_point', 'compute_residual'] and sorted(order)[0][0] < s.lineno < sorted(order)[1][0], 'compute_all_at_once_residual :: end point, then receive, then residual', w, 'compute_end_point() < u[0] = prev.uend < compute_residual()', {'calls': names, 'receive at': s.lineno})
