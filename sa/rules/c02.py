"""C02 - one sweep equals one preconditioned Picard iteration (structural clauses, DESIGN.md §4 C02)."""

import ast
import json
import os
import re

from ..cfg import FuncCFG
from ..model import AnalysisError, ClassInfo
from ..norm import Normalizer
from ..runner import rule
from .. import sweepers as sw
from ..sig import compare

SPEC = os.path.join(os.path.dirname(os.path.dirname(__file__)), 'specs', 'sweeper_signatures.json')

# every factor / right-hand side that the normaliser is expected to meet in a sweeper; anything else is an
# unrecognised idiom (ANALYSIS-ERROR), not a violation
VOCAB = [
    r'L\.dt', r'L\.time', r'\d+(\.\d+)?', r'None|True|False|\[\]',
    r'L\.(u|f|tau|uend|residual)(\[[^\]]*\])?(\.\w+)?(\[:\])?',
    r'L\.f\[1:\]\[e\d\](\.\w+)?',
    r'self\.(QI|QE|Q1|Q2|QQ|Qx|QT|qQ|S|ST|SQ|Sx|Q)\[[^\]]*\]',
    r'self\.coll(_explicit)?\.(Qmat|weights|nodes|delta_m)(\[[^\]]*\])+',
    r'(KNOWN|ACC|v\d+)(\[[^\]]*\])?(\.\w+)?(\[:\])?',
    r'self\.get_full_f\(L\.f\[[^\]]*\]\)',
    r'self\.integrate\(.*\)(\[[^\]]*\])?',
    r'P\.(dtype_u|dtype_f|solve_system|solve_system_1|solve_system_2|eval_f|build_f|boris_solver|apply_mass_matrix)\(.*\)',
    r'P\.(f_init|u_init)',
    r'L\.u\[[^\]]*\](\.\w+)?(\[:\])? [-+] (KNOWN|v\d+)\[[^\]]*\](\.\w+)?(\[:\])?',
    r'L\.u\[0\]\.copy\(\)', r'(KNOWN|v\d+) if .* else None',
    r'\[P\.dtype_u\(P\.init, val=0\.0\) for \w+ in range\(M\)\]',
]


def _spec():
    with open(SPEC) as fh:
        return json.load(fh)['signatures']


def _recognised(lines):
    """factors / right-hand sides of Line objects that are outside the vocabulary"""
    rxs = [re.compile(p) for p in VOCAB]
    bad = []
    for l in lines:
        items = [x for _, f in (l.terms or []) for x in f] if l.op == '+=' else [l.rhs or '']
        for it in items:
            if not any(r.fullmatch(it) for r in rxs):
                bad.append(it)
    return bad


_LINE = re.compile(r'^(?P<t>.+?) (?P<op>\+=|=|\*=|/=|\w+=) (?P<b>.*)$')


def _parse(text):
    head = text.split(' | ')[0]
    m = _LINE.match(head)
    if not m:
        return head, '', ''
    return m.group('t'), m.group('op'), m.group('b')


def _deps(seq):
    """ordered pairs (a, b), a before b, that are linked by a data dependency on a tracked name"""
    def base(t):
        m = re.match(r'^(L\.\w+|self\.\w+|\w+)', t)
        return m.group(1) if m else t

    idx = {}
    named = []
    parsed = []
    for t in seq:
        k = idx.get(t, 0)
        idx[t] = k + 1
        named.append(f'{t}#{k}')
        parsed.append(_parse(t))
    pairs = set()
    for i in range(len(seq)):
        full_a, op_a, body_a = parsed[i]
        ta = base(full_a)
        for j in range(i + 1, len(seq)):
            full_b, op_b, body_b = parsed[j]
            tb = base(full_b)
            if full_a == full_b and op_a == '+=' and op_b == '+=':
                continue  # accumulations into the same slot commute
            if ta == tb or re.search(rf'(?<![\w.]){re.escape(ta)}(?![\w])', body_b) or re.search(rf'(?<![\w.]){re.escape(tb)}(?![\w])', body_a):
                pairs.add((named[i], named[j]))
    return pairs


def _check_sig(R, repo, rel, cn, method, spec):
    ci = repo.cls(rel, cn)
    owner, fn, sig = sw.method_sig(repo, ci, method)
    key = f'{owner.name}.{method}'
    w = sw.where(owner, fn)
    R.fn(w)
    if key not in spec:
        raise AnalysisError(f'no reference signature for {key} (resolved from {cn}); add it to sa/specs after reading the code')
    exp = spec[key]
    variants = _case_variants(fn)
    if variants:
        # a local bound to `a if <flag> else b` (integer constants): the reference signature must hold in BOTH cases
        for label, vfn in variants:
            vsig = sw.Signature(vfn, rename=sw.role_renames(vfn))
            _compare_sig(R, w, f'{key} [{label}]', vfn, vsig, exp)
        return
    _compare_sig(R, w, key, fn, sig, exp)


def _case_variants(fn):
    import copy
    cases = [s for s in fn.body if isinstance(s, ast.Assign) and len(s.targets) == 1 and isinstance(s.targets[0], ast.Name) and isinstance(s.value, ast.IfExp)
             and all(isinstance(b, ast.Constant) and isinstance(b.value, int) and not isinstance(b.value, bool) for b in (s.value.body, s.value.orelse))]
    if len(cases) != 1:
        return []
    st = cases[0]
    name = st.targets[0].id
    if sum(1 for x in ast.walk(fn) if isinstance(x, (ast.Assign, ast.AugAssign)) and any(isinstance(n, ast.Name) and n.id == name and isinstance(n.ctx, ast.Store) for n in ast.walk(x))) != 1:
        return []
    out = []
    for flag, const in ((ast.unparse(st.value.test), st.value.body), (f'not ({ast.unparse(st.value.test)})', st.value.orelse)):
        v = copy.deepcopy(fn)
        v.body = [x for x in v.body if not (isinstance(x, ast.Assign) and len(x.targets) == 1 and isinstance(x.targets[0], ast.Name) and x.targets[0].id == name)]

        class Sub(ast.NodeTransformer):
            def visit_Name(self, n):
                if n.id == name and isinstance(n.ctx, ast.Load):
                    return ast.copy_location(ast.Constant(value=const.value), n)
                return n
        v = ast.fix_missing_locations(Sub().visit(v))
        out.append((f'case {flag}: {name} = {const.value}', v))
    return out


def _compare_sig(R, w, key, fn, sig, exp):
    found_lines = sig.select(sw.TRACKED)
    found = [l.text() for l in found_lines] + _call_lines(sig) + ['RETURN ' + x for x in sw.return_exprs(fn, sig)]
    missing, extra = compare([_T(t) for t in found], exp['lines'], exp.get('alts'))
    construct = f'{key} :: normal-form signature'
    if missing or extra:
        bad = _recognised([l for l in found_lines if l.text() in extra])
        if bad:
            raise AnalysisError(f'{w}: unrecognised idiom in a tracked quantity: {bad[:3]} - cannot compare against the reference signature')
        R.bad(construct, w, expected=missing, found=extra)
        return
    # same multiset; now the data-dependency order
    alt_back = {}
    for e, al in (exp.get('alts') or {}).items():
        for a in al:
            alt_back[a] = e
    from ..sig import _canon_guard
    canon_alt = {_canon_guard(k): _canon_guard(v) for k, v in alt_back.items()}
    fseq = [canon_alt.get(_canon_guard(t), _canon_guard(t)) for t in found if not t.startswith(('RETURN', 'CALL'))]
    eseq = [_canon_guard(t) for t in exp['lines'] if not t.startswith(('RETURN', 'CALL'))]
    df, de = _deps(fseq), _deps(eseq)
    if df != de:
        R.bad(f'{key} :: data-dependency order', w, expected=sorted(de - df)[:4], found=sorted(df - de)[:4])
        return
    R.ok(construct, w, found=f'{len(found)} normal-form lines equal the reference; {len(de)} ordered dependencies equal')


def _call_lines(sig):
    """delegations that carry part of the algebra: super().<method>() and self.communicate_*() calls, with their guards"""
    from ..norm import guards_nnf
    out = []
    for canon, loops, guards, st, call in sig.N.calls:
        if canon.startswith('super().') and not canon.startswith('super().__init__') or canon.startswith('self.communicate_'):
            g = repr(guards_nnf(guards)) if guards else ''
            out.append(f'CALL {canon} | {", ".join(map(repr, loops))} | {g}')
    return out


class _T:
    def __init__(self, t):
        self.t = t

    def text(self):
        return self.t


def _impls(repo, families, method):
    """distinct (rel, class) that resolve `method` to distinct implementations"""
    seen, out = set(), []
    for rel, cn in families:
        ci = repo.cls(rel, cn)
        r = repo.resolve(ci, method)
        if r is None:
            continue
        owner, fn = r
        if id(fn) in seen:
            continue
        if owner.name == 'Sweeper':
            continue  # abstract
        seen.add(id(fn))
        out.append((rel, cn))
    return out


def _check_all(R, repo, families, method, spec):
    """every distinct implementation against its reference, plus: every implementation that HAS a reference still exists
    (a deleted override silently hands the family the formula of its base class)"""
    for rel, cn in _impls(repo, families, method):
        _check_sig(R, repo, rel, cn, method, spec)
    byname = {cn: rel for rel, cn in families}
    for key in sorted(spec):
        owner, meth = key.rsplit('.', 1)
        if meth != method or owner not in byname:
            continue
        ci = repo.cls(byname[owner], owner)
        if meth not in ci.methods:
            r = repo.resolve(ci, meth)
            inh = f'{r[0].name}.{meth}' if r else 'nothing'
            R.bad(f'{key} :: the implementation the reference signature describes is defined by {owner}', f'{byname[owner]}:{owner}', f'{owner} overrides {meth}() (its formula differs from the base class)', f'{owner} now inherits {inh}')


ALL_SPECD = sw.QD_SERIAL + sw.QD_MPI + sw.QD_DAE + sw.SECOND_ORDER + sw.RK


@rule('C02', 'C02.R1', 'integrate() returns dt*Q*F(U): normal-form signature of every implementation', floor=9)
def r1(ctx, R):
    spec = _spec()
    _check_all(R, ctx.repo, ALL_SPECD, 'integrate', spec)


@rule('C02', 'C02.R2', 'update_nodes(): known terms u0 + dt(Q-QD)F(U^k) + tau, forward substitution, solve factor, f re-evaluated from the new u', floor=13)
def r2(ctx, R):
    spec = _spec()
    _check_all(R, ctx.repo, ALL_SPECD, 'update_nodes', spec)


@rule('C02', 'C02.R4', 'compute_end_point(): copy of the last node | u0 + dt*sum(w_m f_m) (+tau) exactly as configured', floor=11)
def r4(ctx, R):
    spec = _spec()
    _check_all(R, ctx.repo, ALL_SPECD, 'compute_end_point', spec)


@rule('C02', 'C02.R5', 'zero padding of qmat coefficients and triangularity assertions', floor=6)
def r5(ctx, R):
    repo = ctx.repo
    rel = 'pySDC/core/sweeper.py'
    for name, slices, tri_k in (('get_Qdelta_implicit', ['QDmat[1:, 1:]'], 1), ('get_Qdelta_explicit', ['QDmat[1:, 1:]', 'QDmat[1:, 0]'], 0)):
        fn = repo.func(rel, 'Sweeper.' + name)
        w = f'{rel}:Sweeper.{name}'
        R.fn(w)
        N = Normalizer(fn, inline_scalars=False)
        # (a) the matrix is created as zeros of Qmat's shape
        zeros = [c for c in N.contribs if c.op == '=' and re.fullmatch(r'\w+', c.target) and c.rhs and re.match(r'np\.zeros(_like)?\(', c.rhs) and 'Qmat' in c.rhs]
        R.check(len(zeros) == 1, f'Sweeper.{name} :: QDmat starts as zeros of Qmat.shape', w, 'one np.zeros/zeros_like(..Qmat..) definition', [c.describe() for c in zeros])
        mat = zeros[0].target if zeros else 'QDmat'
        # (b) generated coefficients go to [1:,1:] (and the dTau column to [1:,0]); nothing else is stored into the matrix
        stores = sorted(c.target for c in N.contribs if c.target.startswith(mat + '['))
        want = sorted(s.replace('QDmat', mat) for s in slices)
        R.check(stores == want, f'Sweeper.{name} :: coefficient block placement', w, want, stores)
        src = [c.rhs for c in N.contribs if c.target.startswith(mat + '[')]
        R.check(all('genCoeffs' in (s or '') for s in src), f'Sweeper.{name} :: block filled from the generator', w, 'self.gen*.genCoeffs(..)', src)
        # (c) triangularity assertion dominates the return
        cfg = FuncCFG(fn)
        asserts = [n for n in cfg.stmt_of if any(ast.unparse(c.func) == 'np.testing.assert_array_equal' and f'np.triu({mat}, k={tri_k})' in ast.unparse(c) for c in cfg.calls_at(n))]
        rets = [n for n, s in cfg.stmt_of.items() if isinstance(s, ast.Return)]
        ok = bool(asserts) and bool(rets) and all(any(cfg.dominates(a, r) for a in asserts) for r in rets)
        R.check(ok, f'Sweeper.{name} :: assert_array_equal(np.triu(QDmat, k={tri_k}), 0) dominates return', w, 'assertion on every path to return', f'{len(asserts)} assertion(s), {len(rets)} return(s)')
        R.check(all(ast.unparse(cfg.stmt_of[r].value) == mat for r in rets), f'Sweeper.{name} :: returns the checked matrix', w, mat, [ast.unparse(cfg.stmt_of[r].value) for r in rets])
    # CollBase pads Q and S with a zero first row/column
    crel = 'pySDC/core/collocation.py'
    fn = repo.func(crel, 'CollBase.__init__')
    w = f'{crel}:CollBase.__init__'
    R.fn(w)
    N = Normalizer(fn, inline_scalars=False)
    for attr, src in (('Qmat', 'self.generator.Q'), ('Smat', '.S')):
        asg = [c for c in N.contribs if c.target == f'self.{attr}' and c.op == '=']
        var = asg[0].rhs if len(asg) == 1 else None
        if var is None or not re.fullmatch(r'[\w.]+', var):
            raise AnalysisError(f'{w}: cannot find the single definition of self.{attr}')
        z = [c for c in N.contribs if c.target == var and c.op == '=' and c.rhs and c.rhs.startswith('np.zeros(') and 'num_nodes + 1, num_nodes + 1' in c.rhs]
        blk = [(c.target, c.rhs) for c in N.contribs if c.target.startswith(var + '[')]
        ok = len(z) == 1 and len(blk) == 1 and blk[0][0] == f'{var}[1:, 1:]' and blk[0][1].endswith(src)
        R.check(ok, f'CollBase.__init__ :: {attr} zero-padded (M+1)x(M+1), generator coefficients in [1:,1:]', w, f'{var} = np.zeros([M+1, M+1]); {var}[1:, 1:] = <generator>{src}; self.{attr} = {var}', [c.describe() for c in z] + blk)


@rule('C02', 'C02.R6', 'k-dependent preconditioners are refreshed before every fine sweep and rebind the matrices the sweep reads', floor=4)
def r6(ctx, R):
    repo = ctx.repo
    for rel, cn in (('pySDC/implementations/controller_classes/controller_nonMPI.py', 'controller_nonMPI'), ('pySDC/implementations/controller_classes/controller_MPI.py', 'controller_MPI')):
        fn = repo.func(rel, f'{cn}.it_fine')
        w = f'{rel}:{cn}.it_fine'
        R.fn(w)
        cfg = FuncCFG(fn)
        upd = [n for n in cfg.stmt_of if any(isinstance(c.func, ast.Attribute) and c.func.attr == 'update_nodes' for c in cfg.calls_at(n))]
        var = [n for n in cfg.stmt_of if any(isinstance(c.func, ast.Attribute) and c.func.attr == 'updateVariableCoeffs' for c in cfg.calls_at(n))]
        if not upd:
            raise AnalysisError(f'{w}: no update_nodes() call found')
        for u in upd:
            st = cfg.stmt_of[u]
            loops = cfg.loops_of[id(st)]
            recv_u = ast.unparse([c for c in cfg.calls_at(u) if c.func.attr == 'update_nodes'][0].func.value)
            cands = []
            for v in var:
                call = [c for c in cfg.calls_at(v) if c.func.attr == 'updateVariableCoeffs'][0]
                same_recv = ast.unparse(call.func.value) == recv_u
                same_loop = cfg.loops_of[id(cfg.stmt_of[v])] == loops
                # between v and u no path around v within one loop iteration: v dominates u and they share all loops
                if same_recv and same_loop and cfg.dominates(v, u):
                    cands.append(call)
            ok = False
            found = 'no updateVariableCoeffs on the same sweeper dominating update_nodes in the sweep loop'
            for call in cands:
                arg = ast.unparse(call.args[0]) if call.args else ''
                sweep_loop = [l for l in loops if isinstance(l, ast.For) and isinstance(l.iter, ast.Call) and ast.unparse(l.iter.func) == 'range']
                if sweep_loop and isinstance(sweep_loop[0].target, ast.Name) and re.fullmatch(rf'{sweep_loop[0].target.id} \+ 1', arg):
                    ok, found = True, f'updateVariableCoeffs({arg}) dominates update_nodes() inside `for {sweep_loop[0].target.id} in {ast.unparse(sweep_loop[0].iter)}`'
                else:
                    found = f'updateVariableCoeffs({arg}): argument is not <sweep index>+1'
            R.check(ok, f'{cn}.it_fine :: updateVariableCoeffs(k+1) before update_nodes()', w, 'refresh with the 1-based sweep index on every path to the sweep', found)
    rel = 'pySDC/core/sweeper.py'
    fn = repo.func(rel, 'Sweeper.updateVariableCoeffs')
    w = f'{rel}:Sweeper.updateVariableCoeffs'
    R.fn(w)
    N = Normalizer(fn, inline_scalars=False)
    k = fn.args.args[1].arg if len(fn.args.args) > 1 else 'k'
    rebound = [ast.unparse(s_) for s_ in ast.walk(fn) if isinstance(s_, (ast.Assign, ast.AugAssign, ast.AnnAssign)) and any(isinstance(t, ast.Name) and t.id == k for t in (s_.targets if isinstance(s_, ast.Assign) else [s_.target]))]
    R.check(not rebound, f'Sweeper.updateVariableCoeffs :: the sweep index handed to the generators is the one the controller passed in (not clamped or shifted)', w, f'no assignment to {k}', rebound)
    for attr, getter, gen in (('QI', 'get_Qdelta_implicit', 'genQI'), ('QE', 'get_Qdelta_explicit', 'genQE')):
        cs = [c for c in N.contribs if c.target == f'self.{attr}' and c.call and c.call[0] == f'self.{getter}']
        ok = len(cs) == 1 and cs[0].call[2].get('k') == k and any(f'self.{gen}.isKDependent()' in g for g in cs[0].guards)
        # the rebuild happens for EVERY sweep index: no guard mentions k (a skipped index would keep the matrix of an earlier sweep or run)
        ok = ok and not any(re.search(rf'\b{re.escape(k)}\b', g) for g in cs[0].guards)
        R.check(ok, f'Sweeper.updateVariableCoeffs :: self.{attr} rebuilt with k when {gen} is k-dependent', w, f'self.{attr} = self.{getter}(.., k={k}) if self.{gen}.isKDependent()', [c.describe() for c in cs])


REFRESHED = ('QI', 'QE')
_CONTROL = """
class demo(Sweeper):
    def __init__(self, params, level):
        super().__init__(params, level)
        self.QI = self.get_Qdelta_implicit(qd_type=self.params.QI)
        self.QmQI = self.coll.Qmat - self.QI
        self.twice = 2 * self.QmQI
"""


def derived_from_refreshed(init_fns):
    """attributes assigned in __init__ from an expression that reads self.QI / self.QE (the matrices updateVariableCoeffs rebuilds),
    directly or through another such attribute: {attr: expression text}"""
    derived = {}
    changed = True
    while changed:
        changed = False
        for fn in init_fns:
            for s in ast.walk(fn):
                if not isinstance(s, ast.Assign):
                    continue
                reads = {x.attr for x in ast.walk(s.value) if isinstance(x, ast.Attribute) and isinstance(x.value, ast.Name) and x.value.id == 'self'}
                if not (reads & (set(REFRESHED) | set(derived))):
                    continue
                for t in s.targets:
                    for e in (t.elts if isinstance(t, (ast.Tuple, ast.List)) else [t]):
                        if isinstance(e, ast.Attribute) and isinstance(e.value, ast.Name) and e.value.id == 'self' and e.attr not in REFRESHED and e.attr not in derived:
                            derived[e.attr] = ast.unparse(s.value)
                            changed = True
    return derived


@rule('C02', 'C02.R6b', 'no stale copy of a refreshed matrix: an attribute built in __init__ from self.QI / self.QE is rebuilt by updateVariableCoeffs too (otherwise sweeps k >= 2 of a k-dependent preconditioner mix QD(k) with QD(1))', floor=30)
def r6b(ctx, R):
    repo = ctx.repo
    ctl = derived_from_refreshed([f for f in ast.walk(ast.parse(_CONTROL)) if isinstance(f, ast.FunctionDef)])
    R.check(sorted(ctl) == ['QmQI', 'twice'], 'positive control :: the analysis finds the cached splitting matrices of the embedded example', 'sa/rules/c02.py:_CONTROL', ['QmQI', 'twice'], sorted(ctl))
    base = repo.cls('pySDC/core/sweeper.py', 'Sweeper')
    for ci in repo.subclasses(base):
        if not (repo.is_library(ci) or 'projects/DAE/sweepers' in ci.module.relpath):
            continue
        inits = [c.methods['__init__'] for c in ci.mro if isinstance(c, ClassInfo) and '__init__' in c.methods]
        w = f'{ci.module.relpath}:{ci.name}.__init__'
        R.fn(w)
        d = derived_from_refreshed(inits)
        upd = repo.resolve(ci, 'updateVariableCoeffs')
        rebuilt = set()
        if upd is not None:
            for c in [x for x in ci.mro if isinstance(x, ClassInfo) and 'updateVariableCoeffs' in x.methods]:
                for s in ast.walk(c.methods['updateVariableCoeffs']):
                    if isinstance(s, ast.Assign):
                        for t in s.targets:
                            for e in (t.elts if isinstance(t, (ast.Tuple, ast.List)) else [t]):
                                if isinstance(e, ast.Attribute) and ast.unparse(e.value) == 'self':
                                    rebuilt.add(e.attr)
        # only attributes that some other method of the class actually reads matter
        read = set()
        for c in ci.mro:
            if isinstance(c, ClassInfo):
                for name, f in c.methods.items():
                    if name not in ('__init__',):
                        read |= {x.attr for x in ast.walk(f) if isinstance(x, ast.Attribute) and isinstance(x.ctx, ast.Load) and isinstance(x.value, ast.Name) and x.value.id == 'self'}
        stale = {k: v for k, v in d.items() if k not in rebuilt and k in read}
        R.check(not stale, f'{ci.name} :: every matrix attribute derived from self.QI / self.QE is rebuilt together with it', w, 'no attribute cached from self.QI / self.QE in __init__ (or: rebuilt in updateVariableCoeffs)', stale)


@rule('C02', 'C02.R7', 'node-parallel sweepers: reductions carry the same quadrature term as the serial sibling; dropped off-diagonals are asserted absent', floor=5)
def r7(ctx, R):
    repo = ctx.repo
    for rel, cn, comp in ((sw.SW + 'generic_implicit_MPI.py', 'generic_implicit_MPI', ''), (sw.SW + 'imex_1st_order_MPI.py', 'imex_1st_order_MPI', 'impl+expl')):
        ci = repo.cls(rel, cn)
        fsum = 'L.f[self.rank + 1]' if not comp else '(L.f[self.rank + 1].impl + L.f[self.rank + 1].expl)'
        # integrate: Reduce(dt*Qmat[m+1, rank+1]*F[rank+1], recvBuf, root=m, op=SUM) for every m
        owner, fn, sig = sw.method_sig(repo, ci, 'integrate')
        w = sw.where(owner, fn)
        R.fn(w)
        N = sig.N
        red = [c for c in N.calls if c[0].startswith('self.comm.Reduce(')]
        ok = False
        found = [c[0] for c in red]
        if len(red) == 1:
            call = red[0][4]
            # python loop variable of the node loop
            loopvar = red[0][1][-1].var if red[0][1] else None
            terms = N.terms(call.args[0])
            want_f = [('L.f[self.rank + 1]',)] if not comp else [('L.f[self.rank + 1].impl',), ('L.f[self.rank + 1].expl',)]
            want = sorted((1, tuple(sorted(('L.dt', f'self.coll.Qmat[{loopvar} + 1, self.rank + 1]') + f))) for f in want_f)
            kw = {k.arg: ast.unparse(k.value) for k in call.keywords}
            ok = sorted(terms) == want and kw.get('root') == loopvar and kw.get('op') == 'MPI.SUM'
            found = {'sent': terms, 'kw': kw, 'loop': repr(red[0][1][-1]) if red[0][1] else None}
        R.check(ok, f'{cn}.integrate :: Reduce(dt*Qmat[m+1, r+1]*F[r+1], root=m, SUM)', w, 'one Reduce per node m carrying row m of Q times this rank\'s F', found)
        # end point: Allreduce(dt*weights[r]*F[r+1]) then += u[0]
        owner, fn, sig = sw.method_sig(repo, ci, 'compute_end_point')
        w = sw.where(owner, fn)
        R.fn(w)
        N = sig.N
        ar = [c for c in N.calls if c[0].startswith('self.comm.Allreduce(')]
        ok, found = False, [c[0] for c in ar]
        if len(ar) == 1:
            call = ar[0][4]
            terms = N.terms(call.args[0])
            want_f = [('L.f[self.rank + 1]',)] if not comp else [('L.f[self.rank + 1].impl',), ('L.f[self.rank + 1].expl',)]
            want = sorted((1, tuple(sorted(('L.dt', 'self.coll.weights[self.rank]') + f))) for f in want_f)
            kw = {k.arg: ast.unparse(k.value) for k in call.keywords}
            ok = sorted(terms) == want and ast.unparse(call.args[1]) in ('L.uend', 'self.level.uend') and kw.get('op') == 'MPI.SUM'
            found = {'sent': terms, 'recv': ast.unparse(call.args[1]), 'kw': kw}
        R.check(ok, f'{cn}.compute_end_point :: Allreduce(dt*w[r]*F[r+1]) into uend', w, 'sum over ranks of dt*w*F', found)
    # imex_1st_order_MPI drops the explicit off-diagonal terms: legal only for QE == PIC, which it must assert
    rel = sw.SW + 'imex_1st_order_MPI.py'
    ci = repo.cls(rel, 'imex_1st_order_MPI')
    init = repo.resolve(ci, '__init__')[1]
    w = f'{rel}:imex_1st_order_MPI.__init__'
    R.fn(w)
    src = ast.unparse(init)
    guards = [ast.unparse(s) for s in ast.walk(init) if isinstance(s, (ast.Assert, ast.If)) and "'PIC'" in ast.unparse(s.test) and 'QE' in ast.unparse(s.test)]
    R.check(bool(guards), 'imex_1st_order_MPI.__init__ :: QE must be PIC (off-diagonal explicit terms are dropped)', w, "assert/raise on params.QE != 'PIC'", guards[:1] or 'no such guard')


@rule('C02', 'C02.R8', 'coverage: every library sweeper class resolves its sweep to a spec\'d implementation or a listed unspec\'d family', floor=40)
def r8(ctx, R):
    repo = ctx.repo
    base = sw.sweeper_base(repo)
    specd = {(rel, cn) for rel, cn in ALL_SPECD}
    unspecd = {(rel, cn) for rel, cn in sw.UNSPECD}
    for ci in repo.subclasses(base, strict=True):
        if not repo.is_library(ci):
            continue
        r = repo.resolve(ci, 'update_nodes')
        owner = r[0] if r else None
        w = f'{ci.module.relpath}:{ci.name}'
        key = (owner.module.relpath, owner.name) if owner else None
        if key in specd:
            R.ok(f'{ci.name} -> {owner.name}.update_nodes', w, found='spec\'d')
        elif key in unspecd or (owner and any(repo.is_subclass(owner, repo.cls(a, b)) for a, b in sw.UNSPECD)):
            R.exc(f'{ci.name} -> {owner.name}.update_nodes', w, 'family without a formula in the property statement (multistep / diagonalisation / Nystrom): only generic rules apply')
        elif owner is None or owner.name in ('Sweeper', 'SweeperMPI', 'SweeperDAEMPI'):
            R.exc(f'{ci.name} (abstract)', w, 'abstract base: update_nodes not implemented here')
        elif owner.module.relpath.startswith('pySDC/projects/DAE/'):
            R.exc(f'{ci.name} -> {owner.name}.update_nodes', w, 'DAE project sweeper outside the anchored pair (RK-DAE / MPI-DAE): signature not spec\'d')
        else:
            R.note(f'{ci.name} -> {owner.name}.update_nodes', w, 'sweep implementation without a reference signature: NOT covered by C02.R1-R4')


@rule('C02', 'C02.R9', 'derived coefficient matrices of the second-order sweepers (QT, Qx, QQ, qQ, S-matrices) are defined as the formulas say', floor=4)
def r9(ctx, R):
    with open(os.path.join(os.path.dirname(SPEC), 'second_order_matrices.json')) as fh:
        spec = json.load(fh)['signatures']
    from ..sig import Signature
    repo = ctx.repo
    for rel, cn in sw.SECOND_ORDER:
        ci = repo.cls(rel, cn)
        for m in ('__init__', '__get_Qd'):
            fn = ci.methods.get(m)
            if fn is None:
                raise AnalysisError(f'{rel}:{cn}.{m} vanished')
            w = f'{rel}:{cn}.{m}'
            R.fn(w)
            sig = Signature(fn, rename={})
            lines = [l.text() for l in sig.lines if re.match(r'^(self\.(QT|Qx|QQ|qQ|S|ST|SQ|Sx|QI|Q)\b|QI|QE|QT|Qx|QQ|S|ST|SQ|Sx|Q)\b', l.target)]
            rets = ['RETURN ' + sig.N.canon(s.value) for s in ast.walk(fn) if isinstance(s, ast.Return) and s.value is not None]
            found = lines + rets
            exp = spec[f'{cn}.{m}']['lines']
            missing = [e for e in exp if e not in found]
            extra = [f for f in found if f not in exp]
            R.check(not missing and not extra, f'{cn}.{m} :: definitions of the derived matrices', w, missing[:4], extra[:4])


@rule('C02', 'C02.R10', 'every right-hand-side evaluation of a collocation sweeper pairs node value m with the time of node m: eval_f(u[m], t + dt*nodes[m-1]) (u[0] with t); covers the sweepers without a reference signature too', floor=15)
def r10(ctx, R):
    import sympy
    repo = ctx.repo
    base = repo.cls('pySDC/core/sweeper.py', 'Sweeper')
    rk = repo.cls('pySDC/implementations/sweeper_classes/Runge_Kutta.py', 'RungeKutta')
    rkn = repo.classes.get('pySDC.implementations.sweeper_classes.Runge_Kutta_Nystrom.RungeKuttaNystrom')
    seen = set()
    rx = re.compile(r'eval_f\((.*?), (L\.time[^)]*?)\)( |$|,)')
    for ci in repo.subclasses(base):
        if not (repo.is_library(ci) or 'projects/DAE/sweepers' in ci.module.relpath):
            continue
        tableau = repo.is_subclass(ci, rk) or (rkn is not None and repo.is_subclass(ci, rkn))
        for name, fn in ci.methods.items():
            if id(fn) in seen or 'eval_f' not in ast.unparse(fn):
                continue
            seen.add(id(fn))
            w = f'{ci.module.relpath}:{ci.name}.{name}'
            try:
                N = Normalizer(fn)
            except AnalysisError as e:
                raise AnalysisError(f'{w}: {e}')
            for c in N.contribs:
                d = c.describe()
                for m in rx.finditer(d):
                    arg, t = m.group(1), m.group(2)
                    mu = re.match(r'L\.u\[(.+?)\]', arg)
                    if not mu:
                        R.exc(f'{ci.name}.{name} :: eval_f({arg[:30]}, {t})', w, 'argument is not a node slot (stage value / temporary): outside this rule')
                        continue
                    R.fn(w)
                    k = mu.group(1)
                    mt = re.fullmatch(r'L\.time \+ L\.dt \* self\.coll\.nodes\[(.+)\]', t)
                    if k == '0':
                        R.check(t == 'L.time', f'{ci.name}.{name} :: f(u[0]) is evaluated at the start time', w, 'eval_f(L.u[0], L.time)', f'eval_f({arg}, {t})')
                        continue
                    if mt is None:
                        R.exc(f'{ci.name}.{name} :: eval_f({arg}, {t})', w, 'time is not a collocation node time (single-step end point): outside this rule')
                        continue
                    sub = lambda s_: s_.replace('self.rank', 'rank').replace('self.coll.num_nodes', 'M')
                    try:
                        diff = sympy.simplify(sympy.sympify(sub(k)) - sympy.sympify(sub(mt.group(1))))
                    except Exception:
                        raise AnalysisError(f'{w}: cannot compare indices {k!r} and {mt.group(1)!r}')
                    want = 0 if tableau else 1
                    if tableau:
                        # tableau sweepers are outside the formula families of C02 (their stage equations are decided by C04.R1); an
                        # inconsistent stage time is reported as a NOTE (observation O1 in DESIGN.md §11.3), never as a C02 violation
                        if diff != want:
                            R.note(f'{ci.name}.{name} :: eval_f(u[{k}], t + dt*nodes[{mt.group(1)}])', w, f'the tableau nodes carry a leading 0, so stage {k} lives at nodes[{k}] (repro/O1_rkn_stage_time.py); invisible for autonomous problems; observation O1, outside the inputs of C02/C04')
                        else:
                            R.ok(f'{ci.name}.{name} :: eval_f(u[{k}], ..) uses the time of that stage', w, found=f'nodes[{mt.group(1)}]')
                        continue
                    R.check(diff == want, f'{ci.name}.{name} :: eval_f(u[{k}], ..) uses the time of that node', w, f'nodes[{k} - 1]' if not tableau else f'nodes[{k}] (tableau nodes carry a leading 0)', f'nodes[{mt.group(1)}]')


@rule('C02', 'C02.R11', 'the sweep uses the preconditioner that was NAMED: the generator cached on the sweeper is reused only when the requested name is one of the aliases of exactly that generator class (generator classes inherit from each other, so an isinstance test would hand out the subclass matrix; shared with C20.R9)', floor=2)
def r11(ctx, R):
    from . import c20
    c20.qdelta_cache(ctx, R)


@rule('C02', 'C02.R12', 'a sweeper that is initialised AGAIN (adaptive collocation re-runs __init__ with new parameters) forgets the preconditioner generators of its previous collocation: the cached genQI / genQE are deleted whenever they exist, under no further condition', floor=2)
def r12(ctx, R):
    from ..cfg import FuncCFG
    repo = ctx.repo
    rel = 'pySDC/core/sweeper.py'
    fn = repo.func(rel, 'Sweeper.__init__')
    w = f'{rel}:Sweeper.__init__'
    R.fn(w)
    cfg = FuncCFG(fn)
    dels = []
    for n, s in cfg.stmt_of.items():
        if isinstance(s, ast.Expr) and isinstance(s.value, ast.Call) and ast.unparse(s.value.func) == 'delattr' and len(s.value.args) == 2 and ast.unparse(s.value.args[0]) == 'self':
            loops = [ast.unparse(l.iter) for l in cfg.loops_of[id(s)] if isinstance(l, ast.For)]
            names = set()
            for l in cfg.loops_of[id(s)]:
                if isinstance(l, ast.For) and isinstance(l.iter, (ast.List, ast.Tuple)):
                    names |= {e.value for e in l.iter.elts if isinstance(e, ast.Constant)}
            if isinstance(s.value.args[1], ast.Constant):
                names.add(s.value.args[1].value)
            guards = [(ast.unparse(t), pol) for t, pol in cfg.guards.get(id(s), ())]
            dels.append((names, guards))
        if isinstance(s, ast.Delete):
            for t in s.targets:
                if isinstance(t, ast.Attribute) and ast.unparse(t.value) == 'self':
                    dels.append(({t.attr}, [(ast.unparse(g), pol) for g, pol in cfg.guards.get(id(s), ())]))
    for gen in ('genQI', 'genQE'):
        mine = [(nm, g) for nm, g in dels if gen in nm]
        ok = len(mine) == 1 and all(pol and re.fullmatch(r"hasattr\(self, (name|'%s'|\"%s\")\)" % (gen, gen), t) for t, pol in mine[0][1]) and len(mine[0][1]) <= 1
        R.check(ok, f'Sweeper.__init__ :: self.{gen} of an earlier initialisation is deleted whenever it exists', w, 'if hasattr(self, name): delattr(self, name)  (no further condition)', [g for _, g in mine])


@rule('C02', 'C02.R13', 'the end point of a Runge-Kutta sweep is the configured one: the stiffly-accurate test of an EMBEDDED tableau looks at the primary row of weights (override obligations of ButcherTableauEmbedded, shared with C04.R8)', floor=1)
def r13(ctx, R):
    from . import c04
    c04.r8(ctx, R)


@rule('C02', 'C02.R14', 'nothing a sweep uses is frozen at its first value: a sweeper (or the core Sweeper / Level / Step) that computes something once and keeps it does not build it from quantities that change between steps (level dt / time / status, node values) - dt*Q cached on first use keeps the step size of the first step', floor=2)
def r14(ctx, R):
    from .. import memo
    memo.check(ctx, R, lambda m: m.relpath.startswith(('pySDC/implementations/sweeper_classes/', 'pySDC/projects/DAE/sweepers/')) or m.relpath in ('pySDC/core/sweeper.py', 'pySDC/core/level.py', 'pySDC/core/step.py'), 'sweeper classes + core sweeper / level / step')


@rule('C02', 'C02.R15', 'outside the sweepers too, whoever fills f[i] pairs node i with ITS time: every store `X.f[i] = eval_f(X.u[i], T)` in core, controllers, convergence controllers and transfer classes uses T = X.time for i = 0 and a time that depends on the node for every other i (a sweep that starts from f values of the wrong time is not the Picard iteration of the stored node values)', floor=12)
def r15(ctx, R):
    repo = ctx.repo
    n = 0
    for m, ci, fn in repo.all_functions():
        if 'sweeper_classes' in m.relpath or 'problem_classes' in m.relpath or 'projects/' in m.relpath:
            continue
        for s in ast.walk(fn):
            if not (isinstance(s, ast.Assign) and len(s.targets) == 1 and isinstance(s.targets[0], ast.Subscript) and isinstance(s.targets[0].value, ast.Attribute) and s.targets[0].value.attr == 'f'):
                continue
            v = s.value
            if not (isinstance(v, ast.Call) and isinstance(v.func, ast.Attribute) and v.func.attr == 'eval_f' and len(v.args) == 2):
                continue
            n += 1
            w = f'{m.relpath}:{(ci.name + ".") if ci else ""}{fn.name}'
            R.fn(w)
            idx = ast.unparse(s.targets[0].slice)
            owner = ast.unparse(s.targets[0].value.value)
            uarg, targ = ast.unparse(v.args[0]), v.args[1]
            ttxt = ast.unparse(targ)
            same_slot = uarg == f'{owner}.u[{idx}]'
            if idx == '0':
                ok = same_slot and ttxt == f'{owner}.time'
                want = f'eval_f({owner}.u[0], {owner}.time)'
            else:
                # the time must depend on the node: it mentions the index expression (or a local defined from it) and the nodes / dt
                names = {x.id for x in ast.walk(targ) if isinstance(x, ast.Name)}
                idx_names = {x.id for x in ast.walk(s.targets[0].slice) if isinstance(x, ast.Name)} | {ast.unparse(x) for x in ast.walk(s.targets[0].slice) if isinstance(x, ast.Attribute)}
                dep = bool(idx_names & names) or any(re.search(rf'(?<![\w.]){re.escape(a)}(?![\w])', ttxt) for a in idx_names)
                if not dep:
                    # one renaming: t_i = .. if i == 0 else .. nodes[i - 1]
                    for a in ast.walk(fn):
                        if isinstance(a, ast.Assign) and len(a.targets) == 1 and isinstance(a.targets[0], ast.Name) and a.targets[0].id in names:
                            src = ast.unparse(a.value)
                            if 'nodes' in src and any(re.search(rf'\b{re.escape(i_)}\b', src) for i_ in idx_names):
                                dep = True
                ok = same_slot and dep and (('nodes' in ttxt) or dep)
                want = f'eval_f({owner}.u[{idx}], {owner}.time + {owner}.dt * nodes[{idx} - 1])'
            R.check(ok, f'{fn.name} :: f[{idx}] is evaluated from u[{idx}] at the time of node {idx}', w, want, ast.unparse(s)[:110])
    if n < 12:
        raise AnalysisError(f'C02.R15: only {n} stores of eval_f results into f[..] found outside the sweepers')


@rule('C02', 'C02.R16', 'every preconditioner matrix is built from the parameter of the SAME name: X = get_Qdelta_implicit(params.X) for X in QI / Q1 / Q2, X = get_Qdelta_explicit(params.X) for QE - in every sweeper constructor (a sweep with QI built from the QE name is the Picard iteration of another preconditioner)', floor=12)
def r16(ctx, R):
    repo = ctx.repo
    n = 0
    for m, ci, fn in repo.all_functions():
        if ci is None or not (m.relpath.startswith('pySDC/implementations/sweeper_classes/') or 'projects/DAE/sweepers' in m.relpath):
            continue
        for s in ast.walk(fn):
            if not (isinstance(s, ast.Assign) and len(s.targets) == 1 and isinstance(s.value, ast.Call) and isinstance(s.value.func, ast.Attribute) and s.value.func.attr in ('get_Qdelta_implicit', 'get_Qdelta_explicit')):
                continue
            t = s.targets[0]
            name = t.attr if isinstance(t, ast.Attribute) else t.id if isinstance(t, ast.Name) else None
            arg = s.value.args[0] if s.value.args else next((k.value for k in s.value.keywords if k.arg == 'qd_type'), None)
            if name is None or arg is None:
                continue
            n += 1
            w = f'{m.relpath}:{ci.name}.{fn.name}'
            R.fn(w)
            kind = 'implicit' if s.value.func.attr.endswith('implicit') else 'explicit'
            ok = ast.unparse(arg) == f'self.params.{name}' and ((kind == 'explicit') == (name == 'QE'))
            R.check(ok, f'{ci.name}.{fn.name} :: {name} = get_Qdelta_{kind}(self.params.{name})', w, f'{name} from self.params.{name} through the {"explicit" if name == "QE" else "implicit"} builder', ast.unparse(s)[:100])
    if n < 12:
        raise AnalysisError(f'C02.R16: only {n} preconditioner constructions found')


@rule('C02', 'C02.R17', 'the k-dependent preconditioner coefficients are refreshed on the level that is swept: one level per sweep loop in the controllers (shared with C03.R14)', floor=6)
def r17(ctx, R):
    from . import c03
    c03.r14(ctx, R)


@rule('C02', 'C02.R18', "the library's own matrix form of the IMEX sweep is the iteration of the statement: get_scalar_problems_sweeper_mats returns LHS = I - dt*(lf*QI + ls*QE) and RHS = dt*((lf + ls)*Q - (lf*QI + ls*QE)) - compared symbolically after substituting single-assigned locals (test_imexsweeper and every project script use dt = 1, where a lost factor dt is invisible)", floor=2)
def r18(ctx, R):
    import sympy as sp
    from .c12 import _newton_sym, _Unk
    repo = ctx.repo
    rel = 'pySDC/implementations/sweeper_classes/imex_1st_order.py'
    fn = repo.func(rel, 'imex_1st_order.get_scalar_problems_sweeper_mats')
    w = f'{rel}:imex_1st_order.get_scalar_problems_sweeper_mats'
    R.fn(w)
    keep = {'QI', 'QE', 'Q', 'dt', 'lambda_fast', 'lambda_slow', 'LHS', 'RHS'}
    counts, vals = {}, {}
    for s in ast.walk(fn):
        if isinstance(s, ast.Assign) and len(s.targets) == 1 and isinstance(s.targets[0], ast.Name):
            counts[s.targets[0].id] = counts.get(s.targets[0].id, 0) + 1
            vals[s.targets[0].id] = s.value
    if counts.get('LHS') != 1 or counts.get('RHS') != 1:
        raise AnalysisError('get_scalar_problems_sweeper_mats: LHS / RHS are no longer single assignments - re-confirm C02.R18')
    ret = [ast.unparse(r.value) for r in ast.walk(fn) if isinstance(r, ast.Return) and r.value is not None]
    local = {k: v for k, v in vals.items() if counts[k] == 1 and k not in keep}
    QI, QE, Q, dt, lf, ls = sp.symbols('QI QE Q dt lambda_fast lambda_slow')
    want = {'LHS': 1 - dt * (lf * QI + ls * QE), 'RHS': dt * ((lf + ls) * Q - (lf * QI + ls * QE))}
    for name in ('LHS', 'RHS'):
        try:
            got = _newton_sym(vals[name], '__no_iterate__', local)
        except (_Unk, RecursionError) as e:
            raise AnalysisError(f'get_scalar_problems_sweeper_mats: {name} is outside the vocabulary of C02.R18 ({e})')
        d = sp.simplify(sp.expand(got - want[name]))
        R.check(d == 0, f'imex_1st_order.get_scalar_problems_sweeper_mats :: {name}', w, str(want[name]), f'{name} - expected = {str(d)[:120]}' if d != 0 else 'equal')
    R.check(ret == ['(LHS, RHS)'], 'imex_1st_order.get_scalar_problems_sweeper_mats :: returns (LHS, RHS)', w, 'return LHS, RHS', ret)


class _DimUnk(Exception):
    pass


def _dim(n):
    """physical dimension of an expression of the second-order sweepers as a sympy monomial in X (length) and T (time):
    dt -> T, *.pos -> X, *.vel -> X/T, right-hand sides (f, L.f[..], get_full_f(..), build_f(..)) -> X/T**2, matrix entries / nodes / weights / numbers -> 1"""
    import sympy as sp
    X, T = sp.Symbol('X', positive=True), sp.Symbol('T', positive=True)
    if isinstance(n, ast.Constant) and isinstance(n.value, (int, float)):
        return sp.nsimplify(n.value) if n.value != 0 else sp.Integer(0)
    if isinstance(n, ast.Attribute):
        if n.attr == 'dt':
            return T
        if n.attr == 'pos':
            return X
        if n.attr == 'vel':
            return X / T
        raise _DimUnk(ast.unparse(n))
    if isinstance(n, ast.Name):
        if n.id == 'f':
            return X / T**2
        raise _DimUnk(n.id)
    if isinstance(n, ast.Subscript):
        base = ast.unparse(n.value)
        if base in ('L.f',):
            return X / T**2
        if base.startswith('self.') and not base.endswith(('.u', '.f')):
            return sp.Integer(1)  # an entry of a quadrature matrix, a node, a weight, a node distance
        raise _DimUnk(base)
    if isinstance(n, ast.Call):
        f = ast.unparse(n.func)
        if f.split('.')[-1] in ('get_full_f', 'build_f', 'eval_f'):
            return X / T**2
        raise _DimUnk(f)
    if isinstance(n, ast.UnaryOp) and isinstance(n.op, ast.USub):
        return -_dim(n.operand)
    if isinstance(n, ast.BinOp):
        if isinstance(n.op, ast.Pow):
            if isinstance(n.right, ast.Constant) and isinstance(n.right.value, int):
                return _dim(n.left) ** n.right.value
            raise _DimUnk(ast.unparse(n))
        a, b = _dim(n.left), _dim(n.right)
        if isinstance(n.op, ast.Add):
            return a + b
        if isinstance(n.op, ast.Sub):
            return a - b
        if isinstance(n.op, ast.Mult):
            return a * b
        if isinstance(n.op, ast.Div):
            return a / b
    raise _DimUnk(ast.unparse(n)[:40])


def dimension_defects(stmt):
    """for `target.pos/.vel (+=|-=|=) expr`: the additive terms of expr whose dimension is not that of the target"""
    import sympy as sp
    X, T = sp.Symbol('X', positive=True), sp.Symbol('T', positive=True)
    tgt = stmt.target if isinstance(stmt, ast.AugAssign) else stmt.targets[0]
    unit = X if tgt.attr == 'pos' else X / T
    e = sp.expand(_dim(stmt.value))
    bad = []
    for term in sp.Add.make_args(e):
        if term == 0:
            continue
        q = sp.simplify(term / unit)
        if q.free_symbols:
            bad.append(str(sp.simplify(term / (term.as_coeff_Mul()[0] if term.as_coeff_Mul()[0] != 0 else 1))))
    return bad


_R19_CONTROL = 'rhs.vel += L.dt ** 2 * self.QI[m + 1, j] * self.get_full_f(f)'


@rule('C02', 'C02.R19', 'second-order (position / velocity) forms are dimensionally consistent: in verlet, boris_2nd_order and RungeKuttaNystrom every term accumulated into a `.pos` is dt^2 * matrix * force or dt * matrix * velocity (or a position), every term accumulated into a `.vel` is dt * matrix * force (or a velocity) - dimensional analysis of each statement with dt -> T, pos -> X, vel -> X/T, right-hand sides -> X/T^2, matrix entries dimensionless; a swapped component or a lost / doubled factor dt is a unit error', floor=18)
def r19(ctx, R):
    repo = ctx.repo
    ctl = ast.parse(_R19_CONTROL).body[0]
    if not dimension_defects(ctl):
        raise AnalysisError('C02.R19: the embedded control (velocity accumulating dt^2 * force) is not recognised')
    SW = 'pySDC/implementations/sweeper_classes/'
    n = 0
    for rel, cn in ((SW + 'verlet.py', 'verlet'), (SW + 'boris_2nd_order.py', 'boris_2nd_order'), (SW + 'Runge_Kutta_Nystrom.py', 'RungeKuttaNystrom')):
        ci = repo.cls(rel, cn)
        for m, fn in ci.methods.items():
            k = 0
            for s in ast.walk(fn):
                tgt = s.target if isinstance(s, ast.AugAssign) else s.targets[0] if isinstance(s, ast.Assign) and len(s.targets) == 1 else None
                if not (isinstance(tgt, ast.Attribute) and tgt.attr in ('pos', 'vel')):
                    continue
                if isinstance(s, ast.AugAssign) and not isinstance(s.op, (ast.Add, ast.Sub)):
                    continue
                k += 1
                w = f'{rel}:{cn}.{m}'
                c = f'{cn}.{m} :: `{ast.unparse(tgt)}` statement #{k} is dimensionally consistent'
                try:
                    bad = dimension_defects(s)
                except _DimUnk as e:
                    R.note(c, w, f'not decided: `{e}` has no dimension in the table')
                    continue
                R.fn(w)
                n += 1
                R.check(not bad, c, w, 'length for .pos, length / time for .vel in every term', {'statement': ast.unparse(s)[:110], 'terms of another dimension': bad})
    if n < 18:
        raise AnalysisError(f'C02.R19: only {n} position / velocity statements decided')


_COMP_ATTRS = ('impl', 'expl', 'comp1', 'comp2', 'comp3', 'diff', 'alg', 'exp')


def _strip_comp(n):
    while isinstance(n, ast.Attribute) and n.attr in _COMP_ATTRS:
        n = n.value
    return n


def _dim1(n):
    """dimension of a first-order sweeper expression as a monomial in U (solution) and T (time): dt -> T, u / tau / integral / residual
    entries -> U, f entries and eval_f(..) -> U/T, entries of matrices, nodes, weights and numbers -> 1; solve_system(rhs, factor, ..)
    has the dimension of rhs and REQUIRES a factor of dimension T"""
    import sympy as sp
    U, T = sp.Symbol('U', positive=True), sp.Symbol('T', positive=True)
    if isinstance(n, ast.Constant) and isinstance(n.value, (int, float)) and not isinstance(n.value, bool):
        return sp.nsimplify(n.value) if n.value != 0 else sp.Integer(0)
    if isinstance(n, (ast.Attribute, ast.Name, ast.Subscript)):
        base = _strip_comp(n)
        b = ast.unparse(base)
        if b in ('L.dt', 'self.level.dt', 'lvl.dt'):
            return T
        if b in ('L.uend', 'lvl.uend'):
            return U
        if isinstance(base, ast.Subscript):
            v = ast.unparse(base.value)
            if v in ('L.f', 'lvl.f', 'self.level.f', 'L.fold', 'lvl.fold'):
                return U / T
            if v in ('L.u', 'lvl.u', 'self.level.u', 'L.tau', 'lvl.tau', 'L.uold', 'lvl.uold', 'integral', 'me', 'res', 'p', 'rhs'):
                return U
            if v.startswith('self.') and not v.startswith('self.level'):
                return sp.Integer(1)
        if isinstance(base, ast.Name) and _DIM_CTX['fn'] is not None and base.id not in _DIM_CTX['stack']:
            # a local: the dimension of the value of its first plain assignment in the function
            defs = sorted((a for a in ast.walk(_DIM_CTX['fn']) if isinstance(a, ast.Assign) and len(a.targets) == 1 and isinstance(a.targets[0], ast.Name) and a.targets[0].id == base.id), key=lambda a: a.lineno)
            if defs:
                _DIM_CTX['stack'].add(base.id)
                try:
                    return _dim1(defs[0].value)
                finally:
                    _DIM_CTX['stack'].discard(base.id)
        raise _DimUnk(ast.unparse(n)[:40])
    if isinstance(n, ast.Call):
        f = ast.unparse(n.func).split('.')[-1]
        if f in ('eval_f', 'get_full_f'):
            return U / T
        if f in ('apply_mass_matrix', 'dtype_u', 'dtype_f') and len(n.args) == 1 and not n.keywords:
            return _dim1(n.args[0])
        if f.startswith('solve_system') and len(n.args) >= 2:
            d = _dim1(n.args[1])
            if sp.simplify(d / T).free_symbols:
                raise _DimBad(f'the factor handed to {f} has dimension {d}, not time')
            return _dim1(n.args[0])
        raise _DimUnk(ast.unparse(n)[:40])
    if isinstance(n, ast.UnaryOp) and isinstance(n.op, ast.USub):
        return -_dim1(n.operand)
    if isinstance(n, ast.BinOp):
        if isinstance(n.op, ast.Pow) and isinstance(n.right, ast.Constant) and isinstance(n.right.value, int):
            return _dim1(n.left) ** n.right.value
        a, b = _dim1(n.left), _dim1(n.right)
        if isinstance(n.op, ast.Add):
            return a + b
        if isinstance(n.op, ast.Sub):
            return a - b
        if isinstance(n.op, ast.Mult):
            return a * b
        if isinstance(n.op, ast.Div):
            return a / b
    raise _DimUnk(ast.unparse(n)[:40])


class _DimBad(Exception):
    pass


_DIM_CTX = {'fn': None, 'stack': set()}


def first_order_dimension_defects(stmt):
    """additive terms of `target (+=|-=|=) value` whose dimension differs from that of the target; [] when consistent"""
    import sympy as sp
    tgt = stmt.target if isinstance(stmt, ast.AugAssign) else stmt.targets[0]
    td = _dim1(tgt)
    try:
        e = sp.expand(_dim1(stmt.value))
    except _DimBad as e:
        return [str(e)]
    return [str(x) for x in sp.Add.make_args(e) if x != 0 and sp.simplify(x / td).free_symbols]


@rule('C02', 'C02.R20', 'every sweeper is dimensionally consistent: with dt -> T, node values / tau / integrals / residuals -> U, right-hand sides -> U/T and quadrature entries dimensionless, every term accumulated into a node value, an integral, a residual or the end value has dimension U, and the factor handed to solve_system* is a time (u - factor*f = rhs) - all sweepers of the library AND the projects; a lost or doubled dt, an f added without its weight*dt, a matrix entry used as factor without dt are unit errors', floor=85)
def r20(ctx, R):
    from ..model import Repo
    ctl = ast.parse('L.u[m + 1] += self.QI[m + 1, j] * L.f[j]').body[0]
    ctl2 = ast.parse('L.u[m + 1] = P.solve_system(rhs, self.QI[m + 1, m + 1], L.u[m + 1], t)').body[0]
    if not first_order_dimension_defects(ctl) or not first_order_dimension_defects(ctl2):
        raise AnalysisError('C02.R20: the embedded controls (f without dt; dimensionless solver factor) are not recognised')
    big = ctx.memo('repo_with_projects', lambda: Repo(ctx.repo.root, extra_dirs=('pySDC/projects',)))
    base = big.cls('pySDC/core/sweeper.py', 'Sweeper')
    n = 0
    second_order = {'verlet', 'boris_2nd_order', 'RungeKuttaNystrom'}
    for ci in [base] + list(big.subclasses(base)):
        if ci.name in second_order or any(getattr(k, 'name', None) in second_order for k in ci.mro):
            continue  # position / velocity forms have their own table (C02.R19)
        if ci.module.relpath.startswith('pySDC/projects/DAE/'):
            continue  # the DAE sweepers iterate on the DERIVATIVE (their unknown is u', solve_system has another signature): another dimension table, not decided
        for m, fn in ci.methods.items():
            if m not in ('update_nodes', 'integrate', 'compute_end_point', 'compute_residual', 'predict'):
                continue
            k = 0
            _DIM_CTX['fn'], _DIM_CTX['stack'] = fn, set()
            for s in ast.walk(fn):
                if isinstance(s, ast.AugAssign) and isinstance(s.op, (ast.Add, ast.Sub)):
                    tgt = s.target
                elif isinstance(s, ast.Assign) and len(s.targets) == 1 and isinstance(s.value, ast.Call) and ast.unparse(s.value.func).split('.')[-1].startswith('solve_system'):
                    tgt = s.targets[0]
                else:
                    continue
                try:
                    _dim1(tgt)
                except (_DimUnk, _DimBad):
                    continue
                k += 1
                w = f'{ci.module.relpath}:{ci.name}.{m}'
                c = f'{ci.name}.{m} :: `{ast.unparse(tgt)}` statement #{k} is dimensionally consistent'
                try:
                    bad = first_order_dimension_defects(s)
                except _DimUnk as e:
                    R.note(c, w, f'not decided: `{e}` has no dimension in the table')
                    continue
                R.fn(w)
                n += 1
                R.check(not bad, c, w, 'dimension U in every term; a time as solver factor', {'statement': ast.unparse(s)[:120], 'defects': bad})
    _DIM_CTX['fn'] = None
    if n < 85:
        raise AnalysisError(f'C02.R20: only {n} statements decided')
