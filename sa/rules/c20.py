"""C20 - descriptions are interpreted consistently and invalid setups are rejected (structural clauses)."""

import ast
import re

from ..cfg import FuncCFG, walk_no_nested, ENTRY, EXIT
from ..model import AnalysisError, ClassInfo, qual
from ..norm import Normalizer, nnf
from ..runner import rule
from .. import controllers as ct
from .. import facts
from .. import setups

STEP = 'pySDC/core/step.py'
CTRL = 'pySDC/core/controller.py'
CCORE = 'pySDC/core/convergence_controller.py'
HELP = 'pySDC/helpers/pysdc_helper.py'

# dispatch chains without a rejecting else that are outside C20's configuration names (one reason each)
DISPATCH_EXC = {
    ('SpectralHelper.get_fft', 'direction'): 'internal helper argument (forward/backward/object), not a description entry; unknown values fall through to a KeyError at the cache lookup',
    ('Quench.u_exact', 'self.reference_sol_type'): 'reference-solution selector of one problem class, checked by its own tests; not a description name of the framework',
}
CONFIG_SUBJECTS = re.compile(r'(initial_guess|residual_type|predict_type|flavor|sweeper_type|stencil_type|solver_type|bc|algo|quad_type|node_type|embedded_error_flavor)')


@rule('C20', 'C20.R1', 'exhaustive name dispatch: every if/elif chain over configuration names ends in an else that raises (or delegates to super())', floor=38)
def r1(ctx, R):
    repo = ctx.repo
    for m, ci, fn in repo.all_functions():
        for ch in facts.dispatch_chains(fn):
            name = (ci.name + '.' if ci else '') + fn.name
            w = qual(m, ci, fn)
            c = f'{name} :: dispatch on {ch["subject"]} over {sorted(map(str, ch["names"]))}'
            if ch['else_kind'] in ('raise', 'super'):
                R.ok(c, w, found=f'else -> {ch["else_kind"]}')
                continue
            if ch['else_kind'] == 'other-test':
                # the chain continues with a test of another shape: the final else of the whole If must still reject
                node = ch['arms'][-1][0]
                tail = node.orelse
                while len(tail) == 1 and isinstance(tail[0], ast.If):
                    tail = tail[0].orelse
                ok = bool(tail) and any(isinstance(x, ast.Raise) for s in tail for x in walk_no_nested(s))
                R.check(ok, c, w, 'the final else of the chain raises', 'no rejecting else' if not ok else 'raise')
                continue
            key = (name, ch['subject'])
            if key in DISPATCH_EXC:
                R.exc(c, w, DISPATCH_EXC[key])
            else:
                R.bad(c, w, 'an else branch that raises for unknown names', f'else: {ch["else_kind"]}')
    # name lookups through registries are rejecting when wrapped / KeyError propagates
    fn = repo.func('pySDC/core/collocation.py', 'CollBase.__init__')
    tr = [s for s in walk_no_nested(fn) if isinstance(s, ast.Try)]
    ok = len(tr) == 1 and 'Q_GENERATORS' in ast.unparse(tr[0].body[0]) and any('CollocationError' in ast.unparse(h) for h in tr[0].handlers)
    R.check(ok, 'CollBase.__init__ :: unknown node/quadrature type -> CollocationError', 'pySDC/core/collocation.py:CollBase.__init__', 'try: Q_GENERATORS[..](..) except: raise CollocationError', 'ok' if ok else 'missing')
    fn = repo.func('pySDC/core/sweeper.py', 'Sweeper.buildGenerator')
    R.check('QDELTA_GENERATORS[qdType]' in ast.unparse(fn), 'Sweeper.buildGenerator :: unknown preconditioner name -> KeyError from the registry lookup', 'pySDC/core/sweeper.py:Sweeper.buildGenerator', 'QDELTA_GENERATORS[qdType]', ast.unparse(fn)[-80:])


def _atoms(nf):
    if isinstance(nf, tuple) and nf[0] in ('and', 'or'):
        out = set()
        for k in nf[1]:
            out |= _atoms(k)
        return out
    if isinstance(nf, tuple) and nf[0] == 'not':
        return {'not ' + a for a in _atoms(nf[1])} | _atoms(nf[1])
    return {nf}


def _raises(fn, err, must_mention):
    """raise sites of class `err` whose guard set (in negation normal form) contains all of `must_mention`"""
    from ..norm import guards_nnf, bool_nf
    cfg = FuncCFG(fn)
    out = []
    for n, s in cfg.stmt_of.items():
        if isinstance(s, ast.Raise) and s.exc is not None and err in ast.unparse(s.exc):
            gs = facts.guard_strings(cfg, s)
            atoms = _atoms(guards_nnf(gs)) if gs else set()
            text = ' && '.join(sorted(map(str, atoms)))
            lp = ' '.join(ast.unparse(l.iter) for l in cfg.loops_of[id(s)] if isinstance(l, ast.For))
            def has(x):
                try:
                    nx_ = bool_nf(ast.parse(x, mode='eval').body)
                except SyntaxError:
                    nx_ = x
                return nx_ in atoms or (isinstance(nx_, str) and any(nx_ in str(a) for a in atoms)) or x in lp or x in text
            if all(has(x) for x in must_mention):
                out.append(text)
    return out


GUARDS = [
    (STEP, 'Step._Step__generate_hierarchy', 'ParameterError', ["'dtype_u' in descr"], 'deprecated key dtype_u'),
    (STEP, 'Step._Step__generate_hierarchy', 'ParameterError', ["'dtype_f' in descr"], 'deprecated key dtype_f'),
    (STEP, 'Step._Step__generate_hierarchy', 'ParameterError', ['key not in descr', 'essential_keys'], 'missing essential key'),
    (STEP, 'Step._Step__generate_hierarchy', 'ParameterError', ['len(descr_list) > 1', "space_transfer_class"], 'several levels without space transfer'),
    ('pySDC/core/sweeper.py', 'Sweeper.__init__', 'ParameterError', ['key not in params', 'essential_keys'], 'sweeper without num_nodes'),
    (ct.NONMPI[0], 'controller_nonMPI.__init__', 'ControllerError', ["'predict' in controller_params"], 'deprecated predict flag'),
    (ct.NONMPI[0], 'controller_nonMPI.__init__', 'ControllerError', ['num_procs > 1', 'len(self.MS[0].levels) > 1', 'right_is_node'], 'PFASST without the right end point as node'),
    (ct.NONMPI[0], 'controller_nonMPI.__init__', 'ControllerError', ['len(S.levels) == len(self.MS[0].levels)'], 'unequal level counts'),
    (ct.NONMPI[0], 'controller_nonMPI.__init__', 'ControllerError', ['self.nlevels == 0'], 'zero levels'),
    (ct.NONMPI[0], 'controller_nonMPI.__init__', 'ControllerError', ['self.nlevels > 1', 'self.nsweeps[-1] > 1'], 'several sweeps on the coarsest level'),
    ('pySDC/core/collocation.py', 'CollBase.__init__', 'CollocationError', ['num_nodes > 0'], 'no nodes'),
    ('pySDC/core/collocation.py', 'CollBase.__init__', 'CollocationError', ['tleft < tright'], 'empty interval'),
    (CTRL, 'ParaDiagController.__init__', 'ParameterError', ["'alpha' not in controller_params"], 'ParaDiag without alpha'),
]


@rule('C20', 'C20.R2', 'guards that must raise: missing essential entries and incompatible options are rejected at construction', floor=14)
def r2(ctx, R):
    repo = ctx.repo
    for rel, name, err, mention, what in GUARDS:
        cn, meth = name.split('.', 1)
        ci = repo.cls(rel, cn)
        fn = ci.methods.get(meth) or ci.methods.get(meth.replace(f'_{cn}', ''))
        if fn is None:
            raise AnalysisError(f'{rel}:{name} vanished')
        w = f'{rel}:{cn}.{fn.name}'
        R.fn(w)
        hits = _raises(fn, err, mention)
        R.check(bool(hits), f'{cn}.{fn.name} :: {what} -> {err}', w, f'raise {err} under a guard mentioning {mention}', hits[:1] or 'no such raise')
        if what == 'PFASST without the right end point as node':
            cfg = FuncCFG(fn)
            rs = [s_ for s_ in cfg.stmt_of.values() if isinstance(s_, ast.Raise) and 'right_is_node' in ' '.join(facts.guard_strings(cfg, s_))]
            its = [ast.unparse(l.iter) for s_ in rs for l in cfg.loops_of[id(s_)] if isinstance(l, ast.For)]
            R.check(its == ['self.MS', 'S.levels'], f'{cn}.{fn.name} :: the end-point requirement is checked on every level of every step', w, 'for S in self.MS: for L in S.levels: ...', its)


@rule('C20', 'C20.R3', 'frozen classes freeze on every normal exit of __init__; __setattr__ rejects undeclared names; only the sanctioned __dict__ bypasses exist', floor=17)
def r3(ctx, R):
    repo = ctx.repo
    fz = repo.cls(HELP, 'FrozenClass')
    for ci in repo.subclasses(fz, strict=True):
        if not repo.is_library(ci):
            continue
        fn = ci.methods.get('__init__')
        w = f'{ci.module.relpath}:{ci.name}.__init__'
        if fn is None:
            R.bad(f'{ci.name} :: has an __init__ that freezes', w, '__init__ ending in self._freeze()', 'no __init__')
            continue
        R.fn(w)
        cfg = FuncCFG(fn)
        fr = [n for n in cfg.stmt_of if any(ast.unparse(c.func) == 'self._freeze' for c in cfg.calls_at(n))]
        ok = bool(fr) and cfg.must_pass(ENTRY, EXIT, fr)
        # no new attribute is declared after the freeze (a store after it could only succeed for declared names)
        R.check(ok, f'{ci.name}.__init__ :: self._freeze() on every normal exit', w, 'every path to return passes _freeze()', f'{len(fr)} freeze call(s)')
    fn = repo.func(HELP, 'FrozenClass.__setattr__')
    w = f'{HELP}:FrozenClass.__setattr__'
    R.fn(w)
    cfg = FuncCFG(fn)
    rs = [(n, s) for n, s in cfg.stmt_of.items() if isinstance(s, ast.Raise) and 'TypeError' in ast.unparse(s)]
    ok = len(rs) == 1
    if ok:
        t = cfg.guards[id(rs[0][1])]
        ok = len(t) == 1 and t[0][1] and nnf(t[0][0]) == ('and', tuple(sorted(['self._FrozenClass__isfrozen' if False else 'self.__isfrozen', ('not', 'hasattr(self, key)'), 'key not in type(self).attrs'], key=repr)))
        st = [n for n, s in cfg.stmt_of.items() if isinstance(s, ast.Expr) and ast.unparse(s.value) == 'object.__setattr__(self, key, value)']
        ok = ok and len(st) == 1 and not cfg.reachable(rs[0][0], st[0])
    R.check(ok, 'FrozenClass.__setattr__ :: raises TypeError when frozen and the name is neither declared nor allow-listed, before storing', w, 'if frozen and not (key in attrs or hasattr(self, key)): raise TypeError', [facts.guard_strings(cfg, s) for _, s in rs])
    # the allow-list is per class: a fresh list bound unconditionally when the subclass is created, never a shared object
    fn = repo.func(HELP, 'FrozenClass.__init_subclass__')
    w = f'{HELP}:FrozenClass.__init_subclass__'
    R.fn(w)
    cfg = FuncCFG(fn)
    at = [s_ for s_ in cfg.stmt_of.values() if isinstance(s_, (ast.Assign, ast.AugAssign)) and any(ast.unparse(t) == 'cls.attrs' for t in (s_.targets if isinstance(s_, ast.Assign) else [s_.target]))]
    fresh = len(at) == 1 and isinstance(at[0], ast.Assign) and (isinstance(at[0].value, ast.List) and not at[0].value.elts or ast.unparse(at[0].value) == 'list()') and not cfg.guards.get(id(at[0]))
    R.check(fresh, 'FrozenClass.__init_subclass__ :: every frozen class gets its OWN empty allow-list (names allowed on one class are not allowed on another)', w, 'cls.attrs = [] unconditionally, the only binding', [ast.unparse(s_) for s_ in at])
    others = []
    for m, ci, f in repo.all_functions():
        if (ci.name if ci else '', f.name) == ('FrozenClass', '__init_subclass__'):
            continue
        for s_ in walk_no_nested(f):
            tg = s_.targets if isinstance(s_, ast.Assign) else []
            if any(isinstance(t, ast.Attribute) and t.attr == 'attrs' and ast.unparse(t.value) in ('cls', 'type(self)', 'self') for t in tg) and m.relpath == HELP:
                others.append(f'{f.name}: {ast.unparse(s_)}')
    R.check(not others, 'FrozenClass :: the allow-list is rebound nowhere else (add_attr only extends the list of its own class)', HELP, 'no other `cls.attrs = ..`', others)
    # __dict__ stores: inventory
    allowed = {'ConvergenceController.set_step_status_variable': 'S.status.__dict__[key]', 'ConvergenceController.set_level_status_variable': 'L.status.__dict__[key]',
               'GenericSpectralLinear.setup_GPU': "self.__dict__['comm']"}
    for m, ci, f in repo.all_functions():
        for s in walk_no_nested(f):
            tg = s.targets if isinstance(s, ast.Assign) else [s.target] if isinstance(s, ast.AugAssign) else []
            for t in tg:
                if isinstance(t, ast.Subscript) and isinstance(t.value, ast.Attribute) and t.value.attr == '__dict__':
                    name = (ci.name + '.' if ci else '') + f.name
                    ok = allowed.get(name) == ast.unparse(t)
                    R.check(ok, f'{name} :: store through {ast.unparse(t)}', qual(m, ci, f), 'only the two status-variable setters (after add_attr) and the NCCL communicator wrapper write through __dict__', ast.unparse(t))
    for meth, setter in (('add_status_variable_to_step', 'set_step_status_variable'), ('add_status_variable_to_level', 'set_level_status_variable')):
        fn = repo.func(CCORE, f'ConvergenceController.{meth}')
        cfg = FuncCFG(fn)
        add = [n for n in cfg.stmt_of if any(isinstance(c.func, ast.Attribute) and c.func.attr == 'add_attr' for c in cfg.calls_at(n))]
        st = [n for n in cfg.stmt_of if any(ast.unparse(c.func) == f'self.{setter}' for c in cfg.calls_at(n))]
        ok = len(add) == 1 and len(st) == 1 and cfg.dominates(add[0], st[0])
        R.check(ok, f'ConvergenceController.{meth} :: add_attr(key) dominates the __dict__ bypass', f'{CCORE}:ConvergenceController.{meth}', 'declare, then set', f'{len(add)} add_attr, {len(st)} setter call(s)')


@rule('C20', 'C20.R4', 'read-only problem parameters: RegisterParams.__setattr__ raises ReadOnlyError; registration uses the sanctioned bypass', floor=2)
def r4(ctx, R):
    repo = ctx.repo
    rel = 'pySDC/core/common.py'
    fn = repo.func(rel, 'RegisterParams.__setattr__')
    cfg = FuncCFG(fn)
    rs = [(n, s) for n, s in cfg.stmt_of.items() if isinstance(s, ast.Raise) and 'ReadOnlyError' in ast.unparse(s)]
    st = [n for n, s in cfg.stmt_of.items() if isinstance(s, ast.Expr) and ast.unparse(s.value) == 'super().__setattr__(name, value)']
    ok = len(rs) == 1 and facts.guard_strings(cfg, rs[0][1]) == ['name in self._parNamesReadOnly'] and len(st) == 1 and not cfg.reachable(rs[0][0], st[0])
    R.check(ok, 'RegisterParams.__setattr__ :: ReadOnlyError for names in _parNamesReadOnly, before anything is stored', f'{rel}:RegisterParams.__setattr__', 'if name in self._parNamesReadOnly: raise ReadOnlyError(name)', [facts.guard_strings(cfg, s) for _, s in rs])
    fn = repo.func(rel, 'RegisterParams._makeAttributeAndRegister')
    src = ast.unparse(fn)
    ok = 'super().__setattr__(name, localVars[name])' in src and 'self._parNamesReadOnly = self._parNamesReadOnly.union(names)' in src
    # the registries only grow: a later registration never takes a name out of the read-only set
    shrink = []
    for x in ast.walk(fn):
        if isinstance(x, ast.Call) and isinstance(x.func, ast.Attribute) and x.func.attr in ('difference', 'difference_update', 'discard', 'remove', 'pop', 'clear', 'symmetric_difference', 'intersection') and '_parNames' in ast.unparse(x.func.value):
            shrink.append(f'line {x.lineno}: {ast.unparse(x)[:70]}')
        if isinstance(x, ast.BinOp) and isinstance(x.op, (ast.Sub, ast.BitAnd, ast.BitXor)) and '_parNames' in ast.unparse(x.left):
            shrink.append(f'line {x.lineno}: {ast.unparse(x)[:70]}')
    R.check(not shrink, 'RegisterParams._makeAttributeAndRegister :: the registries only grow (registering a name again never removes its read-only protection)', f'{rel}:RegisterParams._makeAttributeAndRegister', 'union only', shrink)
    R.check(ok, 'RegisterParams._makeAttributeAndRegister :: sets through super().__setattr__ and registers read-only names', f'{rel}:RegisterParams._makeAttributeAndRegister', 'super().__setattr__ ; _parNamesReadOnly.union(names) under readOnly', 'ok' if ok else src[-200:])


@rule('C20', 'C20.R5', 'list/scalar distribution: hierarchy length = longest list, entry min(level, len-1), scalars shared; each Level gets the parameters of its own index', floor=5)
def r5(ctx, R):
    repo = ctx.repo
    ci = repo.cls(STEP, 'Step')
    fn = ci.methods.get('__dict_to_list')
    if fn is None:
        raise AnalysisError('Step.__dict_to_list vanished')
    w = f'{STEP}:Step.__dict_to_list'
    R.fn(w)
    N = Normalizer(fn, inline_scalars=False)
    mv = [c for c in N.contribs if c.target == 'max_val']
    ok = sorted(c.rhs for c in mv) == ['1', 'max(max_val, len(v))'] and any(g == 'type(v) is list' for c in mv for g in c.guards)
    R.check(ok, '__dict_to_list :: number of levels = max(1, longest list)', w, 'max_val = max(max_val, len(v)) for list values', [c.describe() for c in mv])
    ld = [c for c in N.contribs if c.target == 'ld' and c.op == '=']
    R.check(len(ld) == 1 and ld[0].rhs == '[{} for _ in range(max_val)]', '__dict_to_list :: one dict per level', w, '[{} for _ in range(max_val)]', [c.rhs for c in ld])
    st = sorted((c.rhs, c.guards[-1]) for c in N.contribs if re.fullmatch(r'ld\[.+\]\[k\]', c.target))
    idx = None
    for c in N.contribs:
        m = re.fullmatch(r'ld\[(.+)\]\[k\]', c.target)
        if m:
            idx = m.group(1)
    lv_ = [l.target.id for l in walk_no_nested(fn) if isinstance(l, ast.For) and ast.unparse(l.iter) == 'range(len(ld))' and isinstance(l.target, ast.Name)]
    dvar = lv_[0] if len(lv_) == 1 else '?'
    want = sorted([('v', 'type(v) is not list'), ('v[min(i1 - 1, len(v) - 1)]', 'type(v) is list')])
    if idx != 'i1 - 1':
        want = [('level dict must be indexed by the level loop variable', idx)]
    R.check(st == want, '__dict_to_list :: scalars shared, list entry min(level, len-1) (last entry repeats)', w, want, st)
    gh = ci.methods.get('__generate_hierarchy')
    w = f'{STEP}:Step.__generate_hierarchy'
    R.fn(w)
    lv = [c for c in ast.walk(gh) if isinstance(c, ast.Call) and ast.unparse(c.func) == 'Level']
    ok = len(lv) == 1
    if ok:
        kw = {k.arg: ast.unparse(k.value) for k in lv[0].keywords}
        want = {'problem_class': "descr_list[l]['problem_class']", 'problem_params': "descr_list[l]['problem_params']", 'sweeper_class': "descr_list[l]['sweeper_class']",
                'sweeper_params': "descr_list[l]['sweeper_params']", 'level_params': "descr_list[l]['level_params']", 'level_index': 'l'}
        ok = kw == want
    R.check(ok, '__generate_hierarchy :: Level l receives entry l of all five lists and level_index = l', w, 'descr_list[l][..] for the same l', kw if lv else None)
    loops = [s for s in walk_no_nested(gh) if isinstance(s, ast.For) and ast.unparse(s.iter) == 'range(len(descr_list))']
    R.check(len(loops) == 1, '__generate_hierarchy :: one level per entry of the distributed description', w, 'for l in range(len(descr_list))', len(loops))


SETUP_EXC = {
    ('AdaptivityCollocation', 'control_order'): None,  # handled as finding F7
    ('EstimateExtrapolationErrorBase', '*'): 'derived keys (Taylor_order, estimate_iter, n, n_per_proc) are computed from the merged parameters after the merge',
    ('EstimateExtrapolationErrorNonMPI', '*'): 'inherits the derived keys of its base',
    ('AdaptivityForConvergedCollocationProblems', 'maxiter'): 'maxiter is derived from step_params after the merge when restart_at_maxiter is set',
    ('AdaptivityExtrapolationWithinQ', 'maxiter'): 'same (inherited)',
    ('AdaptivityCollocation', 'maxiter'): 'same (inherited), scaled by num_colls',
    ('AdaptivityCollocation', 'num_colls'): 'derived from adaptive_coll_params after the merge',
    ('AdaptiveCollocation', '*'): 'vary_keys_*/num_colls are derived from the list-valued user parameters',
}


@rule('C20', 'C20.R6', 'convergence controllers: instantiated once, ordered by control_order, iterated in that order; user parameters override defaults in every setup()', floor=70)
def r6(ctx, R):
    repo = ctx.repo
    fn = repo.func(CTRL, 'Controller.add_convergence_controller')
    w = f'{CTRL}:Controller.add_convergence_controller'
    R.fn(w)
    cfg = FuncCFG(fn)
    app = [(n, s) for n, s in cfg.stmt_of.items() if isinstance(s, ast.Expr) and 'self.convergence_controllers.append(convergence_controller(self, params, description))' == ast.unparse(s.value)]
    ok = len(app) == 1 and facts.guard_strings(cfg, app[0][1]) == ['convergence_controller not in [type(me) for me in self.convergence_controllers] or allow_double']
    R.check(ok, 'add_convergence_controller :: instantiates only if the class is not present yet (or allow_double)', w, 'append under `cls not in [type(me) ...] or allow_double`', [facts.guard_strings(cfg, s) for _, s in app])
    N = Normalizer(fn, inline_scalars=False)
    od = [c for c in N.contribs if c.target == 'self.convergence_controller_order']
    ok = len(od) == 1 and od[0].rhs == 'np.arange(len(self.convergence_controllers))[np.argsort(orders)]' and any(c.target == 'orders' and c.rhs == '[C.params.control_order for C in self.convergence_controllers]' for c in N.contribs)
    R.check(ok, 'add_convergence_controller :: order = argsort of control_order (ascending), recomputed after every insertion', w, 'np.arange(n)[np.argsort([C.params.control_order ...])]', [c.rhs for c in od])
    pr = [c for c in N.contribs if c.target == 'params']
    ok = len(pr) == 1 and pr[0].rhs == "{**({} if params is None else params), 'useMPI': self.useMPI}"
    R.check(ok, 'add_convergence_controller :: user params are passed on (only useMPI is set by the controller)', w, "{**params, 'useMPI': self.useMPI}", [c.rhs for c in pr])
    # every iteration over the convergence controllers uses the computed order
    want_iter = '[self.convergence_controllers[i] for i in self.convergence_controller_order]'
    n = 0
    for spec in ct.ALL:
        ci = repo.cls(spec[0], spec[1])
        for name, f in ci.methods.items():
            for l in walk_no_nested(f):
                if isinstance(l, ast.For) and re.search(r'self\.convergence_controllers\b', ast.unparse(l.iter)):
                    n += 1
                    R.check(ast.unparse(l.iter) == want_iter, f'{spec[1]}.{name} :: loop over convergence controllers follows convergence_controller_order', f'{spec[0]}:{spec[1]}.{name}', want_iter, ast.unparse(l.iter))
    if n < 20:
        raise AnalysisError(f'C20.R6: only {n} loops over the convergence controllers found')
    # setup(): the user-carrying part comes after the literal defaults
    base = repo.cls(CCORE, 'ConvergenceController')
    bfn = base.methods['setup']
    ret = [s for s in walk_no_nested(bfn) if isinstance(s, ast.Return)]
    ok = len(ret) == 1 and ast.unparse(ret[0].value) == "{**params, **description.get('convergence_controllers', {}).get(type(self), {})}"
    R.check(ok, 'ConvergenceController.setup :: returns the user parameters (constructor params, then the description entry)', f'{CCORE}:ConvergenceController.setup', "{**params, **description['convergence_controllers'][type(self)]}", [ast.unparse(r.value) for r in ret])
    for ci in repo.subclasses(base, strict=True):
        if not repo.is_library(ci):
            continue
        segs = setups.fold(repo, ci)
        last_user = max([i for i, s in enumerate(segs) if s.kind == 'user'] or [-1])
        w = f'{ci.module.relpath}:{ci.name}.setup'
        if last_user < 0:
            R.bad(f'{ci.name}.setup :: carries the user parameters', w, '**params or **super().setup(..) in the returned dict', 'user part missing')
            continue
        forced = [(s.kind, s.key, s.origin) for i, s in enumerate(segs) if i > last_user]
        if not forced:
            R.ok(f'{ci.name}.setup :: user parameters override every default', w, found=f'{sum(1 for s in segs if s.kind == "lit")} literal defaults before the user part')
            continue
        for kind, key, origin in forced:
            c = f'{ci.name}.setup :: key {key!r} is set after the user part (by {origin})'
            exc = SETUP_EXC.get((ci.name, key), SETUP_EXC.get((ci.name, '*'))) if (ci.name, key) in SETUP_EXC or (ci.name, '*') in SETUP_EXC else None
            if (ci.name, key) in SETUP_EXC and SETUP_EXC[(ci.name, key)] is None:
                R.bad(c, w, 'defaults first, user parameters last (a user value must win)', f'{kind} store of {key!r} overrides the user value')
            elif exc:
                R.exc(c, w, exc)
            else:
                R.bad(c, w, 'defaults first, user parameters last (a user value must win)', f'{kind} store of {key!r} overrides the user value')

    dep_setups(ctx, R)


def dep_setups(ctx, R):
    repo = ctx.repo
    base = repo.cls(CCORE, 'ConvergenceController')
    # a controller that is added as a DEPENDENCY gets forwarded parameters; the manual entry of the description must be
    # able to override them, i.e. its setup() must reach ConvergenceController.setup (the only place that merges the entry)
    dep = {}
    for m, ci_, f in repo.all_functions():
        for c in ast.walk(f):
            if isinstance(c, ast.Call) and isinstance(c.func, ast.Attribute) and c.func.attr == 'add_convergence_controller' and c.args:
                a = c.args[0]
                fam = False
                if isinstance(a, ast.Call) and isinstance(a.func, ast.Attribute) and a.func.attr == 'get_implementation':
                    a, fam = a.func.value, True
                if isinstance(a, ast.Name):
                    dep.setdefault(a.id, set()).add(f'{(ci_.name + ".") if ci_ else ""}{f.name}')
                    if fam:
                        dep.setdefault(a.id + '*', set()).add(f.name)
    n_dep = 0
    for ci in repo.subclasses(base, strict=True):
        if not repo.is_library(ci):
            continue
        is_dep = ci.name in dep or any(isinstance(b, ClassInfo) and (b.name + '*') in dep for b in ci.mro)
        if not is_dep:
            continue
        n_dep += 1
        segs = setups.fold(repo, ci)
        full = any(sg.kind == 'user' and sg.origin == 'ConvergenceController' for sg in segs)
        by = sorted(dep.get(ci.name, set()))[:2] or ['get_implementation of a base class']
        R.check(full, f'{ci.name}.setup :: added as a dependency (by {", ".join(by)}), so its setup() reaches ConvergenceController.setup, which lets the manual entry of the description override the forwarded parameters', f'{ci.module.relpath}:{ci.name}.setup', '{**defaults, **super().setup(controller, params, description)} down to the base class', [str(sg) for sg in segs if sg.kind == 'user'])
    if n_dep < 8:
        raise AnalysisError(f'C20.R6: only {n_dep} convergence controllers found that are added as dependencies')


DESCRIPTION_DICTS = {'params', 'description', 'descr', 'controller_params', 'level_params', 'sweeper_params', 'problem_params', 'pars', 'step_params', 'descr_new'}


@rule('C20', 'C20.R7', 'constructors do not consume the caller\'s description: no pop/del/clear on a description or parameter dict in core / controller / sweeper construction code', floor=1)
def r7(ctx, R):
    """A description is interpreted consistently only if constructing from it twice gives the same result: the fallback
    path of controller_nonMPI.__init__ (Step(description) per step when dill.copy fails) and every re-use of a description
    by the caller read the same dict again."""
    repo = ctx.repo
    n = 0
    for m, ci, fn in repo.all_functions():
        if not (m.relpath.startswith('pySDC/core/') or 'controller_classes' in m.relpath or 'sweeper_classes' in m.relpath):
            continue
        if fn.name not in ('__init__', 'setup', '__generate_hierarchy', '__dict_to_list', 'connect_levels', 'add_convergence_controller', 'setup_convergence_controllers'):
            continue
        n += 1
        bad = []
        for x in ast.walk(fn):
            if isinstance(x, ast.Call) and isinstance(x.func, ast.Attribute) and x.func.attr in ('pop', 'popitem', 'clear') and isinstance(x.func.value, ast.Name) and x.func.value.id in DESCRIPTION_DICTS:
                bad.append(ast.unparse(x)[:60])
            if isinstance(x, ast.Delete):
                for t in x.targets:
                    if isinstance(t, ast.Subscript) and isinstance(t.value, ast.Name) and t.value.id in DESCRIPTION_DICTS:
                        bad.append(ast.unparse(x)[:60])
        name = (ci.name + '.' if ci else '') + fn.name
        if bad:
            R.bad(f'{name} :: removes entries from a caller-owned parameter dict', qual(m, ci, fn), 'read (or copy) the description, never consume it', bad)
    R.ok('construction code :: scan for pop/del/clear on description dicts', 'pySDC/core + controller_classes + sweeper_classes', found=f'{n} construction functions scanned')
    pc = ast.parse("def __init__(self, params):\n    c = params.pop('collocation_class', None)\n").body[0]
    if not any(isinstance(x, ast.Call) and isinstance(x.func, ast.Attribute) and x.func.attr == 'pop' for x in ast.walk(pc)):
        raise AnalysisError('C20.R7 positive control broken')


EXACT_TESTS = [
    (STEP, 'Step._Step__generate_hierarchy', 'ParameterError', ["'dtype_u' in descr", "'dtype_f' in descr", 'key not in descr', "len(descr_list) > 1 and (not descr_new['space_transfer_class'])"]),
    ('pySDC/core/sweeper.py', 'Sweeper.__init__', 'ParameterError', ['key not in params']),
    (ct.NONMPI[0], 'controller_nonMPI.__init__', 'ControllerError', ["'predict' in controller_params", 'not L.sweep.coll.right_is_node', 'not all((len(S.levels) == len(self.MS[0].levels) for S in self.MS))', 'self.nlevels == 0', 'self.nlevels > 1 and self.nsweeps[-1] > 1']),
    ('pySDC/core/collocation.py', 'CollBase.__init__', 'CollocationError', ['not num_nodes > 0', 'not tleft < tright']),
    (CTRL, 'ParaDiagController.__init__', 'ParameterError', ["'alpha' not in controller_params.keys()"]),
]


@rule('C20', 'C20.R8', 'rejection guards are not narrowed: the condition directly in front of each tabled raise is exactly the tabled one (an extra conjunct would let an invalid setup through)', floor=13)
def r8(ctx, R):
    from ..norm import nnf
    repo = ctx.repo

    def canon(n):
        return ast.unparse(n)

    def atoms(nf):
        if isinstance(nf, tuple) and nf[0] == 'and':
            out = set()
            for k in nf[1]:
                out |= atoms(k)
            return out
        return {nf}

    for rel, name, err, tests in EXACT_TESTS:
        cn, meth = name.split('.', 1)
        ci = repo.cls(rel, cn)
        fn = ci.methods.get(meth) or ci.methods.get(meth.replace(f'_{cn}', ''))
        if fn is None:
            raise AnalysisError(f'{rel}:{name} vanished')
        w = f'{rel}:{cn}.{fn.name}'
        R.fn(w)
        cfg = FuncCFG(fn)
        inner = []
        for n, s in cfg.stmt_of.items():
            if isinstance(s, ast.Raise) and s.exc is not None and err in ast.unparse(s.exc):
                g = cfg.guards[id(s)]
                if g:
                    t, pol = g[-1]
                    inner.append(nnf(t, canon) if pol else nnf(ast.UnaryOp(ast.Not(), t), canon))
        for tst in tests:
            want = nnf(ast.parse(tst, mode='eval').body, canon)
            if want in inner:
                R.ok(f'{cn}.{fn.name} :: raise {err} directly under `{tst}`', w, found='exact')
                continue
            narrowed = [str(i) for i in inner if atoms(want) < atoms(i)]
            R.bad(f'{cn}.{fn.name} :: raise {err} directly under `{tst}`', w, f'the test is exactly {tst}', {'narrowed to': narrowed} if narrowed else {'tests found in front of the raises': [str(i)[:80] for i in inner]})


REGISTRIES = ('QDELTA_GENERATORS', 'QDELTA_GENERATORS_ALIASES', 'Q_GENERATORS', 'RK_SCHEMES')
_CONTROL_GET = "gen = QDELTA_GENERATORS.get(qd_type, type(cached))"


def _lenient_lookups(tree):
    return [ast.unparse(c) for c in ast.walk(tree) if isinstance(c, ast.Call) and isinstance(c.func, ast.Attribute) and c.func.attr in ('get', 'setdefault') and ast.unparse(c.func.value).split('.')[-1] in REGISTRIES and len(c.args) >= 2]


@rule('C20', 'C20.R9', 'names of preconditioners / schemes are looked up strictly: no registry lookup with a fallback value, the generator cache is reused only for a known alias of the cached generator (an unknown name must reach the raising lookup)', floor=4)
def r9(ctx, R):
    repo = ctx.repo
    R.check(_lenient_lookups(ast.parse(_CONTROL_GET)) == ['QDELTA_GENERATORS.get(qd_type, type(cached))'], 'positive control :: a registry lookup with a default is recognised in the embedded example', 'sa/rules/c20.py:_CONTROL_GET', 'one lenient lookup', _lenient_lookups(ast.parse(_CONTROL_GET)))
    found = []
    for m in repo.modules.values():
        if repo.is_library(m):
            found += [f'{m.relpath}: {x}' for x in _lenient_lookups(m.tree)]
    R.check(not found, 'library :: no .get(name, default) on a registry of preconditioners / quadrature generators / RK schemes', 'pySDC (library modules)', 'strict lookups REGISTRY[name] only', found)
    rel = 'pySDC/core/sweeper.py'
    fn = repo.func(rel, 'Sweeper.buildGenerator')
    rets = [ast.unparse(s.value) for s in ast.walk(fn) if isinstance(s, ast.Return)]
    R.fn(f'{rel}:Sweeper.buildGenerator')
    R.check(len(rets) == 1 and rets[0].startswith('QDELTA_GENERATORS[qdType]('), 'Sweeper.buildGenerator :: the name is resolved by a subscript lookup (KeyError for unknown names)', f'{rel}:Sweeper.buildGenerator', 'QDELTA_GENERATORS[qdType](..)', rets)
    qdelta_cache(ctx, R)


def qdelta_cache(ctx, R):
    repo = ctx.repo
    rel = 'pySDC/core/sweeper.py'
    for meth, attr in (('get_Qdelta_implicit', 'genQI'), ('get_Qdelta_explicit', 'genQE')):
        fn = repo.func(rel, f'Sweeper.{meth}')
        w = f'{rel}:Sweeper.{meth}'
        R.fn(w)
        ifs = [s for s in walk_no_nested(fn) if isinstance(s, ast.If) and any(isinstance(x, ast.Assign) and ast.unparse(x.targets[0] if not isinstance(x, ast.AnnAssign) else x.target) == f'self.{attr}' for x in ast.walk(s)) or isinstance(s, ast.If) and any(isinstance(x, ast.AnnAssign) and ast.unparse(x.target) == f'self.{attr}' for x in ast.walk(s))]
        test = ast.unparse(ifs[0].test) if len(ifs) == 1 else None
        want = f"not hasattr(self, '{attr}') or qd_type not in QDELTA_GENERATORS_ALIASES[type(self.{attr})]"
        R.check(test == want, f'Sweeper.{meth} :: the cached generator is reused only if the requested name is one of ITS aliases', w, want, test)


def _registered(fn):
    """{name: read-only?} from the _makeAttributeAndRegister calls of a constructor"""
    reg = {}
    for c in ast.walk(fn):
        if isinstance(c, ast.Call) and isinstance(c.func, ast.Attribute) and c.func.attr == '_makeAttributeAndRegister':
            ro = any(k.arg == 'readOnly' and isinstance(k.value, ast.Constant) and k.value.value is True for k in c.keywords)
            for a in c.args:
                if isinstance(a, ast.Constant) and isinstance(a.value, str):
                    reg[a.value] = reg.get(a.value, False) or ro
    return reg


def _feeds_derived(fn, reg):
    """{registered name: derived attributes of self that the constructor computes from it}"""
    out = {}
    for s in ast.walk(fn):
        if not isinstance(s, (ast.Assign, ast.AugAssign)):
            continue
        for t in (s.targets if isinstance(s, ast.Assign) else [s.target]):
            b = t
            while isinstance(b, ast.Subscript):
                b = b.value
            if isinstance(b, ast.Attribute) and isinstance(b.value, ast.Name) and b.value.id == 'self' and b.attr not in reg:
                for x in ast.walk(s.value):
                    n = x.id if isinstance(x, ast.Name) else x.attr if isinstance(x, ast.Attribute) and isinstance(x.value, ast.Name) and x.value.id == 'self' else None
                    if n in reg:
                        out.setdefault(n, set()).add(b.attr)
    # handed to the base-class constructor, which builds its operators from it
    for c in ast.walk(fn):
        if isinstance(c, ast.Call) and ast.unparse(c.func) == 'super().__init__':
            for a in list(c.args) + [k.value for k in c.keywords]:
                for x in ast.walk(a):
                    if isinstance(x, ast.Name) and x.id in reg:
                        out.setdefault(x.id, set()).add('<state built by the base-class constructor>')
    return out


@rule('C20', 'C20.R10', 'the read-only declarations stay: every (problem class, parameter) pair that is registered readOnly=True on the reference tree (sa/specs/readonly_params.json, each confirmed by the derived-state analysis or by reading) is still registered read-only - dropping the flag at one registration call would make assignments to it succeed silently while matrices / grids built from it stay as they were', floor=80)
def r10(ctx, R):
    import json
    import os
    repo = ctx.repo
    with open(os.path.join(os.path.dirname(os.path.dirname(__file__)), 'specs', 'readonly_params.json')) as fh:
        ref = json.load(fh)['read_only']
    base = repo.cls('pySDC/core/problem.py', 'Problem')
    seen = set()
    for ci in repo.subclasses(base, strict=True):
        if not repo.is_library(ci):
            continue
        fn = ci.methods.get('__init__')
        if fn is None:
            continue
        reg = _registered(fn)
        key = f'{ci.module.relpath}:{ci.name}'
        if key not in ref:
            # not on the reference tree: informational only (the statement speaks of the parameters that ARE read-only)
            feeds = _feeds_derived(fn, reg)
            loose = sorted(n for n in feeds if not reg[n])
            if loose:
                R.note(f'{ci.name}.__init__ :: parameters {loose} feed derived state and are not read-only', f'{key}.__init__', 'class is not part of the reference table; not decided')
            continue
        seen.add(key)
        w = f'{key}.__init__'
        R.fn(w)
        feeds = _feeds_derived(fn, reg)
        for name in ref[key]:
            c = f'{ci.name}.__init__ :: parameter `{name}` is registered read-only' + (f' (feeds self.{", self.".join(sorted(feeds[name])[:2])})' if name in feeds else '')
            if name not in reg:
                raise AnalysisError(f'C20.R10: {key} does not register `{name}` any more (reference table out of date)')
            R.check(reg[name], c, w, "_makeAttributeAndRegister(.., readOnly=True)", 'registered without readOnly')
    missing = set(ref) - seen
    if missing:
        raise AnalysisError(f'C20.R10: classes of the reference table not found any more: {sorted(missing)[:4]}')


def _pars_fields(repo, rel, cls='_Pars'):
    ci = repo.cls(rel, cls)
    fn = ci.methods['__init__']
    out = set()
    for s in ast.walk(fn):
        tg = s.targets if isinstance(s, ast.Assign) else [s.target] if isinstance(s, ast.AnnAssign) else []
        for t in tg:
            if isinstance(t, ast.Attribute) and isinstance(t.value, ast.Name) and t.value.id == 'self':
                out.add(t.attr)
    return out


@rule('C20', 'C20.R11', 'a validation looks where the user writes: every look-up of a level / step parameter in a description goes to the section whose parameter class declares the key (restol, dt, nsweeps, residual_type are LEVEL parameters, maxiter is a STEP parameter) - a check that reads the other section sees the default forever and never rejects anything', floor=8)
def r11(ctx, R):
    repo = ctx.repo
    decl = {'level_params': _pars_fields(repo, 'pySDC/core/level.py'), 'step_params': _pars_fields(repo, 'pySDC/core/step.py')}
    if 'restol' not in decl['level_params'] or 'maxiter' not in decl['step_params']:
        raise AnalysisError('C20.R11: parameter classes of Level / Step not understood')
    only = {k: sec for sec, ks in decl.items() for k in ks if sum(k in v for v in decl.values()) == 1}
    n = 0
    for m, ci, fn in repo.all_functions():
        for x in ast.walk(fn):
            sec = key = None
            # D["sec"].get("key", ..) | D["sec"]["key"] | "key" in D["sec"](.keys())
            if isinstance(x, ast.Call) and isinstance(x.func, ast.Attribute) and x.func.attr in ('get', 'pop', 'setdefault') and x.args and isinstance(x.args[0], ast.Constant) and isinstance(x.func.value, ast.Subscript) and isinstance(x.func.value.slice, ast.Constant):
                sec, key = x.func.value.slice.value, x.args[0].value
            elif isinstance(x, ast.Subscript) and isinstance(x.slice, ast.Constant) and isinstance(x.value, ast.Subscript) and isinstance(x.value.slice, ast.Constant):
                sec, key = x.value.slice.value, x.slice.value
            elif isinstance(x, ast.Compare) and len(x.ops) == 1 and isinstance(x.ops[0], (ast.In, ast.NotIn)) and isinstance(x.left, ast.Constant):
                c = x.comparators[0]
                if isinstance(c, ast.Call) and isinstance(c.func, ast.Attribute) and c.func.attr == 'keys':
                    c = c.func.value
                if isinstance(c, ast.Subscript) and isinstance(c.slice, ast.Constant):
                    sec, key = c.slice.value, x.left.value
            if sec not in decl or not isinstance(key, str) or key not in only:
                continue
            n += 1
            w = qual(m, ci, fn)
            R.fn(w)
            R.check(only[key] == sec, f'{(ci.name + ".") if ci else ""}{fn.name} :: `{key}` is looked up in {sec}', w, f'{key} is declared by the parameter class of {only[key]}', f'line {x.lineno}: {ast.unparse(x)[:80]}')
    if n < 8:
        raise AnalysisError(f'C20.R11: only {n} look-ups of level / step parameters in descriptions found')


# the only places where an object overwrites one of its OWN parameters after they were built from the user's dictionary
PARAM_WRITES = {
    ('Sweeper.__init__', 'do_coll_update'): 'forced to True when the right end point is not a node (the copy end point does not exist then; C05.R2)',
    ('QDiagonalization.set_G_inv', 'G_inv'): 'per-step matrix of the ParaDiag sweeper, set by the controller for every block (C15.R2)',
    ('EstimateExtrapolationErrorWithinQ.post_iteration_processing', 'Taylor_order'): 'derived from the number of collocation nodes of the level (may change with adaptive collocation), not a user option',
    ('EstimateExtrapolationErrorWithinQ.post_iteration_processing', 'n'): 'as Taylor_order',
}


@rule('C20', 'C20.R12', 'an option the user set is never silently replaced: `self.params.<name> = ..` outside the parameter classes occurs only at the tabled sites, each a value the object must derive (no "will ignore X" branch that rewrites X)', floor=4)
def r12(ctx, R):
    repo = ctx.repo
    seen = set()
    for m, ci, fn in repo.all_functions():
        if ci is None or ci.name in ('_Pars', 'Pars'):
            continue
        for s in ast.walk(fn):
            tg = s.targets if isinstance(s, ast.Assign) else [s.target] if isinstance(s, (ast.AugAssign, ast.AnnAssign)) else []
            for t in tg:
                if isinstance(t, ast.Attribute) and isinstance(t.value, ast.Attribute) and t.value.attr == 'params' and isinstance(t.value.value, ast.Name) and t.value.value.id == 'self':
                    key = (f'{ci.name}.{fn.name}', t.attr)
                    w = qual(m, ci, fn)
                    R.fn(w)
                    c = f'{ci.name}.{fn.name} :: assigns self.params.{t.attr}'
                    if key in PARAM_WRITES:
                        seen.add(key)
                        R.exc(c, w, PARAM_WRITES[key])
                    else:
                        R.bad(c, w, 'parameters are what the user (or the defaults) said; derived values live elsewhere (or a PARAM_WRITES entry with the reason)', f'line {s.lineno}: {ast.unparse(s)[:80]}')
    missing = set(PARAM_WRITES) - seen
    if missing:
        raise AnalysisError(f'C20.R12: tabled parameter writes not found any more: {sorted(missing)}')


@rule('C20', 'C20.R13', 'levels are CONNECTED with their own transfer parameters too: connect_levels(l-1, l) receives entry l of the distributed base-transfer / space-transfer lists (not entry 0 or the undistributed description)', floor=3)
def r13(ctx, R):
    repo = ctx.repo
    ci = repo.cls(STEP, 'Step')
    fn = next(f for n_, f in ci.methods.items() if n_.endswith('__generate_hierarchy'))
    w = f'{STEP}:Step.__generate_hierarchy'
    R.fn(w)
    calls = [c for c in ast.walk(fn) if isinstance(c, ast.Call) and ast.unparse(c.func) == 'self.connect_levels']
    if len(calls) != 1:
        raise AnalysisError(f'C20.R13: expected one connect_levels call, found {len(calls)}')
    kw = {k.arg: ast.unparse(k.value) for k in calls[0].keywords}
    loops = [l for l in walk_no_nested(fn) if isinstance(l, ast.For) and calls[0] in list(ast.walk(l))]
    lv = ast.unparse(loops[0].target) if loops else 'l'
    for key in ('base_transfer_params', 'space_transfer_class', 'space_transfer_params'):
        R.check(kw.get(key) == f"descr_list[{lv}]['{key}']", f'__generate_hierarchy :: connect_levels gets {key} of level {lv}', w, f"descr_list[{lv}]['{key}']", kw.get(key))
    R.check(kw.get('fine_level') == f'self.levels[{lv} - 1]' and kw.get('coarse_level') == f'self.levels[{lv}]', f'__generate_hierarchy :: level {lv} - 1 is the fine, level {lv} the coarse partner', w, f'fine_level=self.levels[{lv} - 1], coarse_level=self.levels[{lv}]', {k: kw.get(k) for k in ('fine_level', 'coarse_level')})
