"""rules for c20 (under construction)"""
