"""C20 - descriptions are interpreted consistently and invalid setups are rejected (structural clauses)."""

import ast
import re

from ..cfg import FuncCFG, walk_no_nested, ENTRY, EXIT
from ..model import AnalysisError, ClassInfo, qual
from ..norm import Normalizer, nnf
from ..runner import rule
from .. import controllers as ct
from .. import facts
from .. import setups

STEP = 'pySDC/core/step.py'
CTRL = 'pySDC/core/controller.py'
CCORE = 'pySDC/core/convergence_controller.py'
HELP = 'pySDC/helpers/pysdc_helper.py'

# dispatch chains without a rejecting else that are outside C20's configuration names (one reason each)
DISPATCH_EXC = {
    ('SpectralHelper.get_fft', 'direction'): 'internal helper argument (forward/backward/object), not a description entry; unknown values fall through to a KeyError at the cache lookup',
    ('Quench.u_exact', 'self.reference_sol_type'): 'reference-solution selector of one problem class, checked by its own tests; not a description name of the framework',
}
CONFIG_SUBJECTS = re.compile(r'(initial_guess|residual_type|predict_type|flavor|sweeper_type|stencil_type|solver_type|bc|algo|quad_type|node_type|embedded_error_flavor)')


@rule('C20', 'C20.R1', 'exhaustive name dispatch: every if/elif chain over configuration names ends in an else that raises (or delegates to super())', floor=38)
def r1(ctx, R):
    repo = ctx.repo
    for m, ci, fn in repo.all_functions():
        for ch in facts.dispatch_chains(fn):
            name = (ci.name + '.' if ci else '') + fn.name
            w = qual(m, ci, fn)
            c = f'{name} :: dispatch on {ch["subject"]} over {sorted(map(str, ch["names"]))}'
            if ch['else_kind'] in ('raise', 'super'):
                R.ok(c, w, found=f'else -> {ch["else_kind"]}')
                continue
            if ch['else_kind'] == 'other-test':
                # the chain continues with a test of another shape: the final else of the whole If must still reject
                node = ch['arms'][-1][0]
                tail = node.orelse
                while len(tail) == 1 and isinstance(tail[0], ast.If):
                    tail = tail[0].orelse
                ok = bool(tail) and any(isinstance(x, ast.Raise) for s in tail for x in walk_no_nested(s))
                R.check(ok, c, w, 'the final else of the chain raises', 'no rejecting else' if not ok else 'raise')
                continue
            key = (name, ch['subject'])
            if key in DISPATCH_EXC:
                R.exc(c, w, DISPATCH_EXC[key])
            else:
                R.bad(c, w, 'an else branch that raises for unknown names', f'else: {ch["else_kind"]}')
    # name lookups through registries are rejecting when wrapped / KeyError propagates
    fn = repo.func('pySDC/core/collocation.py', 'CollBase.__init__')
    tr = [s for s in walk_no_nested(fn) if isinstance(s, ast.Try)]
    ok = len(tr) == 1 and 'Q_GENERATORS' in ast.unparse(tr[0].body[0]) and any('CollocationError' in ast.unparse(h) for h in tr[0].handlers)
    R.check(ok, 'CollBase.__init__ :: unknown node/quadrature type -> CollocationError', 'pySDC/core/collocation.py:CollBase.__init__', 'try: Q_GENERATORS[..](..) except: raise CollocationError', 'ok' if ok else 'missing')
    fn = repo.func('pySDC/core/sweeper.py', 'Sweeper.buildGenerator')
    R.check('QDELTA_GENERATORS[qdType]' in ast.unparse(fn), 'Sweeper.buildGenerator :: unknown preconditioner name -> KeyError from the registry lookup', 'pySDC/core/sweeper.py:Sweeper.buildGenerator', 'QDELTA_GENERATORS[qdType]', ast.unparse(fn)[-80:])


def _atoms(nf):
    if isinstance(nf, tuple) and nf[0] in ('and', 'or'):
        out = set()
        for k in nf[1]:
            out |= _atoms(k)
        return out
    if isinstance(nf, tuple) and nf[0] == 'not':
        return {'not ' + a for a in _atoms(nf[1])} | _atoms(nf[1])
    return {nf}


def _raises(fn, err, must_mention):
    """raise sites of class `err` whose guard set (in negation normal form) contains all of `must_mention`"""
    from ..norm import guards_nnf, bool_nf
    cfg = FuncCFG(fn)
    out = []
    for n, s in cfg.stmt_of.items():
        if isinstance(s, ast.Raise) and s.exc is not None and err in ast.unparse(s.exc):
            gs = facts.guard_strings(cfg, s)
            atoms = _atoms(guards_nnf(gs)) if gs else set()
            text = ' && '.join(sorted(map(str, atoms)))
            lp = ' '.join(ast.unparse(l.iter) for l in cfg.loops_of[id(s)] if isinstance(l, ast.For))
            def has(x):
                try:
                    nx_ = bool_nf(ast.parse(x, mode='eval').body)
                except SyntaxError:
                    nx_ = x
                return nx_ in atoms or (isinstance(nx_, str) and any(nx_ in str(a) for a in atoms)) or x in lp or x in text
            if all(has(x) for x in must_mention):
                out.append(text)
    return out


GUARDS = [
    (STEP, 'Step._Step__generate_hierarchy', 'ParameterError', ["'dtype_u' in descr"], 'deprecated key dtype_u'),
    (STEP, 'Step._Step__generate_hierarchy', 'ParameterError', ["'dtype_f' in descr"], 'deprecated key dtype_f'),
    (STEP, 'Step._Step__generate_hierarchy', 'ParameterError', ['key not in descr', 'essential_keys'], 'missing essential key'),
    (STEP, 'Step._Step__generate_hierarchy', 'ParameterError', ['len(descr_list) > 1', "space_transfer_class"], 'several levels without space transfer'),
    ('pySDC/core/sweeper.py', 'Sweeper.__init__', 'ParameterError', ['key not in params', 'essential_keys'], 'sweeper without num_nodes'),
    (ct.NONMPI[0], 'controller_nonMPI.__init__', 'ControllerError', ["'predict' in controller_params"], 'deprecated predict flag'),
    (ct.NONMPI[0], 'controller_nonMPI.__init__', 'ControllerError', ['num_procs > 1', 'len(self.MS[0].levels) > 1', 'right_is_node'], 'PFASST without the right end point as node'),
    (ct.NONMPI[0], 'controller_nonMPI.__init__', 'ControllerError', ['len(S.levels) == len(self.MS[0].levels)'], 'unequal level counts'),
    (ct.NONMPI[0], 'controller_nonMPI.__init__', 'ControllerError', ['self.nlevels == 0'], 'zero levels'),
    (ct.NONMPI[0], 'controller_nonMPI.__init__', 'ControllerError', ['self.nlevels > 1', 'self.nsweeps[-1] > 1'], 'several sweeps on the coarsest level'),
    ('pySDC/core/collocation.py', 'CollBase.__init__', 'CollocationError', ['num_nodes > 0'], 'no nodes'),
    ('pySDC/core/collocation.py', 'CollBase.__init__', 'CollocationError', ['tleft < tright'], 'empty interval'),
    (CTRL, 'ParaDiagController.__init__', 'ParameterError', ["'alpha' not in controller_params"], 'ParaDiag without alpha'),
]


@rule('C20', 'C20.R2', 'guards that must raise: missing essential entries and incompatible options are rejected at construction', floor=14)
def r2(ctx, R):
    repo = ctx.repo
    for rel, name, err, mention, what in GUARDS:
        cn, meth = name.split('.', 1)
        ci = repo.cls(rel, cn)
        fn = ci.methods.get(meth) or ci.methods.get(meth.replace(f'_{cn}', ''))
        if fn is None:
            raise AnalysisError(f'{rel}:{name} vanished')
        w = f'{rel}:{cn}.{fn.name}'
        R.fn(w)
        hits = _raises(fn, err, mention)
        R.check(bool(hits), f'{cn}.{fn.name} :: {what} -> {err}', w, f'raise {err} under a guard mentioning {mention}', hits[:1] or 'no such raise')
        if what == 'PFASST without the right end point as node':
            cfg = FuncCFG(fn)
            rs = [s_ for s_ in cfg.stmt_of.values() if isinstance(s_, ast.Raise) and 'right_is_node' in ' '.join(facts.guard_strings(cfg, s_))]
            its = [ast.unparse(l.iter) for s_ in rs for l in cfg.loops_of[id(s_)] if isinstance(l, ast.For)]
            R.check(its == ['self.MS', 'S.levels'], f'{cn}.{fn.name} :: the end-point requirement is checked on every level of every step', w, 'for S in self.MS: for L in S.levels: ...', its)


@rule('C20', 'C20.R3', 'frozen classes freeze on every normal exit of __init__; __setattr__ rejects undeclared names; only the sanctioned __dict__ bypasses exist', floor=17)
def r3(ctx, R):
    repo = ctx.repo
    fz = repo.cls(HELP, 'FrozenClass')
    for ci in repo.subclasses(fz, strict=True):
        if not repo.is_library(ci):
            continue
        fn = ci.methods.get('__init__')
        w = f'{ci.module.relpath}:{ci.name}.__init__'
        if fn is None:
            R.bad(f'{ci.name} :: has an __init__ that freezes', w, '__init__ ending in self._freeze()', 'no __init__')
            continue
        R.fn(w)
        cfg = FuncCFG(fn)
        fr = [n for n in cfg.stmt_of if any(ast.unparse(c.func) == 'self._freeze' for c in cfg.calls_at(n))]
        ok = bool(fr) and cfg.must_pass(ENTRY, EXIT, fr)
        # no new attribute is declared after the freeze (a store after it could only succeed for declared names)
        R.check(ok, f'{ci.name}.__init__ :: self._freeze() on every normal exit', w, 'every path to return passes _freeze()', f'{len(fr)} freeze call(s)')
    fn = repo.func(HELP, 'FrozenClass.__setattr__')
    w = f'{HELP}:FrozenClass.__setattr__'
    R.fn(w)
    cfg = FuncCFG(fn)
    rs = [(n, s) for n, s in cfg.stmt_of.items() if isinstance(s, ast.Raise) and 'TypeError' in ast.unparse(s)]
    ok = len(rs) == 1
    if ok:
        t = cfg.guards[id(rs[0][1])]
        ok = len(t) == 1 and t[0][1] and nnf(t[0][0]) == ('and', tuple(sorted(['self._FrozenClass__isfrozen' if False else 'self.__isfrozen', ('not', 'hasattr(self, key)'), 'key not in type(self).attrs'], key=repr)))
        st = [n for n, s in cfg.stmt_of.items() if isinstance(s, ast.Expr) and ast.unparse(s.value) == 'object.__setattr__(self, key, value)']
        ok = ok and len(st) == 1 and not cfg.reachable(rs[0][0], st[0])
    R.check(ok, 'FrozenClass.__setattr__ :: raises TypeError when frozen and the name is neither declared nor allow-listed, before storing', w, 'if frozen and not (key in attrs or hasattr(self, key)): raise TypeError', [facts.guard_strings(cfg, s) for _, s in rs])
    # the allow-list is per class: a fresh list bound unconditionally when the subclass is created, never a shared object
    fn = repo.func(HELP, 'FrozenClass.__init_subclass__')
    w = f'{HELP}:FrozenClass.__init_subclass__'
    R.fn(w)
    cfg = FuncCFG(fn)
    at = [s_ for s_ in cfg.stmt_of.values() if isinstance(s_, (ast.Assign, ast.AugAssign)) and any(ast.unparse(t) == 'cls.attrs' for t in (s_.targets if isinstance(s_, ast.Assign) else [s_.target]))]
    fresh = len(at) == 1 and isinstance(at[0], ast.Assign) and (isinstance(at[0].value, ast.List) and not at[0].value.elts or ast.unparse(at[0].value) == 'list()') and not cfg.guards.get(id(at[0]))
    R.check(fresh, 'FrozenClass.__init_subclass__ :: every frozen class gets its OWN empty allow-list (names allowed on one class are not allowed on another)', w, 'cls.attrs = [] unconditionally, the only binding', [ast.unparse(s_) for s_ in at])
    others = []
    for m, ci, f in repo.all_functions():
        if (ci.name if ci else '', f.name) == ('FrozenClass', '__init_subclass__'):
            continue
        for s_ in walk_no_nested(f):
            tg = s_.targets if isinstance(s_, ast.Assign) else []
            if any(isinstance(t, ast.Attribute) and t.attr == 'attrs' and ast.unparse(t.value) in ('cls', 'type(self)', 'self') for t in tg) and m.relpath == HELP:
                others.append(f'{f.name}: {ast.unparse(s_)}')
    R.check(not others, 'FrozenClass :: the allow-list is rebound nowhere else (add_attr only extends the list of its own class)', HELP, 'no other `cls.attrs = ..`', others)
    # __dict__ stores: inventory
    allowed = {'ConvergenceController.set_step_status_variable': 'S.status.__dict__[key]', 'ConvergenceController.set_level_status_variable': 'L.status.__dict__[key]',
               'GenericSpectralLinear.setup_GPU': "self.__dict__['comm']"}
    for m, ci, f in repo.all_functions():
        for s in walk_no_nested(f):
            tg = s.targets if isinstance(s, ast.Assign) else [s.target] if isinstance(s, ast.AugAssign) else []
            for t in tg:
                if isinstance(t, ast.Subscript) and isinstance(t.value, ast.Attribute) and t.value.attr == '__dict__':
                    name = (ci.name + '.' if ci else '') + f.name
                    ok = allowed.get(name) == ast.unparse(t)
                    R.check(ok, f'{name} :: store through {ast.unparse(t)}', qual(m, ci, f), 'only the two status-variable setters (after add_attr) and the NCCL communicator wrapper write through __dict__', ast.unparse(t))
    for meth, setter in (('add_status_variable_to_step', 'set_step_status_variable'), ('add_status_variable_to_level', 'set_level_status_variable')):
        fn = repo.func(CCORE, f'ConvergenceController.{meth}')
        cfg = FuncCFG(fn)
        add = [n for n in cfg.stmt_of if any(isinstance(c.func, ast.Attribute) and c.func.attr == 'add_attr' for c in cfg.calls_at(n))]
        st = [n for n in cfg.stmt_of if any(ast.unparse(c.func) == f'self.{setter}' for c in cfg.calls_at(n))]
        ok = len(add) == 1 and len(st) == 1 and cfg.dominates(add[0], st[0])
        R.check(ok, f'ConvergenceController.{meth} :: add_attr(key) dominates the __dict__ bypass', f'{CCORE}:ConvergenceController.{meth}', 'declare, then set', f'{len(add)} add_attr, {len(st)} setter call(s)')


@rule('C20', 'C20.R4', 'read-only problem parameters: RegisterParams.__setattr__ raises ReadOnlyError; registration uses the sanctioned bypass', floor=2)
def r4(ctx, R):
    repo = ctx.repo
    rel = 'pySDC/core/common.py'
    fn = repo.func(rel, 'RegisterParams.__setattr__')
    cfg = FuncCFG(fn)
    rs = [(n, s) for n, s in cfg.stmt_of.items() if isinstance(s, ast.Raise) and 'ReadOnlyError' in ast.unparse(s)]
    st = [n for n, s in cfg.stmt_of.items() if isinstance(s, ast.Expr) and ast.unparse(s.value) == 'super().__setattr__(name, value)']
    ok = len(rs) == 1 and facts.guard_strings(cfg, rs[0][1]) == ['name in self._parNamesReadOnly'] and len(st) == 1 and not cfg.reachable(rs[0][0], st[0])
    R.check(ok, 'RegisterParams.__setattr__ :: ReadOnlyError for names in _parNamesReadOnly, before anything is stored', f'{rel}:RegisterParams.__setattr__', 'if name in self._parNamesReadOnly: raise ReadOnlyError(name)', [facts.guard_strings(cfg, s) for _, s in rs])
    fn = repo.func(rel, 'RegisterParams._makeAttributeAndRegister')
    src = ast.unparse(fn)
    ok = 'super().__setattr__(name, localVars[name])' in src and 'self._parNamesReadOnly = self._parNamesReadOnly.union(names)' in src
    R.check(ok, 'RegisterParams._makeAttributeAndRegister :: sets through super().__setattr__ and registers read-only names', f'{rel}:RegisterParams._makeAttributeAndRegister', 'super().__setattr__ ; _parNamesReadOnly.union(names) under readOnly', 'ok' if ok else src[-200:])


@rule('C20', 'C20.R5', 'list/scalar distribution: hierarchy length = longest list, entry min(level, len-1), scalars shared; each Level gets the parameters of its own index', floor=5)
def r5(ctx, R):
    repo = ctx.repo
    ci = repo.cls(STEP, 'Step')
    fn = ci.methods.get('__dict_to_list')
    if fn is None:
        raise AnalysisError('Step.__dict_to_list vanished')
    w = f'{STEP}:Step.__dict_to_list'
    R.fn(w)
    N = Normalizer(fn, inline_scalars=False)
    mv = [c for c in N.contribs if c.target == 'max_val']
    ok = sorted(c.rhs for c in mv) == ['1', 'max(max_val, len(v))'] and any(g == 'type(v) is list' for c in mv for g in c.guards)
    R.check(ok, '__dict_to_list :: number of levels = max(1, longest list)', w, 'max_val = max(max_val, len(v)) for list values', [c.describe() for c in mv])
    ld = [c for c in N.contribs if c.target == 'ld' and c.op == '=']
    R.check(len(ld) == 1 and ld[0].rhs == '[{} for _ in range(max_val)]', '__dict_to_list :: one dict per level', w, '[{} for _ in range(max_val)]', [c.rhs for c in ld])
    st = sorted((c.rhs, c.guards[-1]) for c in N.contribs if re.fullmatch(r'ld\[.+\]\[k\]', c.target))
    idx = None
    for c in N.contribs:
        m = re.fullmatch(r'ld\[(.+)\]\[k\]', c.target)
        if m:
            idx = m.group(1)
    lv_ = [l.target.id for l in walk_no_nested(fn) if isinstance(l, ast.For) and ast.unparse(l.iter) == 'range(len(ld))' and isinstance(l.target, ast.Name)]
    dvar = lv_[0] if len(lv_) == 1 else '?'
    want = sorted([('v', 'type(v) is not list'), ('v[min(i1 - 1, len(v) - 1)]', 'type(v) is list')])
    if idx != 'i1 - 1':
        want = [('level dict must be indexed by the level loop variable', idx)]
    R.check(st == want, '__dict_to_list :: scalars shared, list entry min(level, len-1) (last entry repeats)', w, want, st)
    gh = ci.methods.get('__generate_hierarchy')
    w = f'{STEP}:Step.__generate_hierarchy'
    R.fn(w)
    lv = [c for c in ast.walk(gh) if isinstance(c, ast.Call) and ast.unparse(c.func) == 'Level']
    ok = len(lv) == 1
    if ok:
        kw = {k.arg: ast.unparse(k.value) for k in lv[0].keywords}
        want = {'problem_class': "descr_list[l]['problem_class']", 'problem_params': "descr_list[l]['problem_params']", 'sweeper_class': "descr_list[l]['sweeper_class']",
                'sweeper_params': "descr_list[l]['sweeper_params']", 'level_params': "descr_list[l]['level_params']", 'level_index': 'l'}
        ok = kw == want
    R.check(ok, '__generate_hierarchy :: Level l receives entry l of all five lists and level_index = l', w, 'descr_list[l][..] for the same l', kw if lv else None)
    loops = [s for s in walk_no_nested(gh) if isinstance(s, ast.For) and ast.unparse(s.iter) == 'range(len(descr_list))']
    R.check(len(loops) == 1, '__generate_hierarchy :: one level per entry of the distributed description', w, 'for l in range(len(descr_list))', len(loops))


SETUP_EXC = {
    ('AdaptivityCollocation', 'control_order'): None,  # handled as finding F7
    ('EstimateExtrapolationErrorBase', '*'): 'derived keys (Taylor_order, estimate_iter, n, n_per_proc) are computed from the merged parameters after the merge',
    ('EstimateExtrapolationErrorNonMPI', '*'): 'inherits the derived keys of its base',
    ('AdaptivityForConvergedCollocationProblems', 'maxiter'): 'maxiter is derived from step_params after the merge when restart_at_maxiter is set',
    ('AdaptivityExtrapolationWithinQ', 'maxiter'): 'same (inherited)',
    ('AdaptivityCollocation', 'maxiter'): 'same (inherited), scaled by num_colls',
    ('AdaptivityCollocation', 'num_colls'): 'derived from adaptive_coll_params after the merge',
    ('AdaptiveCollocation', '*'): 'vary_keys_*/num_colls are derived from the list-valued user parameters',
}


@rule('C20', 'C20.R6', 'convergence controllers: instantiated once, ordered by control_order, iterated in that order; user parameters override defaults in every setup()', floor=70)
def r6(ctx, R):
    repo = ctx.repo
    fn = repo.func(CTRL, 'Controller.add_convergence_controller')
    w = f'{CTRL}:Controller.add_convergence_controller'
    R.fn(w)
    cfg = FuncCFG(fn)
    app = [(n, s) for n, s in cfg.stmt_of.items() if isinstance(s, ast.Expr) and 'self.convergence_controllers.append(convergence_controller(self, params, description))' == ast.unparse(s.value)]
    ok = len(app) == 1 and facts.guard_strings(cfg, app[0][1]) == ['convergence_controller not in [type(me) for me in self.convergence_controllers] or allow_double']
    R.check(ok, 'add_convergence_controller :: instantiates only if the class is not present yet (or allow_double)', w, 'append under `cls not in [type(me) ...] or allow_double`', [facts.guard_strings(cfg, s) for _, s in app])
    N = Normalizer(fn, inline_scalars=False)
    od = [c for c in N.contribs if c.target == 'self.convergence_controller_order']
    ok = len(od) == 1 and od[0].rhs == 'np.arange(len(self.convergence_controllers))[np.argsort(orders)]' and any(c.target == 'orders' and c.rhs == '[C.params.control_order for C in self.convergence_controllers]' for c in N.contribs)
    R.check(ok, 'add_convergence_controller :: order = argsort of control_order (ascending), recomputed after every insertion', w, 'np.arange(n)[np.argsort([C.params.control_order ...])]', [c.rhs for c in od])
    pr = [c for c in N.contribs if c.target == 'params']
    ok = len(pr) == 1 and pr[0].rhs == "{**({} if params is None else params), 'useMPI': self.useMPI}"
    R.check(ok, 'add_convergence_controller :: user params are passed on (only useMPI is set by the controller)', w, "{**params, 'useMPI': self.useMPI}", [c.rhs for c in pr])
    # every iteration over the convergence controllers uses the computed order
    want_iter = '[self.convergence_controllers[i] for i in self.convergence_controller_order]'
    n = 0
    for spec in ct.ALL:
        ci = repo.cls(spec[0], spec[1])
        for name, f in ci.methods.items():
            for l in walk_no_nested(f):
                if isinstance(l, ast.For) and re.search(r'self\.convergence_controllers\b', ast.unparse(l.iter)):
                    n += 1
                    R.check(ast.unparse(l.iter) == want_iter, f'{spec[1]}.{name} :: loop over convergence controllers follows convergence_controller_order', f'{spec[0]}:{spec[1]}.{name}', want_iter, ast.unparse(l.iter))
    if n < 20:
        raise AnalysisError(f'C20.R6: only {n} loops over the convergence controllers found')
    # setup(): the user-carrying part comes after the literal defaults
    base = repo.cls(CCORE, 'ConvergenceController')
    bfn = base.methods['setup']
    ret = [s for s in walk_no_nested(bfn) if isinstance(s, ast.Return)]
    ok = len(ret) == 1 and ast.unparse(ret[0].value) == "{**params, **description.get('convergence_controllers', {}).get(type(self), {})}"
    R.check(ok, 'ConvergenceController.setup :: returns the user parameters (constructor params, then the description entry)', f'{CCORE}:ConvergenceController.setup', "{**params, **description['convergence_controllers'][type(self)]}", [ast.unparse(r.value) for r in ret])
    for ci in repo.subclasses(base, strict=True):
        if not repo.is_library(ci):
            continue
        segs = setups.fold(repo, ci)
        last_user = max([i for i, s in enumerate(segs) if s.kind == 'user'] or [-1])
        w = f'{ci.module.relpath}:{ci.name}.setup'
        if last_user < 0:
            R.bad(f'{ci.name}.setup :: carries the user parameters', w, '**params or **super().setup(..) in the returned dict', 'user part missing')
            continue
        forced = [(s.kind, s.key, s.origin) for i, s in enumerate(segs) if i > last_user]
        if not forced:
            R.ok(f'{ci.name}.setup :: user parameters override every default', w, found=f'{sum(1 for s in segs if s.kind == "lit")} literal defaults before the user part')
            continue
        for kind, key, origin in forced:
            c = f'{ci.name}.setup :: key {key!r} is set after the user part (by {origin})'
            exc = SETUP_EXC.get((ci.name, key), SETUP_EXC.get((ci.name, '*'))) if (ci.name, key) in SETUP_EXC or (ci.name, '*') in SETUP_EXC else None
            if (ci.name, key) in SETUP_EXC and SETUP_EXC[(ci.name, key)] is None:
                R.bad(c, w, 'defaults first, user parameters last (a user value must win)', f'{kind} store of {key!r} overrides the user value')
            elif exc:
                R.exc(c, w, exc)
            else:
                R.bad(c, w, 'defaults first, user parameters last (a user value must win)', f'{kind} store of {key!r} overrides the user value')


DESCRIPTION_DICTS = {'params', 'description', 'descr', 'controller_params', 'level_params', 'sweeper_params', 'problem_params', 'pars', 'step_params', 'descr_new'}


@rule('C20', 'C20.R7', 'constructors do not consume the caller\'s description: no pop/del/clear on a description or parameter dict in core / controller / sweeper construction code', floor=1)
def r7(ctx, R):
    """A description is interpreted consistently only if constructing from it twice gives the same result: the fallback
    path of controller_nonMPI.__init__ (Step(description) per step when dill.copy fails) and every re-use of a description
    by the caller read the same dict again."""
    repo = ctx.repo
    n = 0
    for m, ci, fn in repo.all_functions():
        if not (m.relpath.startswith('pySDC/core/') or 'controller_classes' in m.relpath or 'sweeper_classes' in m.relpath):
            continue
        if fn.name not in ('__init__', 'setup', '__generate_hierarchy', '__dict_to_list', 'connect_levels', 'add_convergence_controller', 'setup_convergence_controllers'):
            continue
        n += 1
        bad = []
        for x in ast.walk(fn):
            if isinstance(x, ast.Call) and isinstance(x.func, ast.Attribute) and x.func.attr in ('pop', 'popitem', 'clear') and isinstance(x.func.value, ast.Name) and x.func.value.id in DESCRIPTION_DICTS:
                bad.append(ast.unparse(x)[:60])
            if isinstance(x, ast.Delete):
                for t in x.targets:
                    if isinstance(t, ast.Subscript) and isinstance(t.value, ast.Name) and t.value.id in DESCRIPTION_DICTS:
                        bad.append(ast.unparse(x)[:60])
        name = (ci.name + '.' if ci else '') + fn.name
        if bad:
            R.bad(f'{name} :: removes entries from a caller-owned parameter dict', qual(m, ci, fn), 'read (or copy) the description, never consume it', bad)
    R.ok('construction code :: scan for pop/del/clear on description dicts', 'pySDC/core + controller_classes + sweeper_classes', found=f'{n} construction functions scanned')
    pc = ast.parse("def __init__(self, params):\n    c = params.pop('collocation_class', None)\n").body[0]
    if not any(isinstance(x, ast.Call) and isinstance(x.func, ast.Attribute) and x.func.attr == 'pop' for x in ast.walk(pc)):
        raise AnalysisError('C20.R7 positive control broken')


EXACT_TESTS = [
    (STEP, 'Step._Step__generate_hierarchy', 'ParameterError', ["'dtype_u' in descr", "'dtype_f' in descr", 'key not in descr', "len(descr_list) > 1 and (not descr_new['space_transfer_class'])"]),
    ('pySDC/core/sweeper.py', 'Sweeper.__init__', 'ParameterError', ['key not in params']),
    (ct.NONMPI[0], 'controller_nonMPI.__init__', 'ControllerError', ["'predict' in controller_params", 'not L.sweep.coll.right_is_node', 'not all((len(S.levels) == len(self.MS[0].levels) for S in self.MS))', 'self.nlevels == 0', 'self.nlevels > 1 and self.nsweeps[-1] > 1']),
    ('pySDC/core/collocation.py', 'CollBase.__init__', 'CollocationError', ['not num_nodes > 0', 'not tleft < tright']),
    (CTRL, 'ParaDiagController.__init__', 'ParameterError', ["'alpha' not in controller_params.keys()"]),
]


@rule('C20', 'C20.R8', 'rejection guards are not narrowed: the condition directly in front of each tabled raise is exactly the tabled one (an extra conjunct would let an invalid setup through)', floor=13)
def r8(ctx, R):
    from ..norm import nnf
    repo = ctx.repo

    def canon(n):
        return ast.unparse(n)

    def atoms(nf):
        if isinstance(nf, tuple) and nf[0] == 'and':
            out = set()
            for k in nf[1]:
                out |= atoms(k)
            return out
        return {nf}

    for rel, name, err, tests in EXACT_TESTS:
        cn, meth = name.split('.', 1)
        ci = repo.cls(rel, cn)
        fn = ci.methods.get(meth) or ci.methods.get(meth.replace(f'_{cn}', ''))
        if fn is None:
            raise AnalysisError(f'{rel}:{name} vanished')
        w = f'{rel}:{cn}.{fn.name}'
        R.fn(w)
        cfg = FuncCFG(fn)
        inner = []
        for n, s in cfg.stmt_of.items():
            if isinstance(s, ast.Raise) and s.exc is not None and err in ast.unparse(s.exc):
                g = cfg.guards[id(s)]
                if g:
                    t, pol = g[-1]
                    inner.append(nnf(t, canon) if pol else nnf(ast.UnaryOp(ast.Not(), t), canon))
        for tst in tests:
            want = nnf(ast.parse(tst, mode='eval').body, canon)
            if want in inner:
                R.ok(f'{cn}.{fn.name} :: raise {err} directly under `{tst}`', w, found='exact')
                continue
            narrowed = [str(i) for i in inner if atoms(want) < atoms(i)]
            R.bad(f'{cn}.{fn.name} :: raise {err} directly under `{tst}`', w, f'the test is exactly {tst}', {'narrowed to': narrowed} if narrowed else {'tests found in front of the raises': [str(i)[:80] for i in inner]})


REGISTRIES = ('QDELTA_GENERATORS', 'QDELTA_GENERATORS_ALIASES', 'Q_GENERATORS', 'RK_SCHEMES')
_CONTROL_GET = "gen = QDELTA_GENERATORS.get(qd_type, type(cached))"


def _lenient_lookups(tree):
    return [ast.unparse(c) for c in ast.walk(tree) if isinstance(c, ast.Call) and isinstance(c.func, ast.Attribute) and c.func.attr in ('get', 'setdefault') and ast.unparse(c.func.value).split('.')[-1] in REGISTRIES and len(c.args) >= 2]


@rule('C20', 'C20.R9', 'names of preconditioners / schemes are looked up strictly: no registry lookup with a fallback value, the generator cache is reused only for a known alias of the cached generator (an unknown name must reach the raising lookup)', floor=4)
def r9(ctx, R):
    repo = ctx.repo
    R.check(_lenient_lookups(ast.parse(_CONTROL_GET)) == ['QDELTA_GENERATORS.get(qd_type, type(cached))'], 'positive control :: a registry lookup with a default is recognised in the embedded example', 'sa/rules/c20.py:_CONTROL_GET', 'one lenient lookup', _lenient_lookups(ast.parse(_CONTROL_GET)))
    found = []
    for m in repo.modules.values():
        if repo.is_library(m):
            found += [f'{m.relpath}: {x}' for x in _lenient_lookups(m.tree)]
    R.check(not found, 'library :: no .get(name, default) on a registry of preconditioners / quadrature generators / RK schemes', 'pySDC (library modules)', 'strict lookups REGISTRY[name] only', found)
    rel = 'pySDC/core/sweeper.py'
    fn = repo.func(rel, 'Sweeper.buildGenerator')
    rets = [ast.unparse(s.value) for s in ast.walk(fn) if isinstance(s, ast.Return)]
    R.fn(f'{rel}:Sweeper.buildGenerator')
    R.check(len(rets) == 1 and rets[0].startswith('QDELTA_GENERATORS[qdType]('), 'Sweeper.buildGenerator :: the name is resolved by a subscript lookup (KeyError for unknown names)', f'{rel}:Sweeper.buildGenerator', 'QDELTA_GENERATORS[qdType](..)', rets)
    qdelta_cache(ctx, R)


def qdelta_cache(ctx, R):
    repo = ctx.repo
    rel = 'pySDC/core/sweeper.py'
    for meth, attr in (('get_Qdelta_implicit', 'genQI'), ('get_Qdelta_explicit', 'genQE')):
        fn = repo.func(rel, f'Sweeper.{meth}')
        w = f'{rel}:Sweeper.{meth}'
        R.fn(w)
        ifs = [s for s in walk_no_nested(fn) if isinstance(s, ast.If) and any(isinstance(x, ast.Assign) and ast.unparse(x.targets[0] if not isinstance(x, ast.AnnAssign) else x.target) == f'self.{attr}' for x in ast.walk(s)) or isinstance(s, ast.If) and any(isinstance(x, ast.AnnAssign) and ast.unparse(x.target) == f'self.{attr}' for x in ast.walk(s))]
        test = ast.unparse(ifs[0].test) if len(ifs) == 1 else None
        want = f"not hasattr(self, '{attr}') or qd_type not in QDELTA_GENERATORS_ALIASES[type(self.{attr})]"
        R.check(test == want, f'Sweeper.{meth} :: the cached generator is reused only if the requested name is one of ITS aliases', w, want, test)
