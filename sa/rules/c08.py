"""C08 - MPI variants equal their serial counterparts under every schedule (structural necessary conditions).

Nothing of the MPI path can be executed in this sandbox (no mpi4py), so source inspection is the only evidence there is.
"""

import ast
import re

from ..cfg import FuncCFG, walk_no_nested, ENTRY, EXIT
from ..model import AnalysisError, ClassInfo, qual
from ..norm import Normalizer, bool_nf, nnf, guards_nnf
from ..runner import rule
from .. import controllers as ct
from .. import facts

CC = 'pySDC/implementations/convergence_controller_classes/'
CCORE = 'pySDC/core/convergence_controller.py'
MPI_REL, MPI_CN = ct.MPI[0], ct.MPI[1]

# E7 - API table
COLLECTIVE = {'bcast', 'Bcast', 'allreduce', 'Allreduce', 'reduce', 'Reduce', 'allgather', 'Allgather', 'gather', 'Gather', 'scatter', 'Scatter',
              'Barrier', 'barrier', 'Split', 'Ibcast', 'Free', 'Allgatherv', 'Alltoall', 'alltoall', 'Dup'}
P2P_SEND = {'send', 'Send', 'isend', 'Isend', 'Issend', 'issend', 'Ssend'}
P2P_RECV = {'recv', 'Recv', 'irecv', 'Irecv'}
REQUEST = {'Wait', 'wait', 'Test', 'test', 'Cancel', 'Waitall'}
RANK_ATOM = re.compile(r'\.rank\b|Get_rank\(\)|status\.(slot|first|last|prev_done|done|restart)\b|MPI_ROOT|\.prev\b|\.next\b')
SCOPE = ('pySDC/core/', 'controller_classes', 'sweeper_classes', 'convergence_controller_classes', 'transfer_classes', 'datatype_classes/mesh.py')

R1_EXC = {
    ('base_transfer_MPI.restrict', 'F.tau[CF.rank] is not None'): 'tau is allocated for all nodes by the same restrict of the finer pair: the test has the same value on every rank of the node communicator',
    ('generic_implicit_MPI.compute_end_point', 'L.tau[self.rank] is not None'): 'same: tau[r] is None on all ranks or on none',
    ('imex_1st_order_MPI.compute_end_point', 'L.tau[self.rank] is not None'): 'same',
    ('controller_MPI.check_iteration_estimate', '*'): 'interrupt-based iteration estimator - excluded by the property (schedule dependent by design)',
    ('controller_MPI.pfasst', '*'): 'interrupt-based iteration estimator (Ibcast) - excluded by the property',
    ('controller_MPI.run', 'not self.S.status.done'): 'this IS the rank-dependent iteration loop; what may be called inside it is decided by C08.R1b',
}


def _is_comm(recv):
    return re.search(r'comm|\bCF\b|\bCG\b', recv) is not None


def _raise_tests(fn):
    """tests of `if c: raise ...` early exits (error paths: the rank aborts the run)"""
    out = set()
    for s in walk_no_nested(fn):
        if isinstance(s, ast.If) and s.body and isinstance(s.body[-1], ast.Raise) and not s.orelse:
            out.add(f'not ({ast.unparse(s.test)})')
    return out


def _sites(cfg, fn, names, comm_only=True):
    out = []
    for n, s in cfg.stmt_of.items():
        for c in cfg.calls_at(n):
            if isinstance(c.func, ast.Attribute) and c.func.attr in names:
                recv = ast.unparse(c.func.value)
                if comm_only and not _is_comm(recv) and not (c.func.attr in ('bcast', 'isend', 'irecv') and re.search(r'\.(u|uend)\b', recv)):
                    continue
                out.append((n, c, recv))
    return out


def _collective_methods(repo, ci):
    """names of methods (resolved in the MRO) that contain a collective call directly"""
    out = set()
    for c in ci.mro:
        if isinstance(c, ClassInfo):
            for name, fn in c.methods.items():
                for x in ast.walk(fn):
                    if isinstance(x, ast.Call) and isinstance(x.func, ast.Attribute) and x.func.attr in COLLECTIVE and _is_comm(ast.unparse(x.func.value)):
                        out.add(name)
    return out


@rule('C08', 'C08.R1', 'no collective under a rank-dependent guard (deadlock: some ranks enter the collective, others do not)', floor=60)
def r1(ctx, R):
    repo = ctx.repo
    for m, ci, fn in repo.all_functions():
        if not any(x in m.relpath for x in SCOPE):
            continue
        cfg = None
        name = (ci.name + '.' if ci else '') + fn.name
        coll_m = _collective_methods(repo, ci) if ci else set()
        sites = []
        for x in ast.walk(fn):
            if isinstance(x, ast.Call) and isinstance(x.func, ast.Attribute):
                recv = ast.unparse(x.func.value)
                if x.func.attr in COLLECTIVE and (_is_comm(recv) or (x.func.attr == 'bcast' and re.search(r'\.(u\[0\]|uend)$', recv))):
                    sites.append((x, f'{recv}.{x.func.attr}'))
                elif recv == 'self' and x.func.attr in coll_m and x.func.attr != fn.name:
                    sites.append((x, f'self.{x.func.attr}() [contains a collective]'))
        if not sites:
            continue
        cfg = FuncCFG(fn)
        rt = _raise_tests(fn)
        w = qual(m, ci, fn)
        R.fn(w)
        k = {}
        for call, label in sites:
            st = [s for n, s in cfg.stmt_of.items() if any(y is call for e in cfg.header_exprs(s) for y in ast.walk(e))]
            if not st:
                continue
            gs = [g for g in facts.guard_strings(cfg, st[0]) if g not in rt and 'force_done' not in g]
            loops = []
            for l in cfg.loops_of.get(id(st[0]), []):
                loops.append(ast.unparse(l.test) if isinstance(l, ast.While) else ast.unparse(l.iter))
            dep = [g for g in gs + loops if RANK_ATOM.search(g)]
            i = k.get(label, 0)
            k[label] = i + 1
            c = f'{name} :: {label} #{i}'
            if not dep:
                R.ok(c, w, found='guards are rank independent: ' + (', '.join(gs + loops)[:80] or 'none'))
                continue
            exc = [R1_EXC.get((name, d), R1_EXC.get((name, '*'))) for d in dep]
            if all(exc):
                R.exc(c, w, exc[0])
            else:
                R.bad(c, w, 'a guard that has the same value on every rank of the communicator', dep)
    # `while active` in controller_MPI.run: the loop condition is rank dependent by construction
    R.exc('controller_MPI.run :: while active (collectives on comm_active inside)', f'{MPI_REL}:controller_MPI.run', 'inactive ranks were split off: all members of comm_active share `active` (Split(active) after every block)')


TIME_COLLECTIVE_OK = {
    ('CheckConvergence.communicate_convergence', 'controller.params.all_to_done'): 'the synchronising collective: under all_to_done it makes `done` uniform, so every rank leaves the iteration loop in the same iteration',
}


@rule('C08', 'C08.R1b', 'collectives on the TIME communicator reachable from the rank-dependent iteration loop (while not done) must be the synchronising one', floor=5)
def r1b(ctx, R):
    repo = ctx.repo
    base = repo.cls(CCORE, 'ConvergenceController')
    entry = ['post_iteration_processing', 'convergence_control', 'pre_iteration_processing', 'post_spread_processing', 'get_new_step_size', 'determine_restart', 'check_iteration_status']
    seen = set()
    for ci in repo.subclasses(base):
        if not repo.is_library(ci):
            continue
        # methods reachable from the entry points inside the class (depth <= 3)
        reach, frontier = set(), set(entry)
        for _ in range(4):
            nxt = set()
            for mname in frontier:
                r = repo.resolve(ci, mname)
                if r is None or (r[0].name, mname) in reach:
                    continue
                reach.add((r[0].name, mname))
                for x in ast.walk(r[1]):
                    if isinstance(x, ast.Call) and isinstance(x.func, ast.Attribute) and ast.unparse(x.func.value) == 'self':
                        nxt.add(x.func.attr)
            frontier = nxt
        for owner_name, mname in sorted(reach):
            owner = [c for c in ci.mro if isinstance(c, ClassInfo) and c.name == owner_name][0]
            fn = owner.methods.get(mname)
            if fn is None or (owner.qname, mname) in seen:
                continue
            seen.add((owner.qname, mname))
            cfg = FuncCFG(fn)
            for n, call, recv in _sites(cfg, fn, COLLECTIVE):
                if recv != 'comm':  # the time communicator is handed down as `comm`; self.comm / L.sweep.comm are space communicators
                    continue
                local = [ast.unparse(s_.value) for s_ in walk_no_nested(fn) if isinstance(s_, ast.Assign) and ast.unparse(s_.targets[0]) == 'comm']
                if any('sweep' in v for v in local):
                    continue  # `comm = L.sweep.comm`: the node (space) communicator under a local name
                name = f'{owner.name}.{mname}'
                w = f'{owner.module.relpath}:{name}'
                R.fn(w)
                gs = facts.guard_strings(cfg, cfg.stmt_of[n])
                c = f'{name} :: comm.{call.func.attr} inside the iteration loop'
                ok_key = [k for k in TIME_COLLECTIVE_OK if k[0] == name and k[1] in gs]
                if ok_key:
                    R.exc(c, w, TIME_COLLECTIVE_OK[ok_key[0]])
                else:
                    R.bad(c, w, 'no collective on the time communicator inside `while not self.S.status.done` (trip count differs between ranks) unless it is the one that synchronises `done`', f'guards {gs}')
    fn = repo.func(MPI_REL, 'controller_MPI.run')
    loops = [ast.unparse(l.test) for l in walk_no_nested(fn) if isinstance(l, ast.While)]
    R.check('not self.S.status.done' in loops, 'controller_MPI.run :: the iteration loop is `while not self.S.status.done` (rank-dependent trip count)', f'{MPI_REL}:controller_MPI.run', 'while not self.S.status.done', loops)


def _kw(call):
    return {k.arg: ast.unparse(k.value) for k in call.keywords if k.arg}


@rule('C08', 'C08.R2', 'point-to-point pairing: every send site has a receive site with the mirrored guard, peer and the same tag / buffer shape', floor=6)
def r2(ctx, R):
    repo = ctx.repo
    # (1) forward transfer of the controller
    sf = repo.func(MPI_REL, 'controller_MPI.send_full')
    rf = repo.func(MPI_REL, 'controller_MPI.recv_full')
    rc = repo.func(MPI_REL, 'controller_MPI.recv')
    cs, cr = FuncCFG(sf), FuncCFG(rf)
    snd = [(n, c) for n in cs.stmt_of for c in cs.calls_at(n) if isinstance(c.func, ast.Attribute) and c.func.attr == 'isend']
    rcv = [(n, c) for n in cr.stmt_of for c in cr.calls_at(n) if ast.unparse(c.func) == 'self.recv']
    ok = len(snd) == 1 and len(rcv) == 1
    if ok:
        ks, kr = _kw(snd[0][1]), _kw(rcv[0][1])
        gs = [g for g in facts.guard_strings(cs, cs.stmt_of[snd[0][0]]) if 'force_done' not in g]
        gr = guards_nnf(facts.guard_strings(cr, cr.stmt_of[rcv[0][0]]))
        ok = ks.get('dest') == 'self.S.next' and kr.get('source') == 'self.S.prev' and ks.get('tag') == kr.get('tag') == 'level * 100 + self.S.status.iter'
        ok = ok and gs == ['not self.S.status.last'] and gr == guards_nnf(['not self.S.status.first and not self.S.status.prev_done'])
        ir = [c for c in ast.walk(rc) if isinstance(c, ast.Call) and isinstance(c.func, ast.Attribute) and c.func.attr == 'irecv']
        ok = ok and len(ir) == 1 and _kw(ir[0]).get('source') == 'source' and _kw(ir[0]).get('tag') == 'tag' and ast.unparse(snd[0][1].func.value) == 'self.S.levels[level].uend' and ast.unparse(ir[0].func.value) == 'target.u[0]'
    R.check(ok, 'controller_MPI :: uend.isend(next, tag=level*100+iter) if not last  <->  u[0].irecv(prev, same tag) if not first and not prev_done', f'{MPI_REL}:controller_MPI.send_full/recv_full', 'mirrored guard, peer and tag', {'send': _kw(snd[0][1]) if snd else None, 'recv': _kw(rcv[0][1]) if rcv else None})
    # (2) default tags of the convergence-controller helpers
    ci = repo.cls(CCORE, 'ConvergenceController')
    tags = {}
    for m in ('send', 'recv', 'Send', 'Recv'):
        fn = ci.methods[m]
        t = [ast.unparse(s.value) for s in walk_no_nested(fn) if isinstance(s, ast.Assign) and ast.unparse(s.targets[0]) == "kwargs['tag']"]
        tags[m] = t
    R.check(all(v == ["kwargs.get('tag', abs(self.params.control_order))"] for v in tags.values()), 'ConvergenceController.send/recv/Send/Recv :: the default tag is abs(control_order) on both sides', f'{CCORE}:ConvergenceController', "kwargs.get('tag', abs(self.params.control_order))", tags)
    # (3..) status messages of convergence controllers: Send(slot+1) if not last <-> Recv(slot-1) if not first and not prev_done
    for rel, name, sname, rname, buf in STATUS_PAIRS:
        fn = repo.func(rel, name)
        w = f'{rel}:{name}'
        R.fn(w)
        cfg = FuncCFG(fn)
        N = Normalizer(fn, inline_scalars=False)
        s_ = [(n, c) for n in cfg.stmt_of for c in cfg.calls_at(n) if ast.unparse(c.func) == f'self.{sname}']
        r_ = [(n, c) for n in cfg.stmt_of for c in cfg.calls_at(n) if ast.unparse(c.func) == f'self.{rname}']
        ok = len(s_) == 1 and len(r_) == 1
        detail = {}
        if ok:
            ks, kr = _kw(s_[0][1]), _kw(r_[0][1])
            dest = ks.get('dest') or (ast.unparse(s_[0][1].args[1]) if len(s_[0][1].args) > 1 else None)
            src = kr.get('source') or (ast.unparse(r_[0][1].args[1]) if len(r_[0][1].args) > 1 else None)
            gS = [g for g in facts.guard_strings(cfg, cfg.stmt_of[s_[0][0]]) if 'status.iter' not in g and 'all_to_done' not in g and 'force_done' not in g]
            gR = [g for g in facts.guard_strings(cfg, cfg.stmt_of[r_[0][0]]) if 'status.iter' not in g and 'all_to_done' not in g and 'force_done' not in g]
            aS, aR = _flat(guards_nnf(gS)), _flat(guards_nnf(gR))
            detail = {'dest': dest, 'source': src, 'send guard': sorted(map(str, aS)), 'recv guard': sorted(map(str, aR))}
            ok = dest == 'S.status.slot + 1' and src == 'S.status.slot - 1' and ('not', 'S.status.last') in aS and ('not', 'S.status.first') in aR and ('not', 'S.status.prev_done') in aR
            # extra conditions must agree on both sides (e.g. `not restart_from_first_step`)
            extraS = aS - {('not', 'S.status.last')}
            extraR = aR - {('not', 'S.status.first'), ('not', 'S.status.prev_done')}
            ok = ok and extraS == extraR and ks.get('tag') == kr.get('tag')
            if buf:
                bufs = [c.rhs for c in N.contribs if c.target == 'buff' and c.rhs and c.rhs.startswith('np.empty(')]
                ok = ok and len(bufs) == 2 and set(bufs) == {buf}
                detail['buffers'] = bufs
        R.check(ok, f'{name} :: {sname}(slot+1) if not last  <->  {rname}(slot-1) if not first and not prev_done; same extra conditions, tag and buffer', w, 'mirrored guard/peer, identical tag, identical buffer dtype and shape', detail)
    # (6) iteration-estimator diff message (tag 999) - pairing only
    fn = repo.func(MPI_REL, 'controller_MPI.check_iteration_estimate')
    tg = sorted({_kw(c).get('tag') for c in ast.walk(fn) if isinstance(c, ast.Call) and isinstance(c.func, ast.Attribute) and c.func.attr in ('Irecv', 'Issend')})
    R.check(tg == ['999'], 'controller_MPI.check_iteration_estimate :: Issend/Irecv of the diff use the same tag', f'{MPI_REL}:controller_MPI.check_iteration_estimate', ['999'], tg)


STATUS_PAIRS = [
    (CC + 'check_convergence.py', 'CheckConvergence.communicate_convergence', 'Send', 'Recv', 'np.empty(1, dtype=bool)'),
    (CC + 'basic_restarting.py', 'BasicRestartingMPI.determine_restart', 'Send', 'Recv', 'np.empty(3, dtype=bool)'),
    (CC + 'estimate_embedded_error.py', 'EstimateEmbeddedErrorLinearizedMPI.post_iteration_processing', 'send', 'recv', None),
]


@rule('C08', 'C08.R12', 'forward status messages carry the FINAL value: whatever the send reads (status fields, locals) is not written again after the send, so the successor is told `done and prev_done` / the final restart decision, never the raw local flag', floor=3)
def r12(ctx, R):
    repo = ctx.repo
    for rel, name, sname, rname, buf in STATUS_PAIRS:
        fn = repo.func(rel, name)
        w = f'{rel}:{name}'
        R.fn(w)
        cfg = FuncCFG(fn)
        s_ = [(n, c) for n in cfg.stmt_of for c in cfg.calls_at(n) if ast.unparse(c.func) == f'self.{sname}']
        if len(s_) != 1:
            R.check(False, f'{name} :: exactly one forward {sname}', w, 1, len(s_))
            continue
        late, src = _late_writes(cfg, s_[0][0], s_[0][1])
        R.check(bool(src), f'{name} :: the payload of the {sname} is read from named sources', w, 'at least one source', sorted(src))
        R.check(not late, f'{name} :: the value sent forward is final (no field of the payload is written after the {sname})', w, 'no assignment to a payload source is reachable from the send (guard-exclusive arms excepted)', late)


def _chains(e):
    """maximal Name/Attribute chains loaded in expression e"""
    out = set()

    def go(n):
        if isinstance(n, (ast.Name, ast.Attribute)):
            b = n
            while isinstance(b, ast.Attribute):
                b = b.value
            if isinstance(b, ast.Name):
                out.add(ast.unparse(n))
                return
        for c in ast.iter_child_nodes(n):
            go(c)

    go(e)
    return out


def _late_writes(cfg, send_node, call):
    kw = {k.arg: k.value for k in call.keywords}
    src = set()
    bufnames = set()
    if 'buffer' in kw:
        b = kw['buffer']
        b = b.elts[0] if isinstance(b, (ast.List, ast.Tuple)) and b.elts else b
        if isinstance(b, ast.Name):
            bufnames.add(b.id)
    if 'data' in kw:
        src |= _chains(kw['data'])
    for n, s in cfg.stmt_of.items():
        if isinstance(s, ast.Assign) and isinstance(s.targets[0], ast.Subscript) and isinstance(s.targets[0].value, ast.Name) and s.targets[0].value.id in bufnames and cfg.reachable(n, send_node):
            src |= _chains(s.value)
    src -= {'self', 'np', 'comm'}
    gsend = _flat(guards_nnf(facts.guard_strings(cfg, cfg.stmt_of[send_node])))
    late = []
    for n, s in cfg.stmt_of.items():
        if n == send_node or not isinstance(s, (ast.Assign, ast.AugAssign)):
            continue
        tg = s.targets if isinstance(s, ast.Assign) else [s.target]
        names = {ast.unparse(e) for t in tg for e in (t.elts if isinstance(t, ast.Tuple) else [t])}
        if not (names & src):
            continue
        if not cfg.reachable(send_node, n) or cfg.dominates(n, send_node):
            continue
        gw = _flat(guards_nnf(facts.guard_strings(cfg, s)))
        if any((('not', a) in gw) for a in gsend if not isinstance(a, tuple)) or any((isinstance(a, tuple) and a[0] == 'not' and a[1] in gw) for a in gsend):
            continue
        late.append(f'line {s.lineno}: {ast.unparse(s)[:80]}')
    return late, src


def _flat(nf):
    if isinstance(nf, tuple) and nf[0] == 'and':
        return set(nf[1])
    return {nf}


@rule('C08', 'C08.R3', 'wait before reuse: the previous non-blocking send of a level is completed before its buffer (uend) is recomputed; DONE waits or cancels every open request', floor=4)
def r3(ctx, R):
    repo = ctx.repo
    fn = repo.func(MPI_REL, 'controller_MPI.send_full')
    w = f'{MPI_REL}:controller_MPI.send_full'
    R.fn(w)
    cfg = FuncCFG(fn)
    wait = [(n, c) for n in cfg.stmt_of for c in cfg.calls_at(n) if ast.unparse(c.func) == 'self.wait_with_interrupt' and _kw(c).get('request') == 'self.req_send[level]']
    cep = [n for n in cfg.stmt_of if any(ast.unparse(c.func).endswith('.sweep.compute_end_point') for c in cfg.calls_at(n))]
    snd = [(n, s) for n, s in cfg.stmt_of.items() if isinstance(s, ast.Assign) and ast.unparse(s.targets[0]) == 'self.req_send[level]']
    pre = [x for x in wait if 'not blocking' in facts.guard_strings(cfg, cfg.stmt_of[x[0]])]
    post = [x for x in wait if 'blocking' in facts.guard_strings(cfg, cfg.stmt_of[x[0]])]
    ok = len(pre) == 1 and len(cep) == 1 and len(snd) == 1 and len(post) == 1
    if ok:
        # non-blocking: wait(previous) -> recompute uend -> isend ; blocking: isend -> wait
        ok = not cfg.reachable(cep[0], pre[0][0]) and cfg.reachable(pre[0][0], cep[0]) and cfg.dominates(cep[0], snd[0][0]) and cfg.dominates(snd[0][0], post[0][0])
        ok = ok and 'isend(' in ast.unparse(snd[0][1].value) and ast.unparse(snd[0][1].value).startswith('self.S.levels[level].uend.isend(')
    R.check(ok, 'controller_MPI.send_full :: wait(req_send[level]) (if not blocking) precedes compute_end_point(), which precedes isend; a blocking send waits right after posting', w, 'wait -> recompute uend -> isend (-> wait if blocking); the request is stored in req_send[level]', {'pre-waits': len(pre), 'end point': len(cep), 'isend': len(snd), 'post-waits': len(post)})
    # every caller that sweeps after a non-blocking send goes through send_full again (no direct isend elsewhere)
    direct = []
    ci = repo.cls(MPI_REL, MPI_CN)
    for name, f in ci.methods.items():
        if name == 'send_full':
            continue
        for c in ast.walk(f):
            if isinstance(c, ast.Call) and isinstance(c.func, ast.Attribute) and c.func.attr in ('isend', 'Isend', 'Issend') and 'uend' in ast.unparse(c.func.value):
                direct.append(name)
    R.check(not direct, 'controller_MPI :: uend is only ever sent through send_full', MPI_REL, 'no other isend of uend', direct)
    # DONE arm
    _, hs = ct.handler_table(repo, ct.MPI)
    h = hs['IT_CHECK']
    R.fn(h.where)
    done = [(n, g) for n, v, g, s in h.stage_writes() if v == 'DONE']
    reqs = {'self.req_send': False, 'self.req_status': False, 'self.req_diff': False}
    for arm, meth in (("not self.params.use_iteration_estimator", 'Wait'), ("not (not self.params.use_iteration_estimator)", 'Cancel')):
        found = set()
        for n in h.cfg.stmt_of:
            for c in h.cfg.calls_at(n):
                if isinstance(c.func, ast.Attribute) and c.func.attr == meth and arm in h.guard_strs(n):
                    r_ = ast.unparse(c.func.value)
                    if r_ == 'req':
                        lp = [ast.unparse(l.iter) for l in h.cfg.loops_of[id(h.cfg.stmt_of[n])]]
                        r_ = lp[-1] if lp else r_
                    found.add(r_)
        ok = found == set(reqs)
        R.check(ok, f'controller_MPI.it_check :: the DONE arm {meth}s req_send[*], req_status and req_diff ({"normal" if meth == "Wait" else "interrupt estimator"} mode)', h.where, sorted(reqs), sorted(found))


@rule('C08', 'C08.R4', 'request retention (report only): results of non-blocking sends that are discarded', floor=1, tier='quick')
def r4(ctx, R):
    repo = ctx.repo
    n = 0
    for m, ci, fn in repo.all_functions():
        if not any(x in m.relpath for x in SCOPE):
            continue
        for s in walk_no_nested(fn):
            if isinstance(s, ast.Expr) and isinstance(s.value, ast.Call) and ast.unparse(s.value.func) in ('self.Send', 'self.send'):
                kw = _kw(s.value)
                if kw.get('blocking') != 'True':
                    n += 1
                    R.note(f'{(ci.name + ".") if ci else ""}{fn.name} :: {ast.unparse(s.value.func)}(..) non-blocking, request discarded', qual(m, ci, fn), 'the buffer is a local that is never rewritten, so the statement of C08 is not violated; the request can never be completed or cancelled')
    R.ok('scan for discarded requests', 'run-time modules', found=f'{n} site(s) reported as NOTE')


def _cmp_table(fn):
    """(sorted operand strings) -> set of operators, for comparisons between a status field and a parameter"""
    out = {}
    for x in walk_no_nested(fn):
        if isinstance(x, ast.Compare) and len(x.ops) == 1:
            l, r = ast.unparse(x.left), ast.unparse(x.comparators[0])
            if ('status.' in l and 'params.' in r) or ('status.' in r and 'params.' in l):
                s = bool_nf(x)
                m = re.match(r'^(.*) (<=|<|==|!=) (.*)$', s)
                if m:
                    key = tuple(sorted([m.group(1), m.group(3)]))
                    out.setdefault(key, set()).add((m.group(1), m.group(2), m.group(3)))
    return out


@rule('C08', 'C08.R5', 'sibling agreement serial <-> MPI: stage graph, callbacks, end point in the DONE arm, dispatch names, comparison operators', floor=20)
def r5(ctx, R):
    repo = ctx.repo
    _, hn = ct.handler_table(repo, ct.NONMPI)
    _, hm = ct.handler_table(repo, ct.MPI)
    R.check(sorted(hn) == sorted(hm), 'controller_nonMPI / controller_MPI :: same stages', ct.MPI[0], sorted(hn), sorted(hm))
    for stage in sorted(set(hn) & set(hm)):
        a, b = hn[stage], hm[stage]
        sa = {v for _, v, _, _ in a.stage_writes()}
        sb = {v for _, v, _, _ in b.stage_writes()}
        R.check(sa == sb, f'{stage} :: successor stages agree', b.where, sorted(sa), sorted(sb))
        ea = sorted({cb for _, cb, _ in a.emissions()} - {'pre_comm', 'post_comm'})
        eb = sorted({cb for _, cb, _ in b.emissions()} - {'pre_comm', 'post_comm'})
        R.check(ea == eb, f'{stage} :: callbacks emitted agree', b.where, ea, eb)
        if stage.startswith('IT_') and stage != 'IT_CHECK':
            na = sorted(re.sub(r'^self\.', '', ast.unparse(c.func.value)).replace('self.S.', 'S.') for _, c in a.calls('update_nodes'))
            nb = sorted(ast.unparse(c.func.value).replace('self.S.', 'S.') for _, c in b.calls('update_nodes'))
            R.check(na == nb, f'{stage} :: the same levels are swept', b.where, na, nb)
    # DONE arm of IT_CHECK: the serial controller recomputes the end point after the last receive
    a, b = hn['IT_CHECK'], hm['IT_CHECK']
    ca = [n for n, c in a.calls('compute_end_point') if any(re.search(r'not \(not \(?(self\.)?S\.status\.done', g) for g in a.guard_strs(n))]
    cb = [n for n, c in b.calls('compute_end_point') if any(re.search(r'not \(not \(?(self\.)?S\.status\.done', g) for g in b.guard_strs(n))]
    if not ca:
        raise AnalysisError('controller_nonMPI.it_check: compute_end_point() in the done arm not found')
    R.check(bool(cb), 'controller_MPI.it_check :: end point recomputed in the DONE arm (after the last receive), as in the serial controller', b.where, 'S.levels[0].sweep.compute_end_point() before post_step', 'missing: uend sent to the next block was computed in send_full BEFORE recv_full')
    # initial guess names
    sp = repo.func('pySDC/core/sweeper.py', 'Sweeper.predict')
    mp = repo.func('pySDC/implementations/sweeper_classes/generic_implicit_MPI.py', 'SweeperMPI.predict')
    da = [c for c in facts.dispatch_chains(sp) if c['subject'].endswith('initial_guess')]
    db = [c for c in facts.dispatch_chains(mp) if c['subject'].endswith('initial_guess')]
    ok = len(da) == 1 and len(db) == 1 and set(db[0]['names']) <= set(da[0]['names']) and db[0]['else_kind'] == 'raise'
    R.check(ok, 'Sweeper.predict / SweeperMPI.predict :: MPI accepts a subset of the initial-guess names and rejects the rest', 'pySDC/implementations/sweeper_classes/generic_implicit_MPI.py:SweeperMPI.predict', sorted(da[0]['names']) if da else None, {'names': sorted(db[0]['names']) if db else None, 'else': db[0]['else_kind'] if db else None})
    # comparison operators of sibling convergence controllers
    sib = [(CC + 'basic_restarting.py', 'BasicRestartingNonMPI', 'BasicRestartingMPI'), (CC + 'spread_step_sizes.py', 'SpreadStepSizesBlockwiseNonMPI', 'SpreadStepSizesBlockwiseMPI'),
           (CC + 'estimate_embedded_error.py', 'EstimateEmbeddedErrorLinearizedNonMPI', 'EstimateEmbeddedErrorLinearizedMPI')]
    for rel, s_, m_ in sib:
        cs, cm = repo.cls(rel, s_), repo.cls(rel, m_)
        for meth in sorted(set(cs.methods) & set(cm.methods)):
            ta, tb = _cmp_table(cs.methods[meth]), _cmp_table(cm.methods[meth])
            for key in sorted(set(ta) | set(tb)):
                ops_a = ta.get(key, set())
                ops_b = tb.get(key, set())
                w = f'{rel}:{m_}.{meth}'
                if not ops_a:
                    continue
                extra = ops_b - ops_a
                R.check(not extra, f'{m_}.{meth} :: comparisons of {key} use the operators of the serial sibling', w, sorted(ops_a), sorted(extra) or sorted(ops_b))


@rule('C08', 'C08.R6', 'node-parallel algebra equals the serial formula: MPI sweepers (signatures shared with C02) and base_transfer_MPI (reference normal forms incl. the Reduce payloads)', floor=9)
def r6(ctx, R):
    import json
    import os
    from . import c02
    from .. import sweepers as sw
    from ..sig import Signature

    repo = ctx.repo
    spec = c02._spec()
    for meth in ('integrate', 'update_nodes', 'compute_end_point'):
        c02._check_all(R, repo, sw.QD_MPI, meth, spec)
    with open(os.path.join(os.path.dirname(os.path.dirname(__file__)), 'specs', 'transfer_mpi_signatures.json')) as fh:
        tspec = json.load(fh)['signatures']
    rel = 'pySDC/implementations/transfer_classes/BaseTransferMPI.py'
    for m in ('restrict', 'prolong', 'prolong_f'):
        fn = repo.func(rel, f'base_transfer_MPI.{m}')
        w = f'{rel}:base_transfer_MPI.{m}'
        R.fn(w)
        sig = Signature(fn, rename=sw.role_renames(fn))
        lines = [l.text() for l in sig.lines if re.search(r'^(v\d+|self\.(fine|coarse)\.)', l.target)]
        calls = [f'CALL {sig._rn(c[0])} | {", ".join(map(repr, c[1]))} | {" and ".join(c[2])}' for c in sig.N.calls if re.match(r'^self\.comm_(fine|coarse)\.(Reduce|Allreduce|Bcast)\(', c[0])]
        found = lines + calls
        exp = tspec[f'base_transfer_MPI.{m}']['lines']
        missing = [e for e in exp if e not in found]
        extra = [f for f in found if f not in exp]
        if not missing and not extra:
            # dependency order of the assignments (calls are positioned by their loops/guards only)
            df = c02._deps([t for t in found if not t.startswith('CALL')])
            de = c02._deps([t for t in exp if not t.startswith('CALL')])
            R.check(df == de, f'base_transfer_MPI.{m} :: normal form and data-dependency order equal the reference', w, 'same def-use order', sorted(de - df)[:3] + sorted(df - de)[:3])
        else:
            R.bad(f'base_transfer_MPI.{m} :: normal form equals the reference', w, missing[:4], extra[:4])


@rule('C08', 'C08.R7', 'MPI flavours of the convergence controllers implement the rule of their serial sibling (retry counter re-mapping, single source of the block step size, Tend limit) - shared with C09.R4/R5/R10', floor=10)
def r7(ctx, R):
    from . import c09
    c09.r4(ctx, R)
    c09.r5(ctx, R)
    c09.r10(ctx, R)


@rule('C08', 'C08.R3b', 'the buffer handed to a non-blocking send is not written or received into before it is rebound (no buffer handed to a non-blocking send is modified before that send completes)', floor=3)
def r3b(ctx, R):
    repo = ctx.repo
    n_sites = 0
    for m, ci, fn in repo.all_functions():
        if not any(x in m.relpath for x in SCOPE):
            continue
        sends = [c for c in ast.walk(fn) if isinstance(c, ast.Call) and ast.unparse(c.func) in ('self.Send', 'self.send', 'comm.Isend', 'comm.Issend', 'comm.isend') and _kw(c).get('blocking') != 'True']
        if not sends:
            continue
        cfg = FuncCFG(fn)
        name = (ci.name + '.' if ci else '') + fn.name
        w = qual(m, ci, fn)
        R.fn(w)
        for c in sends:
            buf = _kw(c).get('buffer') or _kw(c).get('data') or (ast.unparse(c.args[0]) if c.args and ast.unparse(c.func).startswith('comm.') else None)
            if buf is None:
                continue
            names = sorted({x.id for x in ast.walk(ast.parse(buf, mode='eval')) if isinstance(x, ast.Name) and x.id not in ('self', 'MPI')})
            snode = [n for n in cfg.stmt_of if any(y is c for y in cfg.calls_at(n))]
            if not snode or not names:
                continue
            n_sites += 1
            b = names[0]
            rebinds = [n for n, s in cfg.stmt_of.items() if isinstance(s, ast.Assign) and any(isinstance(t, ast.Name) and t.id == b for t in s.targets)]
            writes = []
            for n, s in cfg.stmt_of.items():
                if n == snode[0]:
                    continue
                if isinstance(s, ast.Assign) and any(isinstance(t, ast.Subscript) and isinstance(t.value, ast.Name) and t.value.id == b for t in s.targets):
                    writes.append((n, ast.unparse(s)[:50]))
                for cc in cfg.calls_at(n):
                    if ast.unparse(cc.func) in ('self.Recv', 'comm.Recv', 'comm.Irecv') and b in (_kw(cc).get('buffer', '') + ' '.join(ast.unparse(a) for a in cc.args)):
                        writes.append((n, ast.unparse(cc)[:60]))
            bad = [txt for n, txt in writes if cfg.reachable(snode[0], n) and not cfg.must_pass(snode[0], n, rebinds)]
            R.check(not bad, f'{name} :: buffer `{b}` of the non-blocking {ast.unparse(c.func)} is not touched again before it is re-allocated', w, f'every later write to {b} is preceded by `{b} = <new array>`', bad)
    if n_sites < 3:
        raise AnalysisError(f'C08.R3b: only {n_sites} non-blocking send sites with a named buffer found')


@rule('C08', 'C08.R8', 'controller_MPI.run: the test that decides to split the communicator is the exact complement of the activity predicate (same threshold), otherwise ranks disagree about who is still active', floor=2)
def r8(ctx, R):
    repo = ctx.repo
    fn = repo.func(MPI_REL, 'controller_MPI.run')
    w = f'{MPI_REL}:controller_MPI.run'
    R.fn(w)
    cfg = FuncCFG(fn)
    act = [s for s in walk_no_nested(fn) if isinstance(s, ast.Assign) and ast.unparse(s.targets[0]) == 'active' and isinstance(s.value, ast.Compare)]
    thr = sorted({ast.unparse(s.value.comparators[0]) for s in act})
    ops = sorted({type(s.value.ops[0]).__name__ for s in act})
    R.check(len(act) == 2 and len(thr) == 1 and ops == ['Lt'], 'controller_MPI.run :: active = time < THRESHOLD with one threshold at both sites', w, 'time < Tend - 10*eps (x2)', [ast.unparse(s.value) for s in act])
    sp = [(n, s) for n, s in cfg.stmt_of.items() if isinstance(s, ast.Assign) and ast.unparse(s.value) == 'comm_active.Split(active)']
    ok = len(sp) == 1
    found = None
    if ok:
        g = [t for t, p in cfg.guards[id(sp[0][1])] if 'Tend' in ast.unparse(t)]
        ok = len(g) == 1 and isinstance(g[0], ast.Compare) and isinstance(g[0].ops[0], ast.GtE) and thr and ast.unparse(g[0].comparators[0]) == thr[0]
        found = ast.unparse(g[0]) if g else None
        ok = ok and ast.unparse(g[0].left) == 'tend + sum(all_dt[:comm_active.size - 1])'
    R.check(ok, 'controller_MPI.run :: split test `last rank start >= THRESHOLD` uses the threshold of the activity predicate', w, f'tend + sum(all_dt[:comm_active.size - 1]) >= {thr[0] if thr else "?"}', found)


@rule('C08', 'C08.R9', 'node-parallel predictor: rank r fills node r+1 exactly like the serial predictor fills node m (same initial guesses, same node time), f(u0) on every rank', floor=2)
def r9(ctx, R):
    repo = ctx.repo
    ser = Normalizer(repo.func('pySDC/core/sweeper.py', 'Sweeper.predict'))
    rel = 'pySDC/implementations/sweeper_classes/generic_implicit_MPI.py'
    par = Normalizer(repo.func(rel, 'SweeperMPI.predict'))
    w = f'{rel}:SweeperMPI.predict'
    R.fn(w)
    def proj(d):
        return d.replace(' for i1=1..M', '').replace('nodes[i1 - 1]', 'nodes[self.rank]').replace('[i1]', '[self.rank + 1]')
    s = sorted(proj(c.describe()) for c in ser.contribs if c.target not in ser.env.alias and "== 'random'" not in c.describe())
    p = sorted(c.describe() for c in par.contribs if c.target not in par.env.alias)
    R.check(s == p, 'SweeperMPI.predict :: the serial predictor restricted to node rank+1 (initial guesses spread / copy / zero)', w, s, p)
    fn = repo.func(rel, 'SweeperMPI.predict')
    raises = [ast.unparse(x)[:60] for x in ast.walk(fn) if isinstance(x, ast.Raise)]
    R.check(any('ParameterError' in r for r in raises), "SweeperMPI.predict :: an initial guess the parallel predictor does not implement ('random') raises instead of leaving the node empty", w, 'else: raise ParameterError', raises)


@rule('C08', 'C08.R10', 'linearized embedded error: the MPI flavour forwards to the next rank exactly what the serial flavour carries to the next step (the accumulated estimate), and both subtract the carried value in the same formula', floor=3)
def r10(ctx, R):
    repo = ctx.repo
    rel = CC + 'estimate_embedded_error.py'
    fs = repo.func(rel, 'EstimateEmbeddedErrorLinearizedNonMPI.post_iteration_processing')
    fm = repo.func(rel, 'EstimateEmbeddedErrorLinearizedMPI.post_iteration_processing')
    w = f'{rel}:EstimateEmbeddedErrorLinearizedMPI.post_iteration_processing'
    R.fn(w)
    def src_of(fn, name):
        return [ast.unparse(s.value) for s in ast.walk(fn) if isinstance(s, ast.Assign) and ast.unparse(s.targets[0]) == name]
    carried = [re.sub(r' \* 1\.0$', '', x) for x in src_of(fs, 'self.buffers.e_em_last')]
    sends = [c for c in ast.walk(fm) if isinstance(c, ast.Call) and ast.unparse(c.func) == 'self.send']
    payload = [_kw(c).get('data') for c in sends]
    same_def = src_of(fs, 'temp') == src_of(fm, 'temp') == ['self.estimate_embedded_error_serial(L)']
    R.check(len(carried) == 1 and payload == carried and same_def, 'EstimateEmbeddedErrorLinearizedMPI :: send(data=..) forwards the value the serial flavour stores in buffers.e_em_last', w, {'serial carries': carried, 'definition': 'temp = self.estimate_embedded_error_serial(L)'}, {'MPI sends': payload, 'temp (serial)': src_of(fs, 'temp'), 'temp (MPI)': src_of(fm, 'temp')})
    es = [re.sub(r' / averaging', '', x) for x in src_of(fs, 'L.status.error_embedded_estimate')]
    em = src_of(fm, 'L.status.error_embedded_estimate')
    R.check(es == em and len(em) == 1, 'EstimateEmbeddedErrorLinearized :: both flavours use max(|accumulated - carried|, eps)', w, es, em)
    rcv = [ast.unparse(s) for s in ast.walk(fm) if isinstance(s, ast.Assign) and ast.unparse(s.targets[0]) == 'self.buffers.e_em_last']
    R.check(sorted(rcv) == sorted(['self.buffers.e_em_last = self.recv(comm, S.status.slot - 1)', 'self.buffers.e_em_last = 0.0']), 'EstimateEmbeddedErrorLinearizedMPI :: the carried value is what the previous rank sent (0 on the first rank)', w, ['recv(comm, slot - 1)', '0.0 on the first rank'], rcv)


@rule('C08', 'C08.R11', 'shift exchange of the restart counters: the send towards slot - restart_from is non-blocking and is NOT completed before the receive is posted (for restart_from = 0 the peer is the rank itself: Wait-before-Recv deadlocks under rendezvous completion)', floor=2)
def r11(ctx, R):
    repo = ctx.repo
    rel = CC + 'basic_restarting.py'
    fn = repo.func(rel, 'BasicRestartingMPI.prepare_next_block')
    w = f'{rel}:BasicRestartingMPI.prepare_next_block'
    R.fn(w)
    cfg = FuncCFG(fn)
    snd = [(n, c) for n in cfg.stmt_of for c in cfg.calls_at(n) if ast.unparse(c.func) == 'self.Send']
    rcv = [(n, c) for n in cfg.stmt_of for c in cfg.calls_at(n) if ast.unparse(c.func) == 'self.Recv']
    if len(snd) != 1 or len(rcv) != 1:
        raise AnalysisError(f'{w}: expected one Send and one Recv')
    ks, kr = _kw(snd[0][1]), _kw(rcv[0][1])
    ok = ks.get('dest') == 'S.status.slot - restart_from' and kr.get('source') == 'S.status.slot + restart_from' and ks.get('blocking') == 'False'
    R.check(ok, 'BasicRestartingMPI.prepare_next_block :: counters move by restart_from slots: Send(dest=slot - restart_from, non-blocking) <-> Recv(source=slot + restart_from)', w, {'dest': 'S.status.slot - restart_from', 'source': 'S.status.slot + restart_from', 'blocking': 'False'}, {'dest': ks.get('dest'), 'source': kr.get('source'), 'blocking': ks.get('blocking')})
    waits = [n for n in cfg.stmt_of for c in cfg.calls_at(n) if isinstance(c.func, ast.Attribute) and c.func.attr in ('Wait', 'wait', 'Waitall')]
    early = [ast.unparse(cfg.stmt_of[n])[:60] for n in waits if cfg.reachable(snd[0][0], n) and cfg.reachable(n, rcv[0][0])]
    R.check(not early, 'BasicRestartingMPI.prepare_next_block :: no completion of the send between posting it and posting the receive', w, 'no Wait on a path from the Send to the Recv', early)


@rule('C08', 'C08.R13', 'method resolution of the node-parallel sweepers: whatever SweeperMPI (or a mixin derived from it) defines - residual, predictor, end point, communication set-up - is what a class deriving from it actually gets; a base-class order that lets the serial implementation win hands every rank the serial formula on its one node', floor=12)
def r13(ctx, R):
    from ..model import ClassInfo
    from .. import sweepers as sw
    repo = ctx.repo
    mpi = repo.cls(sw.SW + 'generic_implicit_MPI.py', 'SweeperMPI')
    n = 0
    for ci in repo.subclasses(mpi, strict=True):
        lineage = [c for c in ci.mro if isinstance(c, ClassInfo) and repo.is_subclass(c, mpi)]
        names = sorted({m for c in lineage if c is not ci for m in c.methods if not (m.startswith('__') and m != '__init__')})
        for m in names:
            r = repo.resolve(ci, m)
            if r is None:
                continue
            n += 1
            owner = r[0]
            w = f'{ci.module.relpath}:{ci.name}'
            R.fn(f'{owner.module.relpath}:{owner.name}.{m}')
            R.check(repo.is_subclass(owner, mpi), f'{ci.name}.{m} :: resolves to the node-parallel implementation', w, f'an implementation from the SweeperMPI lineage ({", ".join(c.name for c in lineage if m in c.methods)})', f'{owner.name}.{m} (bases in the order {[getattr(b, "name", str(b)) for b in ci.bases]})')
    if n < 12:
        raise AnalysisError(f'C08.R13: only {n} resolved methods of node-parallel sweepers found')


@rule('C08', 'C08.R14', 'the MPI flavour of a convergence controller resets what its serial sibling resets: life-cycle callbacks that are overridden call the inherited implementation (shared with C19.R15)', floor=6)
def r14(ctx, R):
    from . import c19
    c19.r15(ctx, R)


@rule('C08', 'C08.R15', 'what the serial sweeper refreshes the node-parallel sweeper refreshes too, and what is on the wire is not written into: no per-rank copy of a k-dependent preconditioner entry survives a refresh (shared with C02.R6b), and in-place writes into level data - in particular into uend, the buffer of the pending non-blocking send - only hit objects allocated in the same call (shared with C13.R3)', floor=30)
def r15(ctx, R):
    from . import c02, c13
    c02.r6b(ctx, R)
    c13.r3(ctx, R)


def _status_fields(node):
    return sorted({n.attr for n in ast.walk(node) if isinstance(n, ast.Attribute) and isinstance(n.value, ast.Attribute) and n.value.attr == 'status'})


@rule('C08', 'C08.R18', 'where to restart is decided from the same flag in the serial and the MPI controller: `restarts` collects `status.restart` of every step of the block (list comprehension in the serial run(), allgather in controller_MPI.run), and the MPI controller runs post_step_processing exactly under `not self.S.status.restart`', floor=4)
def r18(ctx, R):
    repo = ctx.repo
    CCD = 'pySDC/implementations/controller_classes/'
    seen = {}
    for rel, cn in ((CCD + 'controller_nonMPI.py', 'controller_nonMPI'), (CCD + 'controller_ParaDiag_nonMPI.py', 'controller_ParaDiag_nonMPI'), (CCD + 'controller_MPI.py', 'controller_MPI')):
        fn = repo.func(rel, f'{cn}.run')
        w = f'{rel}:{cn}.run'
        R.fn(w)
        asg = [s for s in ast.walk(fn) if isinstance(s, ast.Assign) and any(isinstance(t, ast.Name) and t.id == 'restarts' for t in s.targets)]
        if len(asg) != 1:
            raise AnalysisError(f'{cn}.run: expected one assignment of `restarts`, found {len(asg)} - re-confirm C08.R18')
        seen[cn] = _status_fields(asg[0].value)
        R.check(seen[cn] == ['restart'], f'{cn}.run :: `restarts` collects status.restart of the steps of the block', w, ['restart'], seen[cn])
    fn = repo.func(CCD + 'controller_MPI.py', 'controller_MPI.run')
    guards = [ast.unparse(i.test) for i in ast.walk(fn) if isinstance(i, ast.If) and any(isinstance(c, ast.Call) and isinstance(c.func, ast.Attribute) and c.func.attr == 'post_step_processing' for c in ast.walk(i))]
    inner = [g for g in guards if 'status' in g]
    R.check(inner == ['not self.S.status.restart'], 'controller_MPI.run :: post_step_processing under `not self.S.status.restart`', CCD + 'controller_MPI.py:controller_MPI.run', ['not self.S.status.restart'], inner)


def none_guard_contradictions(fn):
    """Engler-style contradiction: under `if X is None:` (or in the else-arm of `if X is not None:`) X is dereferenced (X.attr / X(..) / X[..])
    before it is rebound -> [(lineno, text)]; also returns the number of None-guards looked at"""
    hits, guards = [], 0

    def deref(stmts, name):
        for st in stmts:
            for n in ast.walk(st):
                if isinstance(n, (ast.Attribute, ast.Subscript)) and isinstance(n.ctx, ast.Load) and ast.unparse(n.value) == name:
                    return n.lineno, ast.unparse(st)[:90]
                if isinstance(n, ast.Call) and ast.unparse(n.func) == name:
                    return n.lineno, ast.unparse(st)[:90]
            if any(ast.unparse(t) == name for a in ast.walk(st) if isinstance(a, ast.Assign) for t in a.targets):
                return None
        return None

    for i in ast.walk(fn):
        if not isinstance(i, ast.If):
            continue
        t = i.test
        terms = t.values if isinstance(t, ast.BoolOp) and isinstance(t.op, ast.And) else [t]
        for c in terms:
            if isinstance(c, ast.Compare) and len(c.ops) == 1 and isinstance(c.comparators[0], ast.Constant) and c.comparators[0].value is None and isinstance(c.left, (ast.Name, ast.Attribute)):
                name = ast.unparse(c.left)
                guards += 1
                if isinstance(c.ops[0], ast.Is):
                    r = deref(i.body, name)
                elif isinstance(c.ops[0], ast.IsNot) and len(terms) == 1:
                    r = deref(i.orelse, name)
                else:
                    r = None
                if r:
                    hits.append((name,) + r)
    return hits, guards


@rule('C08', 'C08.R19', 'no request, communicator or buffer is used in the arm that has just established it is None: in the MPI-only classes (controller_MPI, the node-parallel sweepers, the MPI flavours of the convergence controllers, base_transfer_MPI) a name tested `is None` is not dereferenced in that arm before it is rebound (contradiction rule; this code cannot be executed in a sandbox without mpi4py, so no test here would see the AttributeError or the skipped Wait)', floor=6)
def r19(ctx, R):
    repo = ctx.repo
    ctl = ast.parse('def f(self):\n    for req in self.req_send:\n        if req is None:\n            req.Wait()\n').body[0]
    if len(none_guard_contradictions(ctl)[0]) != 1:
        raise AnalysisError('C08.R19: the embedded control (Wait on a request that is None) is not recognised')
    total = 0
    for m, ci, fn in repo.all_functions():
        rel = m.relpath
        if not (rel.endswith('controller_MPI.py') or ('MPI' in (ci.name if ci else '') and 'nonmpi' not in ci.name.lower()) or rel.endswith(('BaseTransferMPI.py', 'generic_implicit_MPI.py', 'imex_1st_order_MPI.py'))):
            continue
        hits, guards = none_guard_contradictions(fn)
        if not guards:
            continue
        total += guards
        w = f'{rel}:{(ci.name + ".") if ci else ""}{fn.name}'
        R.fn(w)
        R.check(not hits, f'{(ci.name + ".") if ci else ""}{fn.name} :: {guards} None-guard(s): the guarded name is not used where it is None', w, 'no dereference of X under `X is None`', hits)
    if total < 10:
        raise AnalysisError(f'C08.R19: only {total} None-guards found in the MPI-only classes')
