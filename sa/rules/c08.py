"""rules for c08 (under construction)"""
