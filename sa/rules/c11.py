"""C11 - transfer operators: the structural clauses only (type/component preservation, fresh results, R = c*P^T,
tensor-product assembly).  Polynomial exactness, partition of unity and R∘P = I are numeric and are NOT decided."""

import ast
import re

from ..cfg import FuncCFG, walk_no_nested
from ..model import AnalysisError
from ..norm import Normalizer
from ..purity import Purity
from ..runner import rule

TC = 'pySDC/implementations/transfer_classes/'
CLASSES = [
    (TC + 'TransferMesh.py', 'mesh_to_mesh'),
    (TC + 'TransferMesh_FFT.py', 'mesh_to_mesh_fft'),
    (TC + 'TransferMesh_FFT2D.py', 'mesh_to_mesh_fft2d'),
    (TC + 'TransferMesh_NoCoarse.py', 'mesh_to_mesh'),
    (TC + 'TransferParticles_NoCoarse.py', 'particles_to_particles'),
]
CTOR = re.compile(r'^(type\((F|G)\)|mesh|imex_mesh|comp2_mesh|particles|fields|acceleration)\(')


@rule('C11', 'C11.R1', 'restrict/prolong return a NEW object of the argument\'s data type (never the argument, never a view of it)', floor=10)
def r1(ctx, R):
    repo = ctx.repo
    for rel, cn in CLASSES:
        ci = repo.cls(rel, cn)
        for meth, arg, side in (('restrict', 'F', 'coarse'), ('prolong', 'G', 'fine')):
            fn = ci.methods.get(meth)
            if fn is None:
                raise AnalysisError(f'{rel}:{cn}.{meth} vanished')
            w = f'{rel}:{cn}.{meth}'
            R.fn(w)
            P = Purity(fn)
            rets = [(s, tags) for s, tags in P.returns]
            aliasing = [ast.unparse(s.value) for s, tags in rets if any(t[0] == 'param' for t in tags)]
            defs = [s for s in walk_no_nested(fn) if isinstance(s, ast.Assign) and any(isinstance(t, ast.Name) and t.id == ('G' if meth == 'restrict' else 'F') for t in s.targets)]
            ctor_ok = bool(defs) and all(CTOR.match(ast.unparse(s.value)) for s in defs)
            rname = [ast.unparse(s.value) for s, _ in rets]
            ok = not aliasing and ctor_ok and rname == ['G' if meth == 'restrict' else 'F']
            R.check(ok, f'{cn}.{meth} :: result is constructed through the data type of the argument and returned', w, 'X = type(arg)(...) | <datatype>(...); return X', {'definitions': [ast.unparse(s.value)[:50] for s in defs], 'returns': rname, 'aliasing': aliasing})
            # the argument itself is not written
            hits = [h.target for h in P.hits if h.params()] + [f'{n} op= ..' for st, n, tags in P.aug_alias if any(t[0] == 'param' for t in tags)]
            R.check(not hits, f'{cn}.{meth} :: the argument is not modified', w, 'no in-place write into the argument', hits)
            # the target grid: restriction allocates on the coarse problem, prolongation on the fine one
            init = [ast.unparse(s.value) for s in defs]
            if (rel, cn) in CLASSES[:3]:
                R.check(bool(init) and all(re.match(rf'[\w()]+\(self\.{side}_prob\.init\b', x) for x in init), f'{cn}.{meth} :: result is allocated on the {side} grid', w, f'<type>(self.{side}_prob.init ...)', init)
            else:
                R.check(bool(init) and all(re.fullmatch(rf'[\w()]+\({arg}\)', x) for x in init), f'{cn}.{meth} :: no coarsening: the result is a copy of the argument', w, f'<type>({arg})', init)


def _swap_components(s, a, b):
    return re.sub(rf'({a}|{b})', lambda m: b if m.group(1) == a else a, s)


@rule('C11', 'C11.R2', 'components are treated alike: the same operator is applied to every component (generic loop over .components, or identical arms up to the component name)', floor=6)
def r2(ctx, R):
    repo = ctx.repo
    for rel, cn in CLASSES[:3]:
        ci = repo.cls(rel, cn)
        for meth in ('restrict', 'prolong'):
            fn = ci.methods[meth]
            w = f'{rel}:{cn}.{meth}'
            R.fn(w)
            src_arg = 'F' if meth == 'restrict' else 'G'
            loops = [l for l in walk_no_nested(fn) if isinstance(l, ast.For) and re.fullmatch(r'(F|G)\.components', ast.unparse(l.iter))]
            if loops:
                l = loops[0]
                call = [c for c in ast.walk(l) if isinstance(c, ast.Call) and isinstance(c.func, ast.Name) and c.func.id.startswith('_')]
                ok = len(call) == 1 and len(call[0].args) == 2
                if ok:
                    a0, a1 = ast.unparse(call[0].args[0]), ast.unparse(call[0].args[1])
                    v = ast.unparse(l.target)
                    ok = {a0, a1} == {f'F.__getattr__({v})', f'G.__getattr__({v})'} and a0.startswith(src_arg)
                R.check(ok, f'{cn}.{meth} :: every component of the argument is transferred into the SAME component of the result', w, f'for comp in {src_arg}.components: _op({src_arg}.comp, result.comp)', [ast.unparse(c) for c in call])
                continue
            # explicit arms: the statements mentioning .expl must be the .impl statements with the names swapped
            stm = [s for s in walk_no_nested(fn) if isinstance(s, (ast.Assign, ast.AugAssign))]
            impl = sorted(_swap_components(ast.unparse(s), 'impl', 'expl') for s in stm if 'impl' in ast.unparse(s).replace('imex', '') and 'expl' not in ast.unparse(s))
            expl = sorted(ast.unparse(s) for s in stm if 'expl' in ast.unparse(s) and 'impl' not in ast.unparse(s).replace('imex', ''))
            if not impl and not expl:
                R.exc(f'{cn}.{meth} :: single-component data only', w, 'no multi-component arm in this method')
                continue
            R.check(impl == expl, f'{cn}.{meth} :: the expl arm is the impl arm with the component renamed', w, impl, expl)


@rule('C11', 'C11.R3', 'mesh_to_mesh: restriction applies Rspace and writes coarse shapes, prolongation applies Pspace and writes fine shapes', floor=8)
def r3(ctx, R):
    repo = ctx.repo
    rel, cn = CLASSES[0]
    ci = repo.cls(rel, cn)
    for meth, mat, side in (('restrict', 'self.Rspace', 'coarse'), ('prolong', 'self.Pspace', 'fine')):
        fn = ci.methods[meth]
        w = f'{rel}:{cn}.{meth}'
        R.fn(w)
        dots = sorted({ast.unparse(c.func.value) for c in ast.walk(fn) if isinstance(c, ast.Call) and isinstance(c.func, ast.Attribute) and c.func.attr == 'dot'})
        resh = sorted({ast.unparse(c.args[0]) for c in ast.walk(fn) if isinstance(c, ast.Call) and isinstance(c.func, ast.Attribute) and c.func.attr == 'reshape' and c.args})
        R.check(dots == [mat] and resh == [f'self.{side}_prob.nvars'], f'{cn}.{meth} :: operator {mat}, result reshaped to the {side} grid', w, {'dot': [mat], 'reshape': [f'self.{side}_prob.nvars']}, {'dot': dots, 'reshape': resh})
        helper = [f for f in ast.walk(fn) if isinstance(f, ast.FunctionDef) and f is not fn]
        if len(helper) != 1:
            raise AnalysisError(f'{w}: expected one nested helper applying the operator')
        # every arm of the helper: flatten -> operator -> reshape to the target grid -> store into the SAME selection of the result
        from ..inline import inline_block
        hp_src, hp_dst = [a.arg for a in helper[0].args.args]
        blocks = []
        for node in ast.walk(helper[0]):
            for fld in ('body', 'orelse'):
                b = getattr(node, fld, None)
                if isinstance(b, list) and b and all(isinstance(x, ast.Assign) for x in b) and any('.dot(' in ast.unparse(x) for x in b):
                    blocks.append(inline_block(b))
        want_blocks = sorted([[f'{hp_dst}[{sel}] = {mat}.dot({hp_src}[{sel}].flatten()).reshape(self.{side}_prob.nvars)'] for sel in ('..., i', 'i, ...')] + [[f'{hp_dst}[:] = {mat}.dot({hp_src}.flatten()).reshape(self.{side}_prob.nvars)']])
        R.check(sorted(blocks) == want_blocks, f'{cn}.{meth} :: each arm stores reshape({mat} @ flatten(selection)) into the same selection of the result', w, want_blocks, sorted(blocks))
        top = [s for s in fn.body if isinstance(s, ast.If) and 'components' in ast.unparse(s.test)]
        arm = [ast.unparse(x) for s in top for x in (s.orelse[0].body if s.orelse and isinstance(s.orelse[0], ast.If) else [])]
        want_arm = ['_restrict(F, G)'] if meth == 'restrict' else ['F[:] = _prolong(G, F)']
        R.check(arm == want_arm, f'{cn}.{meth} :: plain mesh data go through the same helper', w, want_arm, arm)
        src_p, dst_p = [a.arg for a in helper[0].args.args]
        if meth == 'prolong':
            pass
        pairs = []
        for arm in ast.walk(helper[0]):
            if isinstance(arm, ast.If) and 'shape' in ast.unparse(arm.test):
                rd = [ast.unparse(x.slice) for st in arm.body for x in ast.walk(st) if isinstance(x, ast.Subscript) and ast.unparse(x.value) == src_p and isinstance(x.ctx, ast.Load)]
                wr = [ast.unparse(x.slice) for st in arm.body for x in ast.walk(st) if isinstance(x, ast.Subscript) and ast.unparse(x.value) == dst_p and isinstance(x.ctx, ast.Store)]
                pairs.append((ast.unparse(arm.test), rd, wr))
        ok = len(pairs) == 2 and all(rd == wr and len(rd) == 1 for _, rd, wr in pairs) and {p[1][0] for p in pairs} == {'(..., i)', '(i, ...)'}
        axis_ok = all(('[-1]' in t) == (rd == ['(..., i)']) for t, rd, wr in pairs)
        R.check(ok and axis_ok, f'{cn}.{meth} :: ncomp problems: component i is read and written on the same axis the shape test found it on', w, 'shape[-1] == ncomp: x[..., i] -> y[..., i];  shape[0] == ncomp: x[i, ...] -> y[i, ...]', pairs)


@rule('C11', 'C11.R4', 'mesh_to_mesh.__init__: R = c * P^T with c = 0.5 for interpolating restriction (1.0 for injection), in the 1-d and the n-d branch alike; odd orders rejected', floor=6)
def r4(ctx, R):
    repo = ctx.repo
    rel, cn = CLASSES[0]
    fn = repo.func(rel, f'{cn}.__init__')
    w = f'{rel}:{cn}.__init__'
    R.fn(w)
    N = Normalizer(fn, inline_scalars=False)
    rf = [c for c in N.contribs if c.target == 'restr_factor']
    got = sorted((c.rhs, c.guards[-1]) for c in rf)
    want1 = [('0.5', 'self.params.rorder > 0'), ('1.0', 'self.params.rorder <= 0')]
    R.check(len(rf) == 4 and sorted(set(got)) == want1, f'{cn}.__init__ :: restr_factor = 0.5 if rorder > 0 else 1.0 (both branches)', w, want1, got)
    same = [c for c in N.contribs if c.rhs in ('restr_factor * self.Pspace.T',) or (c.call is None and c.rhs == 'restr_factor * self.Pspace.T')]
    r1d = [c for c in N.contribs if c.target == 'self.Rspace' and c.guards and c.guards[-1] == 'self.params.iorder == self.params.rorder']
    R.check(len(r1d) == 1 and r1d[0].rhs == 'restr_factor * self.Pspace.T', f'{cn}.__init__ :: 1-d: Rspace = restr_factor * Pspace.T when the orders agree', w, 'restr_factor * self.Pspace.T', [c.rhs for c in r1d])
    app = [c for c in N.calls if c[0].startswith('Rspace.append(') and 'self.params.iorder == self.params.rorder' in c[2]]
    R.check(len(app) == 1 and app[0][0] == 'Rspace.append(restr_factor * Pspace[-1].T)', f'{cn}.__init__ :: n-d: per-direction R = restr_factor * P^T of the SAME direction', w, 'Rspace.append(restr_factor * Pspace[-1].T)', [c[0] for c in app])
    oth = [ast.unparse(x) for x in ast.walk(fn) if isinstance(x, ast.Attribute) and x.attr == 'T' and isinstance(x.value, ast.Call) and ast.unparse(x.value.func) == 'th.interpolation_matrix_1d']
    ok = len(oth) == 2 and all('k=self.params.rorder' in x and 'fine_grid, coarse_grid' in x for x in oth)
    R.check(ok, f'{cn}.__init__ :: different orders: R is the TRANSPOSE of the order-rorder interpolation fine<-coarse', w, 'th.interpolation_matrix_1d(fine_grid, coarse_grid, k=rorder, ...).T (x2)', [x[:80] for x in oth])
    ps = [c for c in N.calls if c[0].startswith('th.interpolation_matrix_1d(') and 'k=self.params.iorder' in c[0]]
    R.check(len(ps) == 2 and all(c[0].startswith('th.interpolation_matrix_1d(fine_grid, coarse_grid,') for c in ps), f'{cn}.__init__ :: P interpolates from the coarse grid to the fine grid with order iorder', w, 'interpolation_matrix_1d(fine_grid, coarse_grid, k=iorder, ...)', [c[0][:70] for c in ps])
    cfg = FuncCFG(fn)
    rs = [' '.join(str(t) for t in [ast.unparse(t) for t, p in cfg.guards[id(s)]]) for s in cfg.stmt_of.values() if isinstance(s, ast.Raise) and 'TransferError' in ast.unparse(s)]
    R.check(any('rorder % 2 != 0' in g for g in rs) and any('iorder % 2 != 0' in g for g in rs), f'{cn}.__init__ :: odd interpolation / restriction orders raise TransferError', w, 'rorder % 2 != 0 / iorder % 2 != 0 -> raise', rs[:3])


@rule('C11', 'C11.R5', 'n-d operators are Kronecker products of the per-direction operators, direction 0 first, for P and R alike', floor=2)
def r5(ctx, R):
    repo = ctx.repo
    rel, cn = CLASSES[0]
    fn = repo.func(rel, f'{cn}.__init__')
    w = f'{rel}:{cn}.__init__'
    R.fn(w)
    N = Normalizer(fn, inline_scalars=False)
    for mat, lst in (('self.Pspace', 'Pspace'), ('self.Rspace', 'Rspace')):
        first = [c for c in N.contribs if c.target == mat and c.rhs == f'{lst}[0]']
        kr = [c for c in N.contribs if c.target == mat and c.rhs and c.rhs.startswith('sp.kron(')]
        ok = len(first) == 1 and len(kr) == 1 and kr[0].rhs == f"sp.kron({mat}, {lst}[i1], format='csc')" and repr(kr[0].loops[-1]) == f'i1=1..len({lst})-1'
        R.check(ok, f'{cn}.__init__ :: {mat} = kron(...kron({lst}[0], {lst}[1])..., {lst}[d-1])', w, f'{mat} = {lst}[0]; for i in 1..d-1: {mat} = kron({mat}, {lst}[i])', [c.describe()[:120] for c in first + kr])


def _isinstance_chain(stmt):
    """[(variable, class expr, If node)] along an if/elif chain of isinstance()/type().__name__ tests"""
    out = []
    cur = stmt
    while isinstance(cur, ast.If):
        t = cur.test
        if isinstance(t, ast.Call) and ast.unparse(t.func) == 'isinstance' and len(t.args) == 2:
            out.append((ast.unparse(t.args[0]), t.args[1], cur))
        else:
            out.append((None, t, cur))
        cur = cur.orelse[0] if len(cur.orelse) == 1 and isinstance(cur.orelse[0], ast.If) else None
    return out


@rule('C11', 'C11.R6', 'data-type dispatch: no arm of an isinstance chain is shadowed by an earlier arm testing one of its base classes; the chain ends in a raising else', floor=4)
def r6(ctx, R):
    repo = ctx.repo
    for rel, cn in CLASSES:
        ci = repo.cls(rel, cn)
        for meth in ('restrict', 'prolong'):
            fn = ci.methods[meth]
            w = f'{rel}:{cn}.{meth}'
            chains = [s for s in walk_no_nested(fn) if isinstance(s, ast.If) and ('isinstance' in ast.unparse(s.test) or '__name__' in ast.unparse(s.test))]
            inner = {id(c.orelse[0]) for c in chains if len(c.orelse) == 1}
            heads = [c for c in chains if id(c) not in inner]
            if not heads:
                R.exc(f'{cn}.{meth} :: generic over the data type (no dispatch)', w, 'uses type(arg) and .components')
                continue
            for h in heads:
                R.fn(w)
                ch = _isinstance_chain(h)
                shadowed = []
                seen = []
                for var, cexpr, node in ch:
                    if var is None:
                        continue
                    names = [ast.unparse(e) for e in (cexpr.elts if isinstance(cexpr, ast.Tuple) else [cexpr])]
                    cls = [repo.resolve_name(ci.module, n) for n in names]
                    # a condition of the form `isinstance(x, A) and not isinstance(x, B)` is not a plain arm: handled as opaque
                    for c, n in zip(cls, names):
                        if c is None:
                            continue
                        for pv, pc, pn in seen:
                            if pv == var and pc is not None and repo.is_subclass(c, pc):
                                shadowed.append(f'isinstance({var}, {n}) after isinstance({pv}, {pn}): {n} is a subclass of {pn}')
                    seen += [(var, c, n) for c, n in zip(cls, names)]
                last = ch[-1][2]
                raising = bool(last.orelse) and any(isinstance(x, ast.Raise) for x in last.orelse)
                R.check(not shadowed and raising, f'{cn}.{meth} :: every data-type arm is reachable; unknown types raise', w, 'subclass arms before base-class arms (or exact-type tests); else: raise TransferError', {'shadowed': shadowed, 'raising_else': raising})


@rule('C11', 'C11.R7', 'BaseTransfer: Pcoll interpolates coarse->fine nodes, Rcoll fine->coarse nodes (Lagrange on the SOURCE nodes evaluated at the TARGET nodes); the identity shortcut requires equal node sets; restriction uses Rcoll, prolongation Pcoll', floor=6)
def r7(ctx, R):
    repo = ctx.repo
    rel = 'pySDC/core/base_transfer.py'
    fn = repo.func(rel, 'BaseTransfer.__init__')
    w = f'{rel}:BaseTransfer.__init__'
    R.fn(w)
    N = Normalizer(fn, inline_scalars=False)
    al = {c.target: c.rhs for c in N.contribs if c.target in ('fine_grid', 'coarse_grid')}
    R.check(al == {'fine_grid': 'self.fine.sweep.coll.nodes', 'coarse_grid': 'self.coarse.sweep.coll.nodes'}, 'BaseTransfer.__init__ :: node sets are those of the two levels', w, 'fine_grid = fine nodes; coarse_grid = coarse nodes', al)
    ass = {}
    for s in walk_no_nested(fn):
        if isinstance(s, (ast.Assign, ast.AnnAssign)):
            t = s.targets[0] if isinstance(s, ast.Assign) else s.target
            if ast.unparse(t) in ('self.Pcoll', 'self.Rcoll') and s.value is not None:
                ass.setdefault(ast.unparse(t), []).append(s)
    cfg = FuncCFG(fn)
    gen = {k: [ast.unparse(s.value) for s in v if 'get_transfer_matrix_Q' in ast.unparse(s.value)] for k, v in ass.items()}
    R.check(gen == {'self.Pcoll': ['self.get_transfer_matrix_Q(fine_grid, coarse_grid)'], 'self.Rcoll': ['self.get_transfer_matrix_Q(coarse_grid, fine_grid)']}, 'BaseTransfer.__init__ :: Pcoll = T(target=fine, source=coarse), Rcoll = T(target=coarse, source=fine)', w, 'Pcoll = get_transfer_matrix_Q(fine_grid, coarse_grid); Rcoll = get_transfer_matrix_Q(coarse_grid, fine_grid)', gen)
    short = [s for v in ass.values() for s in v if 'eye' in ast.unparse(s.value)]
    for s in short:
        g = [ast.unparse(t) for t, pol in cfg.guards[id(s)] if pol]
        txt = ' and '.join(g)
        eq = any(k in txt for k in ('allclose(', 'array_equal(', 'all(fine_grid == coarse_grid', 'np.all('))
        R.check(eq, f"BaseTransfer.__init__ :: identity shortcut for {ast.unparse(s.target if isinstance(s, ast.AnnAssign) else s.targets[0])} only when the node SETS coincide", w, 'guard compares the node values (np.allclose / np.array_equal), not only their count', g)
    gq = repo.func(rel, 'BaseTransfer.get_transfer_matrix_Q')
    w2 = f'{rel}:BaseTransfer.get_transfer_matrix_Q'
    R.fn(w2)
    Nq = Normalizer(gq, inline_scalars=True)
    rets = [ast.unparse(s.value) for s in walk_no_nested(gq) if isinstance(s, ast.Return)]
    body = [ast.unparse(s) for s in sorted((x for x in walk_no_nested(gq) if isinstance(x, (ast.Assign, ast.Return))), key=lambda x: x.lineno)]
    pars = [a.arg for a in gq.args.args]
    ok = pars == ['f_nodes', 'c_nodes'] and body in (['approx = LagrangeApproximation(c_nodes)', 'return approx.getInterpolationMatrix(f_nodes)'], ['return LagrangeApproximation(c_nodes).getInterpolationMatrix(f_nodes)'])
    R.check(ok, 'get_transfer_matrix_Q(f_nodes, c_nodes) :: Lagrange basis on the source nodes c_nodes, evaluated at the target nodes f_nodes', w2, 'LagrangeApproximation(c_nodes).getInterpolationMatrix(f_nodes)', body)
    ci = repo.cls(rel, 'BaseTransfer')
    for meth, mat in (('restrict', 'Rcoll'), ('prolong', 'Pcoll'), ('prolong_f', 'Pcoll')):
        f2 = ci.methods.get(meth)
        if f2 is None:
            raise AnalysisError(f'BaseTransfer.{meth} vanished')
        used = sorted({x.attr for x in ast.walk(f2) if isinstance(x, ast.Attribute) and x.attr in ('Rcoll', 'Pcoll')})
        sp_ = sorted({x.attr for x in ast.walk(f2) if isinstance(x, ast.Attribute) and x.attr in ('restrict', 'prolong') and ast.unparse(x.value) == 'self.space_transfer'})
        want_sp = ['restrict'] if meth == 'restrict' else ['prolong']
        # (the bodies of restrict/prolong are decided by C10; they are not registered here as analysed functions)
        R.check(used == [mat] and sp_ == want_sp, f'BaseTransfer.{meth} :: node transfer with {mat}, space transfer with space_transfer.{want_sp[0]}', f'{rel}:BaseTransfer.{meth}', {'coll': [mat], 'space': want_sp}, {'coll': used, 'space': sp_})


TH = 'pySDC/helpers/transfer_helper.py'
NODES = ('cont_arr', 'padded_c_grid[nn]', 'padded_f_grid[nn]')


def _basis_blocks(fn):
    """every loop `for l in range(k): bary_pol.append(BarycentricInterpolator(nodes, roll(e, l)))` with the statements around it"""
    out = []
    for body_owner in ast.walk(fn):
        for fld in ('body', 'orelse'):
            body = getattr(body_owner, fld, None)
            if not isinstance(body, list):
                continue
            for i, s in enumerate(body):
                if isinstance(s, ast.For) and 'BarycentricInterpolator' in ast.unparse(s):
                    if any(isinstance(x, ast.For) and x is not s and 'BarycentricInterpolator' in ast.unparse(x) for x in ast.walk(s)):
                        continue
                    out.append((body, i, s))
    return out


@rule('C11', 'C11.R8', 'transfer_helper: all copies of the Lagrange-basis block agree: k cardinal polynomials on the k selected neighbours, evaluated at the target point, written into the columns of those neighbours', floor=6)
def r8(ctx, R):
    repo = ctx.repo
    for fname in ('restriction_matrix_1d', 'interpolation_matrix_1d'):
        fn = repo.func(TH, fname)
        blocks = _basis_blocks(fn)
        for body, i, loop in blocks:
            w = f'{TH}:{fname}'
            R.fn(w)
            where = f'{fname} line-block #{blocks.index((body, i, loop)) + 1}'
            lp = ast.unparse(loop)
            m = re.fullmatch(r'for (\w+) in range\(k\):\n    bary_pol\.append\(BarycentricInterpolator\((.+), np\.roll\(circulating_one, \1\)\)\)', lp)
            nodes = m.group(2) if m else None
            pre = [ast.unparse(s) for s in body[:i]]
            post = [ast.unparse(s) for s in body[i + 1:i + 2]]
            one = 'circulating_one = np.asarray([1.0] + [0.0] * (k - 1))' in pre
            empty = 'bary_pol = []' in pre
            store = bool(post) and post[0].replace("with np.errstate(divide='ignore'):\n    ", '') == 'M[i, nn] = np.asarray(list(map(lambda x: x(p), bary_pol)))'
            ok = bool(m) and nodes in NODES and one and empty and store
            R.check(ok, f'{where} :: cardinal polynomials e_l on the selected nodes, l = 0..k-1, evaluated at p into M[i, nn]', w, 'circulating_one = [1,0,..]; for l in range(k): BarycentricInterpolator(nodes, roll(one, l)); M[i, nn] = [pol(p)]', {'loop': lp[:160], 'nodes': nodes, 'unit vector': one, 'fresh list': empty, 'store': post[:1]})
            # the nodes are the neighbours that receive the weights
            if nodes == 'cont_arr':
                src = [s for s in pre if s.startswith('cont_arr = continue_periodic_array(') or (s.startswith('if len(nn) > 0') and 'continue_periodic_array' in s)]
                okn = any(re.search(r'continue_periodic_array\((coarse_grid|fine_grid), nn\)', s) for s in src)
                R.check(okn, f'{where} :: periodic: the nodes are the periodic continuation of exactly the neighbours nn', w, 'cont_arr = continue_periodic_array(grid, nn)', src)
    # cropping of the padding columns
    for fname in ('restriction_matrix_1d', 'interpolation_matrix_1d'):
        fn = repo.func(TH, fname)
        crop = [ast.unparse(s) for s in ast.walk(fn) if isinstance(s, ast.If) and ast.unparse(s.test) == 'pad > 0']
        R.check(crop == ['if pad > 0:\n    M = M[:, pad:-pad]'], f'{fname} :: the padding columns are removed symmetrically', f'{TH}:{fname}', 'if pad > 0: M = M[:, pad:-pad]', crop)


_MIN_FUNCS = {'min', 'np.minimum', 'np.minimum.reduce', 'np.min', 'np.amin', 'np.fmin'}
_WRAP_FUNCS = {'map', 'list', 'np.asarray', 'np.array', 'np.stack', 'np.vstack'}


def _periodic_offsets(fname, text):
    """The periodic distance must be a minimum over terms |x + c - p_bar|; returns the set of image offsets c.
    Every |.| term may only sit under min-like calls and container / map wrappers; anything else is outside the vocabulary."""
    tree = ast.parse(text, mode='eval').body
    offs = set()

    def lin(e):
        # linear form {name: coeff, 1: const} of +,-,unary minus over names and numbers
        if isinstance(e, ast.Constant) and isinstance(e.value, (int, float)):
            return {1: e.value}
        if isinstance(e, ast.Name):
            return {e.id: 1}
        if isinstance(e, ast.UnaryOp) and isinstance(e.op, ast.USub):
            return {k: -v for k, v in lin(e.operand).items()}
        if isinstance(e, ast.BinOp) and isinstance(e.op, (ast.Add, ast.Sub)):
            a, b = lin(e.left), lin(e.right)
            sg = 1 if isinstance(e.op, ast.Add) else -1
            out = dict(a)
            for k, v in b.items():
                out[k] = out.get(k, 0) + sg * v
            return out
        raise AnalysisError(f'{fname}: term `{ast.unparse(e)}` of the periodic distance is outside the vocabulary of C11.R9')

    def visit(e, under_min):
        if isinstance(e, ast.Call):
            f = ast.unparse(e.func)
            if f in ('np.abs', 'abs', 'np.absolute', 'np.fabs') and len(e.args) == 1:
                if not under_min:
                    raise AnalysisError(f'{fname}: |.| term outside a minimum in the periodic distance')
                form = {k: v for k, v in lin(e.args[0]).items() if v != 0}
                const = form.pop(1, 0)
                names = sorted(form)
                if len(names) != 2 or 'p_bar' not in names or form['p_bar'] * form[[n for n in names if n != 'p_bar'][0]] != -1:
                    raise AnalysisError(f'{fname}: |{ast.unparse(e.args[0])}| is not of the form |x + c - p_bar|')
                offs.add(int(const * (-form['p_bar'])) if float(const).is_integer() else const * (-form['p_bar']))
                return
            if f in _MIN_FUNCS:
                for a in e.args:
                    visit(a, True)
                return
            if f in _WRAP_FUNCS:
                for a in e.args:
                    visit(a, under_min)
                return
            raise AnalysisError(f'{fname}: call `{f}` in the periodic distance is outside the vocabulary of C11.R9')
        if isinstance(e, (ast.List, ast.Tuple)):
            for a in e.elts:
                visit(a, under_min)
            return
        if isinstance(e, ast.Lambda):
            visit(e.body, under_min)
            return
        if isinstance(e, ast.Name):
            return
        raise AnalysisError(f'{fname}: `{ast.unparse(e)[:60]}` in the periodic distance is outside the vocabulary of C11.R9')

    visit(tree, False)
    return offs



@rule('C11', 'C11.R9', 'transfer_helper: neighbour selection takes the k NEAREST points (ascending distance, first k) and returns their indices in ascending order; callers ask for k = the order', floor=4)
def r9(ctx, R):
    repo = ctx.repo
    for fname, dist in (('next_neighbors', 'np.abs(ps - p)'), ('next_neighbors_periodic', None)):
        fn = repo.func(TH, fname)
        w = f'{TH}:{fname}'
        R.fn(w)
        st = {ast.unparse(s.targets[0]): ast.unparse(s.value) for s in walk_no_nested(fn) if isinstance(s, ast.Assign) and len(s.targets) == 1}
        ret = [ast.unparse(s.value) for s in walk_no_nested(fn) if isinstance(s, ast.Return)]
        if 'distance_to_p' not in st or len(ret) != 1:
            raise AnalysisError(f'{fname}: no single `distance_to_p` / return - re-confirm rule C11.R9 against the new implementation')
        lam = lambda t: re.sub(r'lambda (\w+): \1\[', 'lambda s: s[', t).replace('[0:k]', '[:k]')
        if 'value_index_sorted' in st:
            # idiom 1: explicit (distance, index) pairs, python's stable sort, first k, indices ascending
            ok = lam(st.get('value_index_sorted')) == 'sorted(value_index, key=lambda s: s[0])' and [lam(r) for r in ret] == ['sorted(map(lambda s: s[1], value_index_sorted[:k]))']
            app = [ast.unparse(c) for c in ast.walk(fn) if isinstance(c, ast.Call) and ast.unparse(c.func) == 'value_index.append']
            ok = ok and app == ['value_index.append((d, i))']
            zl = [ast.unparse(l.iter) for l in walk_no_nested(fn) if isinstance(l, ast.For)]
            ok = ok and zl == ['zip(distance_to_p, range(distance_to_p.size), strict=True)']
            got = {'sort': st.get('value_index_sorted'), 'return': ret, 'pairs': app, 'loop': zl}
        else:
            # idiom 2: a STABLE argsort of the distances, first k, indices ascending (ties go to the lower index, as in idiom 1)
            r0 = lam(ret[0]).replace('.tolist()', '')
            m = re.fullmatch(r"sorted\(np\.argsort\(distance_to_p, kind='(\w+)'\)\[:k\]\)", r0)
            if not m:
                raise AnalysisError(f'{fname}: neither the (distance, index) sorting idiom nor a stable argsort - re-confirm rule C11.R9 against the new implementation')
            ok = m.group(1) in ('stable', 'mergesort')
            got = {'return': ret}
        R.check(ok, f'{fname} :: (distance, index) pairs sorted ascending by distance, first k, indices ascending', w, 'sorted(pairs, key=distance)[0:k] -> sorted indices  |  sorted(argsort(distance, stable)[:k])', got)
        if dist:
            R.check(st.get('distance_to_p') == dist, f'{fname} :: distance is |ps - p|', w, dist, st.get('distance_to_p'))
        else:
            d = st.get('distance_to_p', '')
            offs = _periodic_offsets(fname, d)
            okd = offs == {-1, 0, 1} and st.get('p_bar') == 'p - np.floor(p / 1.0) * 1.0'
            R.check(okd, f'{fname} :: distance is the minimum over the periodic images -1, 0, +1 of the point reduced to [0,1)', w, 'min(|tk+1-p|, |tk-p|, |tk-1-p|) with p reduced to [0,1)', {'image offsets': sorted(offs), 'p_bar': st.get('p_bar'), 'expr': d[:140]})
    calls = []
    for fname in ('restriction_matrix_1d', 'interpolation_matrix_1d'):
        fn = repo.func(TH, fname)
        for c in ast.walk(fn):
            if isinstance(c, ast.Call) and ast.unparse(c.func) in ('next_neighbors', 'next_neighbors_periodic'):
                calls.append((fname, ast.unparse(c)))
    want = {('restriction_matrix_1d', 'next_neighbors_periodic(p, fine_grid, k)'), ('restriction_matrix_1d', 'next_neighbors(p, padded_f_grid, k)'), ('interpolation_matrix_1d', 'next_neighbors_periodic(p, coarse_grid, k)'), ('interpolation_matrix_1d', 'next_neighbors(p, padded_c_grid, k)')}
    R.check(set(calls) == want and len(calls) == 4, 'matrix builders :: k neighbours of the target point p in the SOURCE grid (padded when not periodic)', TH, sorted(want), sorted(calls))


@rule('C11', 'C11.R10', 'the mass-matrix base transfer applies the FULL collocation restriction (every fine node, every row of Rcoll) to values, defects and an inherited tau, like the base class (clause-wise check shared with C10.R5)', floor=5)
def r10(ctx, R):
    from . import c10
    c10.r5(ctx, R)


@rule('C11', 'C11.R11', 'every construction of a 1-d transfer matrix inside one transfer class is told the same things: the call sites of a transfer_helper builder within one function pass the same keyword options (periodic, equidist_nested, ..) from the same parameters - one site that leaves `periodic` out falls back to the non-periodic stencil for that branch only (1-d vs n-d, restriction vs interpolation)', floor=4)
def r11(ctx, R):
    repo = ctx.repo
    n = 0
    for m, ci, fn in repo.all_functions():
        if not m.relpath.startswith('pySDC/implementations/transfer_classes/'):
            continue
        sites = {}
        for c in ast.walk(fn):
            if isinstance(c, ast.Call) and isinstance(c.func, ast.Attribute) and ast.unparse(c.func.value) in ('th', 'transfer_helper') and c.func.attr.endswith('_matrix_1d'):
                sites.setdefault(c.func.attr, []).append(c)
        for name, cs in sites.items():
            if len(cs) < 2:
                continue
            w = f'{m.relpath}:{(ci.name + ".") if ci else ""}{fn.name}'
            R.fn(w)
            opts = [{k.arg: ast.unparse(k.value) for k in c.keywords if k.arg not in (None, 'k', 'pad')} for c in cs]
            allk = sorted(set().union(*[set(o) for o in opts]))
            for c, o in zip(cs, opts):
                n += 1
                lack = [k for k in allk if k not in o]
                differ = [k for k in allk if k in o and any(k in p and p[k] != o[k] for p in opts)]
                R.check(not lack and not differ, f'{fn.name} :: th.{name}(..) at line {c.lineno} passes the options of its sibling call sites', w, {k: opts[0].get(k) for k in allk}, {'missing': lack, 'different': differ})
    if n < 4:
        raise AnalysisError(f'C11.R11: only {n} sibling call sites of transfer_helper builders found')


@rule('C11', 'C11.R12', 'FFT prolongation copies EVERY mode the coarse grid resolves: the zero-padded fine spectrum receives coarse_hat[0 : Nc // 2] (all non-negative wavenumbers below the coarse Nyquist mode) at the same indices, plus the last entry; a shorter slice drops the highest resolved mode (band-limited data is not reproduced, injection after prolongation is not the identity)', floor=3)
def r12(ctx, R):
    from ..inline import facts as _facts
    repo = ctx.repo
    rel = TC + 'TransferMesh_FFT.py'
    fn = repo.func(rel, 'mesh_to_mesh_fft.prolong')
    w = f'{rel}:mesh_to_mesh_fft.prolong'
    R.fn(w)
    inner = [f for f in ast.walk(fn) if isinstance(f, ast.FunctionDef) and f is not fn]
    if len(inner) != 1:
        raise AnalysisError(f'C11.R12: expected one inner helper in mesh_to_mesh_fft.prolong, found {len(inner)}')
    fs = _facts(inner[0])
    arg = inner[0].args.args[0].arg
    spec = f'np.fft.rfft({arg})'
    pad = [f[1] for f in fs if f[0] == 'assign' and f[2].startswith('np.zeros(self.fine_prob.init[0] // 2 + 1')]
    stores = [(f[1], f[2]) for f in fs if f[0] == 'store']
    nc = 'self.coarse_prob.init[0] // 2'
    lo = [(t, v) for t, v in stores if ':' in t]
    ok = len(pad) == 1 and len(lo) == 1 and lo[0] == (f'{pad[0]}[0:{nc}]', f'{spec}[0:{nc}]')
    R.check(ok, 'mesh_to_mesh_fft.prolong :: padded[0 : Nc//2] = rfft(coarse)[0 : Nc//2] (same slice on both sides, all resolved modes)', w, f'padded[0:{nc}] = {spec}[0:{nc}]', lo)
    last = [(t, v) for t, v in stores if t.endswith('[-1]')]
    R.check(len(pad) == 1 and last == [(f'{pad[0]}[-1]', f'{spec}[-1]')], 'mesh_to_mesh_fft.prolong :: the last entry of the padded spectrum takes the last coarse entry', w, 'padded[-1] = rfft(coarse)[-1]', last)
    rets = [f[1] for f in fs if f[0] == 'return']
    R.check(len(rets) == 1 and rets[0] == 'np.fft.irfft(_v1) * self.ratio' or (len(rets) == 1 and re.fullmatch(r'np\.fft\.irfft\(\w+\) \* self\.ratio', rets[0]) is not None), 'mesh_to_mesh_fft.prolong :: back transform scaled by the grid ratio', w, 'np.fft.irfft(fine_hat) * self.ratio', rets)


@rule('C11', 'C11.R13', 'the tensor-product transfer has one factor PER DIMENSION: the loop that builds the 1-d operators and the loops that multiply them up run over all len(nvars) directions', floor=3)
def r13(ctx, R):
    repo = ctx.repo
    rel = TC + 'TransferMesh.py'
    fn = repo.func(rel, 'mesh_to_mesh.__init__')
    w = f'{rel}:mesh_to_mesh.__init__'
    R.fn(w)
    loops = [l for l in ast.walk(fn) if isinstance(l, ast.For) and any(isinstance(c, ast.Call) and isinstance(c.func, ast.Attribute) and c.func.attr in ('append', 'kron') and ('space' in ast.unparse(c).lower()) for c in ast.walk(l))]
    build = [l for l in loops if any(isinstance(c, ast.Call) and isinstance(c.func, ast.Attribute) and c.func.attr == 'append' for c in ast.walk(l))]
    mult = [l for l in loops if l not in build]
    R.check(len(build) == 1 and ast.unparse(build[0].iter) in ('range(len(self.fine_prob.nvars))', 'range(len(self.coarse_prob.nvars))'), 'mesh_to_mesh.__init__ :: one 1-d interpolation / restriction matrix per direction', w, 'for i in range(len(self.fine_prob.nvars))', [ast.unparse(l.iter) for l in build])
    for l in mult:
        R.check(re.fullmatch(r'range\(1, len\((Pspace|Rspace|self\.fine_prob\.nvars)\)\)', ast.unparse(l.iter)) is not None, 'mesh_to_mesh.__init__ :: the Kronecker product takes in every remaining direction', w, 'for i in range(1, len(Pspace))', ast.unparse(l.iter))
    if len(mult) < 2:
        raise AnalysisError(f'C11.R13: expected the two Kronecker accumulation loops, found {len(mult)}')
