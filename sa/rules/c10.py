"""C10 - coarse levels never change the fine fixed point (FAS consistency; structural clauses)."""

import ast
import re

from ..cfg import FuncCFG, walk_no_nested
from ..model import AnalysisError
from ..norm import Normalizer, Affine, to_affine
from ..runner import rule
from .. import controllers as ct

BT = 'pySDC/core/base_transfer.py'
TC = 'pySDC/implementations/transfer_classes/'
SIBS = [(BT, 'BaseTransfer'), (TC + 'BaseTransfer_mass.py', 'base_transfer_mass'), (TC + 'BaseTransferMPI.py', 'base_transfer_MPI')]

F, G = 'self.fine', 'self.coarse'
MF, MG = f'{F}.sweep.coll.num_nodes', f'{G}.sweep.coll.num_nodes'


def _aff(s):
    return to_affine(ast.parse(s, mode='eval').body)


def _norm(repo, rel, cn, meth):
    fn = repo.func(rel, f'{cn}.{meth}')
    return fn, Normalizer(fn, inline_scalars=False)


def _row_sum(N, target, mat):
    """collect  target (=|+=) Σ mat[row, col]·vec[col]  -> (row affine, vector base name, merged col interval [lo, hi], signs)

    handles the peeled form `X = M[r,0]*v[0]; for m in 1..: X += M[r,m]*v[m]` and the plain double loop."""
    cs = [c for c in N.contribs if c.target == target and c.terms and any(any(f.startswith(mat + '[') for f in fac) for _, fac in c.terms)]
    ivals, rows, vecs, signs, ops = [], set(), set(), set(), []
    for c in cs:
        for sgn, fac in c.terms:
            m = [f for f in fac if f.startswith(mat + '[')]
            v = [f for f in fac if not f.startswith(mat + '[')]
            if len(m) != 1 or len(v) != 1:
                return None
            mm = re.fullmatch(re.escape(mat) + r'\[(.+), (.+)\]', m[0])
            vm = re.fullmatch(r'(\w+)\[(.+)\]', v[0])
            if not mm or not vm:
                return None
            row, col, vcol = _aff(mm.group(1)), _aff(mm.group(2)), _aff(vm.group(2))
            if col != vcol:
                return {'error': f'vector index {vm.group(2)} differs from the matrix column {mm.group(2)}'}
            lo = hi = col
            for l in reversed(c.loops):
                if l.kind == 'range' and l.var in col.coeffs:
                    lo, hi = col.subst(l.var, l.lo), col.subst(l.var, l.hi)
                    break
            ivals.append((lo, hi))
            rows.add(str(row))
            vecs.add(vm.group(1))
            signs.add(sgn)
            ops.append(c.op)
    if not ivals:
        return None
    # merge adjacent intervals
    ivals.sort(key=lambda p: (p[0].const, str(p[0])))
    lo, hi = ivals[0]
    for a, b in ivals[1:]:
        if a == hi + Affine(1):
            hi = b
        else:
            return {'error': f'column intervals {[(str(x), str(y)) for x, y in ivals]} are not contiguous'}
    return {'rows': rows, 'vec': vecs, 'lo': lo, 'hi': hi, 'signs': signs, 'ops': ops, 'contribs': cs}


def _order(N, *preds):
    """indices (in contribution order) of the first contribution satisfying each predicate; None if missing"""
    out = []
    for p in preds:
        idx = [i for i, c in enumerate(N.contribs) if p(c)]
        out.append(idx)
    return out


@rule('C10', 'C10.R1', 'BaseTransfer.restrict: tau_c = Rcoll R(dt Q_f F_f) - dt Q_c F_c(R u) (+ Rcoll R tau_f); coarse f from the restricted u; uold/fold are final copies', floor=12)
def r1(ctx, R):
    _restrict_checks(ctx, R, BT, 'BaseTransfer', mass=False)


def _restrict_checks(ctx, R, rel, cn, mass):
    """clause-by-clause decision of a restrict() implementation; `mass` selects the documented variations of the mass-matrix
    sibling: node values are PROJECTED, both integrals are turned into defects M u - dt Q F, tau is coarse defect - restricted
    fine defect, and on the finest level the coarse u[0] finally holds the restricted M u0"""
    repo = ctx.repo
    fn, N = _norm(repo, rel, cn, 'restrict')
    w = f'{rel}:{cn}.restrict'
    R.fn(w)
    SPU = 'project' if mass else 'restrict'
    C = N.contribs
    def one(pred, what):
        xs = [c for c in C if pred(c)]
        return xs

    # (b) spatial restriction of every fine node value
    ru = one(lambda c: c.rhs == f'self.space_transfer.{SPU}({F}.u[i1])' and re.fullmatch(r'\w+\[i1 - 1\]', c.target), 'R(F.u[m])')
    ok = len(ru) == 1 and str(ru[0].loops[0].hi) == MF
    R.check(ok, 'restrict :: every fine node value is restricted in space', w, f'tmp[m-1] = space.restrict(F.u[m]) for m = 1..{MF}', [c.describe() for c in ru])
    tmpu = ru[0].target.split('[')[0] if ru else 'tmp_u'
    u0 = one(lambda c: c.target == f'{G}.u[0]', '')
    if mass:
        ok0 = len(u0) == 2 and u0[0].rhs == f'self.space_transfer.project({F}.u[0])' and u0[1].rhs == f'self.space_transfer.restrict({F}.prob.apply_mass_matrix({F}.u[0]))' and f'{F}.level_index == 0' in u0[1].guards and all(C.index(u0[1]) > C.index(c) for c in C if c.target.startswith((f'{G}.uold[', f'{G}.fold[', f'{G}.tau[')))
        R.check(ok0, 'restrict :: coarse u[0] is the projected fine u[0]; on the finest level it is finally replaced by the restricted M u0 (after tau and the uold/fold copies were taken)', w, 'G.u[0] = space.project(F.u[0]) ... G.u[0] = space.restrict(M_f F.u[0]) if F.level_index == 0', [c.describe() for c in u0])
        mass_u0 = u0[1] if len(u0) == 2 else None
        u0 = u0[:1]
    else:
        R.check(len(u0) == 1 and u0[0].rhs == f'self.space_transfer.restrict({F}.u[0])', 'restrict :: coarse u[0] is the restricted fine u[0]', w, 'G.u[0] = space.restrict(F.u[0])', [c.describe() for c in u0])
    # (c) collocation restriction with the full row of Rcoll
    rs = _row_sum(N, f'{G}.u[i1]', 'self.Rcoll')
    ok = rs is not None and 'error' not in rs and rs['rows'] == {'i1-1'} and rs['vec'] == {tmpu} and rs['lo'] == Affine(0) and rs['hi'] == Affine(-1, {MF: 1}) and rs['signs'] == {1} and rs['ops'].count('=') <= 1
    ok = ok and all(c.loops and repr(c.loops[0]) == f'i1=1..{MG}' for c in rs['contribs'])
    R.check(ok, 'restrict :: G.u[n] = sum over the FULL row n of Rcoll times the restricted fine values', w, f'columns 0..{MF}-1, row n-1, vector index = column', rs if not rs or 'error' in rs else {k: str(v) for k, v in rs.items() if k != 'contribs'})
    # .. and nothing else defines a coarse node value: no second, unconditional or conditional, way of filling G.u[n]
    if rs and 'contribs' in rs:
        zero_init = re.compile(rf'{re.escape(G)}\.prob\.(dtype_u\({re.escape(G)}\.prob\.init(, val=0(\.0)?)?\)|u_init)')
        others = [c.describe()[:140] for c in C if re.fullmatch(rf'{re.escape(G)}\.u\[(?!0\])[^\]]+\]', c.target) and c not in rs['contribs'] and not (c.op == '=' and zero_init.fullmatch(c.rhs or '') and not [g for g in c.guards if g != f'{F}.status.unlocked'])]
        cond = [c.describe()[:140] for c in rs['contribs'] if [g for g in c.guards if g != f'{F}.status.unlocked']]
        R.check(not others and not cond, 'restrict :: the Rcoll row sum is the ONLY definition of the coarse node values and it is unconditional', w, 'no other store into G.u[n], no extra guard', {'other stores': others, 'guarded row sums': cond})
    # (d) coarse f re-evaluated from the restricted u at coarse node times
    f0 = one(lambda c: c.target == f'{G}.f[0]', '')
    fn_ = one(lambda c: c.target == f'{G}.f[i1]', '')
    ok = len(f0) == 1 and f0[0].rhs == f'{G}.prob.eval_f({G}.u[0], {G}.time)' and len(fn_) == 1 and fn_[0].rhs == f'{G}.prob.eval_f({G}.u[i1], {G}.time + {G}.dt * {G}.sweep.coll.nodes[i1 - 1])' and str(fn_[0].loops[0].hi) == MG
    R.check(ok, 'restrict :: coarse f re-evaluated from the restricted u at the coarse node times', w, 'G.f[n] = PG.eval_f(G.u[n], G.time + G.dt*nodes_G[n-1]) for all n', [c.describe() for c in f0 + fn_])
    # (e) integrals, in dependency order
    tg = one(lambda c: c.rhs == f'{G}.sweep.integrate()', '')
    tf = one(lambda c: c.rhs == f'{F}.sweep.integrate()', '')
    idx = {id(c): i for i, c in enumerate(C)}
    last_uf = max([idx[id(c)] for c in C if (c.target.startswith(f'{G}.u[') or c.target.startswith(f'{G}.f[')) and not (mass and c is mass_u0)] or [-1])
    ok = len(tg) == 1 and len(tf) == 1 and all(idx[id(c)] < idx[id(tg[0])] for c in (fn_ + f0 + (rs['contribs'] if rs and 'contribs' in rs else [])))
    R.check(ok, 'restrict :: coarse integral dt Q_c F_c(R u) is taken AFTER coarse u and f are final', w, 'tauG = G.sweep.integrate() after the last write to G.u / G.f', [c.describe() for c in tg])
    tGn = tg[0].target if tg else 'tauG'
    tFn = tf[0].target if tf else 'tauF'
    if mass:
        # both integrals are turned into defects M u - dt Q F before they are combined
        dG = one(lambda c: c.target == f'{tGn}[i1 - 1]' and c.op == '=', '')
        dF = one(lambda c: c.target == f'{tFn}[i1 - 1]' and c.op == '=', '')
        okd = len(dG) == 1 and dG[0].describe().startswith(f'{tGn}[i1 - 1] = +{G}.prob.apply_mass_matrix({G}.u[i1]) -{tGn}[i1 - 1] for i1=1..{MG}') and len(dF) == 1 and dF[0].describe().startswith(f'{tFn}[i1 - 1] = +{F}.prob.apply_mass_matrix({F}.u[i1]) -{tFn}[i1 - 1] for i1=1..{MF}')
        okd = okd and idx[id(dG[0])] > idx[id(tg[0])] and idx[id(dF[0])] > idx[id(tf[0])]
        R.check(okd, 'restrict :: coarse and fine integrals become the defects M u[n] - (dt Q F)[n] on their own level, for every node', w, 'tauG[n-1] = M_c G.u[n] - tauG[n-1]; tauF[m-1] = M_f F.u[m] - tauF[m-1]', [c.describe()[:150] for c in dG + dF])
    # (f) fine integral restricted in space, then full row of Rcoll
    rt = one(lambda c: c.rhs == f'self.space_transfer.restrict({tFn}[i1 - 1])', '')
    ok = len(rt) == 1 and str(rt[0].loops[0].hi) == MF
    R.check(ok, 'restrict :: the fine integral is restricted in space node by node', w, f'tmp[m] = space.restrict(tauF[m]) for m = 0..{MF}-1', [c.describe() for c in rt])
    tmpt = rt[0].target.split('[')[0] if rt else 'tmp_tau'
    tau_def = one(lambda c: c.target == f'{G}.tau[i1 - 1]' and c.op == '=', '')
    ok = len(tau_def) == 1 and tau_def[0].terms is not None and len(tau_def[0].terms) == 2
    tfg = None
    if ok:
        terms = dict((f[0], s) for s, f in tau_def[0].terms if len(f) == 1)
        plus = [k for k, s in terms.items() if s > 0]
        minus = [k for k, s in terms.items() if s < 0]
        if mass:
            plus, minus = minus, plus  # defects: tau = coarse defect - restricted fine defect
        ok = len(plus) == 1 and minus == [f'{tGn}[i1 - 1]'] and re.fullmatch(r'\w+\[i1 - 1\]', plus[0]) is not None
        tfg = plus[0].split('[')[0] if ok else None
    R.check(ok, 'restrict :: tau[n] = + restricted fine integral[n] - coarse integral[n]' if not mass else 'restrict :: tau[n] = + coarse defect[n] - restricted fine defect[n]', w, f'G.tau[n] = tauFG[n] - {tGn}[n]' if not mass else f'G.tau[n] = {tGn}[n] - tauFG[n]', [c.describe() for c in tau_def])
    if tfg:
        rs2 = _row_sum(N, f'{tfg}[i1 - 1]', 'self.Rcoll')
        ok = rs2 is not None and 'error' not in rs2 and rs2['rows'] == {'i1-1'} and rs2['vec'] == {tmpt} and rs2['lo'] == Affine(0) and rs2['hi'] == Affine(-1, {MF: 1}) and rs2['signs'] == {1}
        R.check(ok, 'restrict :: restricted fine integral uses the FULL row of Rcoll', w, f'columns 0..{MF}-1', rs2 if not rs2 or 'error' in rs2 else {k: str(v) for k, v in rs2.items() if k != 'contribs'})
    # (h) inherited tau on three levels
    rs3 = _row_sum(N, f'{G}.tau[i1 - 1]', 'self.Rcoll')
    inh = one(lambda c: c.rhs == f'self.space_transfer.restrict({F}.tau[i1 - 1])', '')
    ok = rs3 is not None and 'error' not in rs3 and rs3['ops'] and all(o == '+=' for o in rs3['ops']) and rs3['signs'] == {1} and rs3['lo'] == Affine(0) and rs3['hi'] == Affine(-1, {MF: 1}) and rs3['rows'] == {'i1-1'}
    ok = ok and all(f'{F}.tau[0] is not None' in c.guards for c in rs3['contribs']) and len(inh) == 1 and f'{F}.tau[0] is not None' in inh[0].guards and rs3['vec'] == {inh[0].target.split('[')[0]}
    # ... and that is the ONLY way the inherited tau enters: every `+=` into G.tau is one of the Rcoll-weighted contributions,
    # under exactly the is-not-None guard (a shortcut `if equal node counts: tau[n] += tmp[n]` bypasses the time restriction)
    if ok:
        allplus = [c for c in N.contribs if re.match(rf'{re.escape(G)}\.tau\[', c.target) and c.op == '+=']
        extra = [c.describe()[:120] for c in allplus if c not in rs3['contribs']]
        common = set(tau_def[0].guards) if tau_def else set()
        narrowed = [c.describe()[:120] for c in rs3['contribs'] if [g for g in c.guards if g != f'{F}.tau[0] is not None' and g not in common]]
        ok = not extra and not narrowed
    R.check(ok, 'restrict :: an inherited fine tau is restricted (space, then full row of Rcoll) and ADDED to the coarse tau', w, f'if F.tau[0] is not None: G.tau[n] += sum_m Rcoll[n,m] * R(F.tau[m])', None if rs3 is None else {k: str(v) for k, v in rs3.items() if k != 'contribs'})
    if rs3 and 'contribs' in rs3 and tau_def:
        R.check(all(idx[id(c)] > idx[id(tau_def[0])] for c in rs3['contribs']), 'restrict :: inherited part is added after tau was defined', w, 'definition precedes +=', 'order')
    # (i) uold/fold are copies made after u and f are final
    uo = one(lambda c: c.target == f'{G}.uold[i1]', '')
    fo = one(lambda c: c.target == f'{G}.fold[i1]', '')
    ok = len(uo) == 1 and uo[0].rhs == f'{G}.prob.dtype_u({G}.u[i1])' and len(fo) == 1 and fo[0].rhs == f'{G}.prob.dtype_f({G}.f[i1])' and str(uo[0].loops[0].hi) == MG and str(fo[0].loops[0].hi) == MG
    ok = ok and idx[id(uo[0])] > last_uf and idx[id(fo[0])] > last_uf
    R.check(ok, 'restrict :: uold/fold are datatype copies of the final coarse u/f (reference for the coarse correction)', w, 'G.uold[n] = dtype_u(G.u[n]); G.fold[n] = dtype_f(G.f[n]) after the last write to G.u/G.f', [c.describe() for c in uo + fo])
    un = one(lambda c: c.target == f'{G}.status.unlocked', '')
    R.check(len(un) == 1 and un[0].rhs == 'True', 'restrict :: coarse level unlocked at the end', w, 'G.status.unlocked = True', [c.describe() for c in un])


def _prolong_checks(R, repo, rel, cn, meth, exact=True):
    fn, N = _norm(repo, rel, cn, meth)
    w = f'{rel}:{cn}.{meth}'
    R.fn(w)
    C = N.contribs
    FF = F
    GG = G
    # the prolonged quantity is the coarse CORRECTION
    pro = [c for c in C if c.rhs and c.rhs.startswith('self.space_transfer.prolong(')]
    want = {'u': rf'{re.escape(GG)}\.u\[(.+)\] - {re.escape(GG)}\.uold\[\1\]'}
    if meth == 'prolong_f':
        want['f'] = rf'{re.escape(GG)}\.f\[(.+)\] - {re.escape(GG)}\.fold\[\1\]'
    got = {}
    for c in pro:
        arg = c.rhs[len('self.space_transfer.prolong('):-1]
        for k, rx in want.items():
            if re.fullmatch(rx, arg):
                got[k] = c
    R.check(set(got) == set(want) and len(pro) == len(want), f'{cn}.{meth} :: only the coarse correction (new - old) is prolonged', w, sorted(want), [c.rhs for c in pro])
    if exact:
        # the list of prolonged corrections is aligned with the nodes: entry m-1 holds the correction of node m, for every coarse node
        for k, c in got.items():
            arg_idx = re.fullmatch(want[k], c.rhs[len('self.space_transfer.prolong('):-1]).group(1)
            ok = re.fullmatch(r'\w+\[i1 - 1\]', c.target) is not None and arg_idx == 'i1' and len(c.loops) == 1 and repr(c.loops[0]) == f'i1=1..{MG}'
            R.check(ok, f'{cn}.{meth} :: prolonged {k}-corrections are collected for every coarse node m = 1..M_c at list position m-1', w, f'tmp[m-1] = prolong(G.{k}[m] - G.{k}old[m]) for m = 1..M_c', c.describe()[:160])
    # it is ADDED to the fine values
    for k in want:
        tgt = [c for c in C if re.match(rf'{re.escape(FF)}\.{k}\[', c.target) and c.op in ('=', '+=') and not (c.rhs or '').startswith(f'{FF}.prob.eval_f')]
        ok = bool(tgt) and all(c.op == '+=' and all(s > 0 for s, _ in c.terms) for c in tgt)
        if exact and ok and k in got:
            rs = _row_sum(N, f'{F}.{k}[i1]', 'self.Pcoll')
            ok = rs is not None and 'error' not in rs and rs['rows'] == {'i1-1'} and rs['vec'] == {got[k].target.split('[')[0]} and rs['lo'] == Affine(0) and rs['hi'] == Affine(-1, {MG: 1})
            # every fine node is updated: the outer loop runs over 1..MF
            ok = ok and all(c.loops and repr(c.loops[0]) == f'i1=1..{MF}' for c in rs['contribs'])
        R.check(ok, f'{cn}.{meth} :: fine {k} is updated by += (full row of Pcoll times the prolonged correction)', w, f'F.{k}[n] += sum_m Pcoll[n,m] * P(G.{k}[m] - G.{k}old[m])', [c.describe()[:160] for c in tgt])
        if exact and ok:
            condp = [c.describe()[:140] for c in tgt if [g for g in c.guards if g != f'{GG}.status.unlocked']]
            R.check(not condp, f'{cn}.{meth} :: the update of fine {k} is unconditional', w, 'no guard besides the lock test', condp)
    ev = [c for c in C if c.rhs and c.rhs.startswith(f'{FF}.prob.eval_f(')]
    if meth == 'prolong':
        upd = [i for i, c in enumerate(C) if re.match(rf'{re.escape(FF)}\.u\[', c.target) and c.op == '+=']
        ok = len(ev) == 1 and re.match(rf'{re.escape(FF)}\.f\[', ev[0].target) and upd and C.index(ev[0]) > max(upd)
        if ok and exact:
            ok = ev[0].rhs == f'{F}.prob.eval_f({F}.u[i1], {F}.time + {F}.dt * {F}.sweep.coll.nodes[i1 - 1])' and str(ev[0].loops[0].hi) == MF
        R.check(ok, f'{cn}.prolong :: fine f re-evaluated at every node after the update', w, 'F.f[n] = PF.eval_f(F.u[n], t_n) after F.u[n] += ..', [c.describe()[:160] for c in ev])
    else:
        R.check(not ev, f'{cn}.prolong_f :: f is prolonged, not re-evaluated', w, 'no eval_f call', [c.describe()[:100] for c in ev])


@rule('C10', 'C10.R2', 'BaseTransfer.prolong / prolong_f: fine += Pcoll P(coarse - coarse_old); f re-evaluated (prolong) or prolonged as a difference (prolong_f)', floor=7)
def r2(ctx, R):
    _prolong_checks(R, ctx.repo, BT, 'BaseTransfer', 'prolong')
    _prolong_checks(R, ctx.repo, BT, 'BaseTransfer', 'prolong_f')


@rule('C10', 'C10.R3', 'sibling transfers (mass matrix, MPI) keep the shape: difference prolongation, inherited tau added under its guard, uold/fold copies, opposite signs of the two tau parts', floor=20)
def r3(ctx, R):
    repo = ctx.repo
    for rel, cn in SIBS[1:]:
        ci = repo.cls(rel, cn)
        for meth in ('prolong', 'prolong_f'):
            if meth in ci.methods:
                if any(isinstance(s, ast.Raise) for s in walk_no_nested(ci.methods[meth])) and len(ci.methods[meth].body) <= 3:
                    R.exc(f'{cn}.{meth} :: not implemented (raises)', f'{rel}:{cn}.{meth}', 'sibling refuses this mode')
                    continue
                _prolong_checks(R, repo, rel, cn, meth, exact=(cn != 'base_transfer_MPI'))
        fn, N = _norm(repo, rel, cn, 'restrict')
        w = f'{rel}:{cn}.restrict'
        R.fn(w)
        C = N.contribs
        FF = F
        GG = G
        td = [c for c in C if re.match(rf'{re.escape(GG)}\.tau\[', c.target) and c.op == '=']
        ok = len(td) == 1 and td[0].terms and len(td[0].terms) == 2 and sorted(s for s, _ in td[0].terms) == [-1, 1]
        R.check(ok, f'{cn}.restrict :: tau is the DIFFERENCE of the restricted fine part and the coarse part', w, 'two terms of opposite sign', [c.describe()[:140] for c in td])
        ti = [c for c in C if re.match(rf'{re.escape(GG)}\.tau\[', c.target) and c.op == '+=']
        ok = len(ti) == 1 and all(s > 0 for s, _ in ti[0].terms) and any(re.fullmatch(rf'{re.escape(FF)}\.tau\[.+\] is not None', g) for g in ti[0].guards)
        R.check(ok, f'{cn}.restrict :: inherited fine tau is added (+=) under its is-not-None guard', w, 'G.tau[..] += restricted F.tau under `F.tau[..] is not None`', [c.describe()[:140] for c in ti])
        uo = [c for c in C if re.match(rf'{re.escape(GG)}\.uold\[', c.target)]
        fo = [c for c in C if re.match(rf'{re.escape(GG)}\.fold\[', c.target)]
        ok = len(uo) == 1 and re.fullmatch(rf'{re.escape(GG)}\.prob\.dtype_u\({re.escape(GG)}\.u\[.+\]\)', uo[0].rhs or '') and len(fo) == 1 and re.fullmatch(rf'{re.escape(GG)}\.prob\.dtype_f\({re.escape(GG)}\.f\[.+\]\)', fo[0].rhs or '')
        if ok:
            i_u = C.index(uo[0])
            slot = re.search(r'\.u\[(.+)\]\)$', uo[0].rhs).group(1)
            later = [c for c in C[i_u + 1:] if c.target == f'{GG}.u[{slot}]']
            ok = not later
        R.check(ok, f'{cn}.restrict :: uold/fold are datatype copies, taken after the copied slots are final', w, 'G.uold[n] = dtype_u(G.u[n]); G.fold[n] = dtype_f(G.f[n])', [c.describe()[:120] for c in uo + fo])
        tg = [c for c in C if c.rhs == f'{GG}.sweep.integrate()']
        fe = [c for c in C if re.match(rf'{re.escape(GG)}\.f\[', c.target) and 'eval_f' in (c.rhs or '')]
        ok = len(tg) == 1 and fe and all(C.index(c) < C.index(tg[0]) for c in fe)
        R.check(ok, f'{cn}.restrict :: coarse integral taken after the coarse f was re-evaluated', w, 'eval_f ... then G.sweep.integrate()', [c.describe()[:100] for c in tg])


@rule('C10', 'C10.R4', 'stage order: down = transfer then mid-level sweeps then transfer; coarse sweep on the last level; up = prolong descending, sweeps only above level 0; transfer registry', floor=12)
def r4(ctx, R):
    repo = ctx.repo
    for spec in (ct.NONMPI, ct.MPI):
        _, hs = ct.handler_table(repo, spec)
        S = 'self.S' if spec[1] == 'controller_MPI' else 'S'
        # ---- down
        h = hs['IT_DOWN']
        R.fn(h.where)
        tr = [(n, {k.arg: ast.unparse(k.value) for k in c.keywords}) for n, c in h.calls('transfer')]
        first = [n for n, kw in tr if kw == {'source': f'{S}.levels[0]', 'target': f'{S}.levels[1]'}]
        mid = [n for n, kw in tr if kw == {'source': f'{S}.levels[l]', 'target': f'{S}.levels[l + 1]'}]
        ups = h.calls('update_nodes')
        ok = len(tr) == 2 and len(first) == 1 and len(mid) == 1 and all(h.cfg.dominates(_a(h, first[0]), _a(h, n)) for n, _ in ups) and len(ups) == 1
        if ok:
            lp = [l for l in h.cfg.loops_of[id(h.cfg.stmt_of[ups[0][0]])] if isinstance(l.iter, ast.Call) and ast.unparse(l.iter.func) == 'range']
            ok = bool(lp) and ast.unparse(lp[0].iter) in ('range(1, self.nlevels - 1)', 'range(1, len(self.S.levels) - 1)') and ast.unparse(ups[0][1].func.value) == f'{S}.levels[l].sweep'
            # the onward transfer of level l follows its sweeps inside the same level loop
            ok = ok and lp[0] in h.cfg.loops_of[id(h.cfg.stmt_of[mid[0]])] and not h.cfg.reachable(_a2(h, mid[0], lp[0]), ups[0][0], without=[h.cfg.node_of[id(lp[0])]])
        R.check(ok, f'{spec[1]}.it_down :: restrict 0->1 first; sweeps only on middle levels 1..L-2; then restrict l->l+1', h.where, 'transfer(0,1); for l in 1..L-2: sweeps(l); transfer(l,l+1)', [kw for _, kw in tr])
        from . import c07
        c07.sweep_count_checks(R, spec, hs['IT_DOWN'])
        c07.sweep_count_checks(R, spec, hs['IT_UP'])
        # ---- coarse
        h = hs['IT_COARSE']
        R.fn(h.where)
        ups = h.calls('update_nodes')
        ok = len(ups) == 1 and ast.unparse(ups[0][1].func.value) == f'{S}.levels[-1].sweep' and not h.calls('transfer')
        R.check(ok, f'{spec[1]}.it_coarse :: one sweep on the coarsest level, no transfer', h.where, f'{S}.levels[-1].sweep.update_nodes()', [ast.unparse(c.func) for _, c in ups])
        # ---- up
        h = hs['IT_UP']
        R.fn(h.where)
        tr = [(n, {k.arg: ast.unparse(k.value) for k in c.keywords}) for n, c in h.calls('transfer')]
        ups = h.calls('update_nodes')
        ok = len(tr) == 1 and tr[0][1] == {'source': f'{S}.levels[l]', 'target': f'{S}.levels[l - 1]'} and len(ups) == 1
        if ok:
            lp = [l for l in h.cfg.loops_of[id(h.cfg.stmt_of[tr[0][0]])] if isinstance(l.iter, ast.Call) and ast.unparse(l.iter.func) == 'range']
            ok = bool(lp) and ast.unparse(lp[0].iter) in ('range(self.nlevels - 1, 0, -1)', 'range(len(self.S.levels) - 1, 0, -1)')
            g = h.guard_strs(ups[0][0])
            ok = ok and 'l - 1 > 0' in g and ast.unparse(ups[0][1].func.value) == f'{S}.levels[l - 1].sweep' and not h.cfg.reachable(ups[0][0], tr[0][0], without=[h.cfg.node_of[id(lp[0])]])
        R.check(ok, f'{spec[1]}.it_up :: prolong l->l-1 descending; sweep on l-1 only if l-1 > 0, after the prolongation', h.where, 'for l = L-1..1: transfer(l, l-1); if l-1 > 0: sweeps(l-1)', [kw for _, kw in tr])
    rel = 'pySDC/core/step.py'
    fn = repo.func(rel, 'Step.connect_levels')
    w = f'{rel}:Step.connect_levels'
    R.fn(w)
    cfg = FuncCFG(fn)
    reg = {}
    for n, s in cfg.stmt_of.items():
        if isinstance(s, ast.Assign) and 'transfer_dict[' in ast.unparse(s.targets[0]):
            key = ast.unparse(s.targets[0].slice)
            reg.setdefault(key, []).append((ast.unparse(s.value), [ast.unparse(t) if p else f'not ({ast.unparse(t)})' for t, p in cfg.guards[id(s)]]))
    want = {'(fine_level, coarse_level)': [('self.base_transfer.restrict', [])],
            '(coarse_level, fine_level)': [('self.base_transfer.prolong_f', ['self.base_transfer.params.finter']), ('self.base_transfer.prolong', ['not (self.base_transfer.params.finter)'])]}
    R.check(reg == want, 'Step.connect_levels :: (fine, coarse) -> restrict ; (coarse, fine) -> prolong_f iff finter else prolong', w, want, reg)
    tf = repo.func(rel, 'Step.transfer')
    src = ast.unparse(tf)
    R.check('self._Step__transfer_dict[source, target]()' in src or '__transfer_dict[source, target]()' in src, 'Step.transfer :: dispatches on the (source, target) pair', f'{rel}:Step.transfer', '__transfer_dict[(source, target)]()', src[-120:])


def _a(h, node):
    st = h.cfg.stmt_of[node]
    for l in h.cfg.loops_of[id(st)]:
        if isinstance(l, ast.For) and ast.unparse(l.iter) in ('local_MS_running',):
            return h.cfg.node_of[id(l)]
    return node


def _a2(h, node, within):
    """outermost steps-loop header of node that still lies inside loop `within`"""
    st = h.cfg.stmt_of[node]
    lp = h.cfg.loops_of[id(st)]
    if within in lp:
        for l in lp[lp.index(within) + 1:]:
            if isinstance(l, ast.For) and ast.unparse(l.iter) == 'local_MS_running':
                return h.cfg.node_of[id(l)]
    return node


@rule('C10', 'C10.R5', 'mass-matrix transfer: restrict decided clause by clause like the base class, with its documented variations (values projected, M u - dt Q F defects on both levels, tau = coarse defect - restricted fine defect, restricted M u0 on the finest level)', floor=12)
def r5(ctx, R):
    rel, cn = SIBS[1]
    _restrict_checks(ctx, R, rel, cn, mass=True)


@rule('C10', 'C10.R6', 'the coarse sweep solves the tau-corrected problem: every sweeper that can sit on a coarse level adds tau[m] to the known terms of the node-m solve, exactly once, next to the integral (update_nodes signatures, shared with C02.R2)', floor=13)
def r6(ctx, R):
    from . import c02
    c02.r2(ctx, R)


@rule('C10', 'C10.R7', 'the collocation transfer matrices are the Lagrange interpolation matrices between the two node sets; the identity shortcut requires EQUAL node sets, not just equal counts (shared with C11.R7)', floor=4)
def r7(ctx, R):
    from . import c11
    c11.r7(ctx, R)


@rule('C10', 'C10.R8', 'node-parallel transfer: base_transfer_MPI restricts tau (own and inherited) through the same Rcoll-weighted sums as the serial class - reference normal forms incl. the Reduce payloads (shared with C08.R6)', floor=9)
def r8(ctx, R):
    from . import c08
    c08.r6(ctx, R)


@rule('C10', 'C10.R9', 'mass-matrix path: immediately after restriction the coarse defect equals the restricted fine defect only if the residual of the mass-matrix sweeper distinguishes level 0 (M(u0 - u)) from coarse levels (u0 is stored mass-weighted there: u0 - M u) - defect signature shared with C03.R1b', floor=8)
def r9(ctx, R):
    from . import c03
    c03.r1b(ctx, R)


_KRYLOV = {'cg', 'gmres', 'bicgstab', 'bicg', 'minres', 'lgmres', 'cgs', 'qmr', 'gcrotmk', 'tfqmr'}
_LINSOLVE = _KRYLOV | {'spsolve', 'solve', 'lu_solve', 'inv'}


def _derived_from(fn, seed):
    """names that (flow-insensitively) carry data of `seed`: an over-approximation, so the rule can only under-report"""
    d = {seed}
    changed = True
    while changed:
        changed = False
        for s in ast.walk(fn):
            if isinstance(s, ast.Assign):
                tg, val = s.targets, s.value
            elif isinstance(s, (ast.AugAssign, ast.AnnAssign)) and s.value is not None:
                tg, val = [s.target], s.value
            else:
                continue
            if any(isinstance(n, ast.Name) and n.id in d for n in ast.walk(val)):
                for t in tg:
                    for n in ast.walk(t):
                        if isinstance(n, ast.Name) and n.id not in d:
                            d.add(n.id)
                            changed = True
    return d


def _kw_of_call(fn, c):
    """explicit keywords of a call plus the literal keys of a `**name` argument whose dict literal is assigned in the same function"""
    kw = {k.arg: k.value for k in c.keywords if k.arg}
    for k in c.keywords:
        if k.arg is None and isinstance(k.value, ast.Name):
            for s in ast.walk(fn):
                if isinstance(s, ast.Assign) and any(isinstance(t, ast.Name) and t.id == k.value.id for t in s.targets) and isinstance(s.value, ast.Dict):
                    for kk, vv in zip(s.value.keys, s.value.values):
                        if isinstance(kk, ast.Constant) and isinstance(kk.value, str):
                            kw.setdefault(kk.value, vv)
    return kw


_R10_CONTROL = '''
class P:
    def solve_system(self, rhs, factor, u0, t):
        sol = self.u_init
        sol[:] = cg(self.Id - factor * self.A, rhs.flatten(), rtol=self.lintol)[0]
        return sol
'''


def _r10_scan(cls_name, fn):
    """-> list of (kind, lineno, callee, ok, detail) for one solve_system* function"""
    out = []
    d = _derived_from(fn, 'u0')
    par = {}
    for n in ast.walk(fn):
        for c in ast.iter_child_nodes(n):
            par[c] = n
    mentions = lambda e: e is not None and any(isinstance(m, ast.Name) and m.id in d for m in ast.walk(e))
    loops_with_solve = []
    for c in ast.walk(fn):
        if not isinstance(c, ast.Call):
            continue
        name = c.func.attr if isinstance(c.func, ast.Attribute) else getattr(c.func, 'id', None)
        if name not in _LINSOLVE:
            continue
        p, loop = c, None
        while p in par:
            p = par[p]
            if isinstance(p, (ast.While, ast.For)):
                loop = p
        if loop is not None:
            if loop not in loops_with_solve:
                loops_with_solve.append(loop)
            ok = any(mentions(a) for a in c.args)
            out.append(('newton-inner', c.lineno, name, ok, 'the system solved inside the iteration is assembled from the iterate, and the iterate starts at u0'))
        elif name in _KRYLOV:
            kw = _kw_of_call(fn, c)
            ok = mentions(kw.get('x0'))
            out.append(('krylov', c.lineno, name, ok, f"x0={ast.unparse(kw['x0']) if 'x0' in kw else 'absent'}"))
    if loops_with_solve:
        rets = [r for r in ast.walk(fn) if isinstance(r, ast.Return) and r.value is not None]
        ok = bool(rets) and all(mentions(r.value) for r in rets)
        out.append(('newton-return', fn.lineno, 'return', ok, 'every returned value carries data of u0'))
    return out


@rule('C10', 'C10.R10', "the initial guess reaches the solver: in every problem class, an iterative linear solve of solve_system (CG, GMRES, BiCGStab, ..) starts from the caller's u0 (x0=..u0..) and a Newton-type iteration around a linear solve iterates on data initialised from u0 - at the FAS fixed point the sweeper passes the solution itself as u0, and a solver that starts elsewhere returns it only to within its tolerance, not up to rounding", floor=30)
def r10(ctx, R):
    repo = ctx.repo
    # embedded positive control: a CG call without x0 must be recognised on every run
    ctl = ast.parse(_R10_CONTROL).body[0].body[0]
    got = _r10_scan('P', ctl)
    if [g[:4] for g in got] != [('krylov', got[0][1], 'cg', False)]:
        raise AnalysisError('C10.R10: the embedded control (CG without x0) is not recognised')
    n = 0
    for m, ci, fn in repo.all_functions():
        if ci is None or not m.relpath.startswith('pySDC/implementations/problem_classes/') or not fn.name.startswith('solve_system'):
            continue
        if 'u0' not in [a.arg for a in fn.args.args]:
            continue
        w = f'{m.relpath}:{ci.name}.{fn.name}'
        res = _r10_scan(ci.name, fn)
        if res:
            R.fn(w)
        for kind, line, callee, ok, detail in res:
            n += 1
            if kind == 'krylov':
                R.check(ok, f'{ci.name}.{fn.name} :: {callee}(..) outside a Newton loop starts from the initial guess u0', w, 'x0=<expression carrying u0>', detail)
            elif kind == 'newton-inner':
                R.check(ok, f'{ci.name}.{fn.name} :: {callee}(..) inside the iteration works on data carrying u0', w, detail, 'no argument of the call depends on u0')
            else:
                R.check(ok, f'{ci.name}.{fn.name} :: the iteration returns data carrying u0', w, detail, 'a returned value does not depend on u0')
    if n < 30:
        raise AnalysisError(f'C10.R10: only {n} solver sites found in the problem classes')


def _level_ranges(fn):
    out = []
    for l in ast.walk(fn):
        if isinstance(l, ast.For) and ('levels' in ast.unparse(l.iter) or 'nlevels' in ast.unparse(l.iter)) and isinstance(l.target, ast.Name) and l.target.id == 'l':
            out.append(ast.unparse(l.iter).replace('self.S.levels', 'S.levels').replace('len(S.levels)', 'NL').replace('self.nlevels', 'NL'))
    return out


def _eval_levels(text, nl):
    """the sequence of level indices a loop head visits for NL levels; only range / reversed / list over integer arithmetic in NL"""
    tree = ast.parse(text, mode='eval')
    for n in ast.walk(tree):
        ok = isinstance(n, (ast.Expression, ast.BinOp, ast.UnaryOp, ast.Add, ast.Sub, ast.USub, ast.Load, ast.Constant)) or (isinstance(n, ast.Name) and n.id in ('NL', 'range', 'reversed', 'list')) or (isinstance(n, ast.Call) and isinstance(n.func, ast.Name) and n.func.id in ('range', 'reversed', 'list') and not n.keywords)
        if not ok or (isinstance(n, ast.Constant) and not isinstance(n.value, int)):
            raise AnalysisError(f'level loop `{text}` is outside the vocabulary of C10.R11')
    return list(eval(compile(tree, '<level loop>', 'eval'), {'__builtins__': {}}, {'NL': nl, 'range': range, 'reversed': reversed, 'list': list}))


@rule('C10', 'C10.R11', 'the level hierarchy is traversed completely and alike in both controllers: the loops over levels in predict / it_down / it_up are range(1, NL) (burn-in: restrict to every coarse level), range(1, NL-1) (down: the coarsest transfer is the coarse stage), range(NL-1, 0, -1) (up: every pair down to the finest) - in controller_nonMPI and controller_MPI; a bound that is off by one skips the transfer of one level pair (its tau is never built / its correction never prolonged)', floor=8)
def r11(ctx, R):
    repo = ctx.repo
    CCD = 'pySDC/implementations/controller_classes/'
    want = {'predict': ['range(1, NL)', 'range(NL - 1, 0, -1)'], 'it_down': ['range(1, NL - 1)'], 'it_up': ['range(NL - 1, 0, -1)']}
    n = 0
    for rel, cn in ((CCD + 'controller_nonMPI.py', 'controller_nonMPI'), (CCD + 'controller_MPI.py', 'controller_MPI')):
        ci = repo.cls(rel, cn)
        for m, exp in want.items():
            fn = ci.methods.get(m)
            if fn is None:
                raise AnalysisError(f'{cn}.{m} is gone - re-confirm C10.R11')
            got = _level_ranges(fn)
            w = f'{rel}:{cn}.{m}'
            R.fn(w)
            for k, e in enumerate(exp):
                n += 1
                same = k < len(got) and all(_eval_levels(got[k], nl) == _eval_levels(e, nl) for nl in range(1, 7))
                R.check(same, f'{cn}.{m} :: level loop #{k + 1} visits the levels of {e}', w, e, got[k] if k < len(got) else 'missing')
            R.check(len(got) == len(exp), f'{cn}.{m} :: {len(exp)} loop(s) over the level hierarchy', w, exp, got)
    if n < 8:
        raise AnalysisError(f'C10.R11: only {n} level loops checked')
