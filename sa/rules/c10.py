"""rules for c10 (under construction)"""
