"""rules for c18 (under construction)"""
