"""C18 - finite-difference matrices: assembly clause only (positional pairing, wrap diagonals, parallel sort, Kronecker arity)."""

import ast
import re

from ..cfg import FuncCFG, walk_no_nested
from ..model import AnalysisError
from ..norm import Normalizer
from ..runner import rule
from .. import facts

PH = 'pySDC/helpers/problem_helper.py'


def _value_as_index_sites(fn):
    """contradiction rule: a variable bound by `for v in X` is used as a subscript of X (values used as positions).

    Also fires when v subscripts an array documented as sorted in parallel with X (same function, both returned by one call)."""
    out = []
    for st in walk_no_nested(fn):
        if not isinstance(st, ast.For) or not isinstance(st.target, ast.Name) or not isinstance(st.iter, ast.Name):
            continue
        v, X = st.target.id, st.iter.id
        for sub in ast.walk(st):
            if isinstance(sub, ast.Subscript) and isinstance(sub.value, ast.Name) and isinstance(sub.slice, ast.Name) and sub.slice.id == v and sub.value.id == X:
                out.append((st, ast.unparse(sub)))
    return out


@rule('C18', 'C18.R1', 'positional pairing: weight k is placed on the diagonal of offset k (loop over positions, same position for both arrays)', floor=2)
def r1(ctx, R):
    repo = ctx.repo
    fn = repo.func(PH, 'get_finite_difference_matrix')
    w = f'{PH}:get_finite_difference_matrix'
    R.fn(w)
    N = Normalizer(fn, inline_scalars=False)
    diag = [c for c in N.contribs if c.op == '+=' and c.terms and any('sp.eye(size, k=' in x for _, f in c.terms for x in f) and any("bc[0] == 'periodic'" in g for g in c.guards)]
    if len(diag) < 1:
        raise AnalysisError(f'{w}: periodic diagonal placement not recognised ({len(diag)} contributions)')
    for c in diag:
        (sgn, fac), = c.terms if len(c.terms) == 1 else [(0, ())]
        cf = [x for x in fac if x.startswith('coeff[')]
        ey = [x for x in fac if x.startswith('sp.eye(')]
        ok = sgn == 1 and len(cf) == 1 and len(ey) == 1
        idx = None
        if ok:
            idx = cf[0][len('coeff['):-1]
            m = re.fullmatch(r'sp\.eye\(size, k=(.*)\)', ey[0])
            k = m.group(1) if m else ''
            ok = f'steps[{idx}]' in k
            # the index must range over positions
            lp = c.loops[-1] if c.loops else None
            positional = lp is not None and (lp.kind == 'range' and str(lp.hi) in ('len(steps)', 'len(coeff)', 'n') or lp.kind == 'iter' and (lp.it.startswith('zip(') or lp.it.startswith('enumerate(')))
            ok = ok and positional
        R.check(ok, f'get_finite_difference_matrix :: periodic diagonal `{c.describe()[:70]}`', w, 'coeff[p] * eye(k=steps[p] (+wrap)) for p over positions 0..len(steps)-1', {'index': idx, 'loop': repr(c.loops[-1]) if c.loops else None})
    # general contradiction rule over the whole helper module (expected count 0)
    m = repo.module(PH)
    hits = []
    for name, f in m.functions.items():
        for st, sub in _value_as_index_sites(f):
            hits.append((name, sub))
    # positive control
    pc = ast.parse('def f(steps, coeff):\n    for i in steps:\n        g(steps[i])\n').body[0]
    if not _value_as_index_sites(pc):
        raise AnalysisError('C18.R1 positive control (values used as positions) not detected')
    R.check(not hits, 'problem_helper :: no loop variable bound by `for v in X` is used as a subscript of X', PH, 'values are not positions', hits)


@rule('C18', 'C18.R2', 'wrap diagonals: positive offset s also fills diagonal s - size, negative offset s also fills s + size', floor=2)
def r2(ctx, R):
    repo = ctx.repo
    fn = repo.func(PH, 'get_finite_difference_matrix')
    w = f'{PH}:get_finite_difference_matrix'
    R.fn(w)
    N = Normalizer(fn, inline_scalars=False)
    wr = [c for c in N.contribs if c.op == '+=' and c.terms and any('sp.eye(size, k=' in x for _, f in c.terms for x in f) and len(c.guards) >= 2]
    got = {}
    for c in wr:
        ey = [x for _, f in c.terms for x in f if x.startswith('sp.eye(')][0]
        k = re.fullmatch(r'sp\.eye\(size, k=(.*)\)', ey).group(1)
        got[c.guards[-1]] = str(N.affine(ast.parse(k, mode='eval').body))
    idx = None
    for g in got:
        m = re.match(r'steps\[(.+)\] [<>] 0', g)
        if m:
            idx = m.group(1)
    want = {f'steps[{idx}] > 0': f'-size+steps[{idx}]', f'steps[{idx}] < 0': f'size+steps[{idx}]'}
    R.check(got == want, 'get_finite_difference_matrix :: periodic wrap-around diagonals', w, want, got)
    R.check(len(wr) == 2, 'get_finite_difference_matrix :: exactly one wrap diagonal per sign', w, 2, len(wr))


@rule('C18', 'C18.R3', 'weights and offsets are sorted in parallel: coeff reordered with argsort(steps) BEFORE steps is sorted', floor=2)
def r3(ctx, R):
    repo = ctx.repo
    fn = repo.func(PH, 'get_finite_difference_stencil')
    w = f'{PH}:get_finite_difference_stencil'
    R.fn(w)
    cfg = FuncCFG(fn)
    c_sort = [n for n, s in cfg.stmt_of.items() if isinstance(s, ast.Assign) and ast.unparse(s.targets[0]) == 'coeff' and ast.unparse(s.value) == 'coeff[np.argsort(steps)]']
    s_sort = [n for n, s in cfg.stmt_of.items() if isinstance(s, ast.Assign) and ast.unparse(s.targets[0]) == 'steps' and 'sort' in ast.unparse(s.value)]
    ok = len(c_sort) == 1 and len(s_sort) == 1 and cfg.dominates(c_sort[0], s_sort[0]) and c_sort[0] != s_sort[0]
    R.check(ok, 'get_finite_difference_stencil :: coeff = coeff[argsort(steps)] precedes steps = sort(steps)', w, 'permutation taken from the UNSORTED offsets', f'{len(c_sort)} coefficient permutation(s), {len(s_sort)} offset sort(s)')
    ret = [s for s in walk_no_nested(fn) if isinstance(s, ast.Return)]
    R.check(len(ret) == 1 and ast.unparse(ret[0].value) == '(coeff, steps)', 'get_finite_difference_stencil :: returns (coeff, steps) in that order', w, '(coeff, steps)', [ast.unparse(r.value) for r in ret])


def _kron_abstract(fn, dim):
    """abstract interpretation of the dimension dispatch of get_finite_difference_matrix for a concrete `dim`: a matrix is a
    multiset of tensor-factor tuples over {'A' (the 1-d operator), 'I' (identity of one grid direction)}; kron concatenates,
    + adds multisets, sp.eye(size**k) is k identity factors.  Returns the value bound to the returned name."""
    from collections import Counter

    anchor = [i for i, st in enumerate(fn.body) if isinstance(st, ast.Assign) and ast.unparse(st) == 'A_1d = A_1d.tocsc()']
    if len(anchor) != 1:
        raise AnalysisError('get_finite_difference_matrix: `A_1d = A_1d.tocsc()` (end of the 1-d assembly) not found')
    env = {'A_1d': Counter({('A',): 1})}

    def cond(t):
        u = ast.unparse(t)
        m = re.fullmatch(r'dim == (\d+)', u)
        if m:
            return dim == int(m.group(1))
        m = re.fullmatch(r'dim in [\[(]([\d, ]+)[\])]', u)
        if m:
            return dim in [int(x) for x in m.group(1).split(',') if x.strip()]
        m = re.fullmatch(r'dim (>=|>|<=|<|!=) (\d+)', u)
        if m:
            return eval(f'{dim} {m.group(1)} {m.group(2)}')
        raise AnalysisError(f'get_finite_difference_matrix: condition `{u}` of the dimension dispatch is not understood')

    def val(n):
        if isinstance(n, ast.Name):
            if n.id in env:
                return env[n.id]
            raise AnalysisError(f'get_finite_difference_matrix: unknown matrix name {n.id} in the dimension dispatch')
        if isinstance(n, ast.Call) and ast.unparse(n.func) == 'sp.kron' and len(n.args) >= 2:
            a, b = val(n.args[0]), val(n.args[1])
            out = Counter()
            for x, cx in a.items():
                for y, cy in b.items():
                    out[x + y] += cx * cy
            return out
        if isinstance(n, ast.Call) and ast.unparse(n.func) == 'sp.eye' and n.args:
            m = re.fullmatch(r'size(?:\s*\*\*\s*(\d+))?', ast.unparse(n.args[0]))
            if not m:
                raise AnalysisError(f'get_finite_difference_matrix: identity of size `{ast.unparse(n.args[0])}` is not a power of `size`')
            return Counter({('I',) * int(m.group(1) or 1): 1})
        if isinstance(n, ast.BinOp) and isinstance(n.op, ast.Add):
            return val(n.left) + val(n.right)
        if isinstance(n, ast.Call) and isinstance(n.func, ast.Attribute) and n.func.attr in ('tocsc', 'tocsr', 'tolil', 'copy') and not n.args:
            return val(n.func.value)
        raise AnalysisError(f'get_finite_difference_matrix: `{ast.unparse(n)[:60]}` is outside the vocabulary of the Kronecker analysis')

    raised = []

    def run(stmts):
        for st in stmts:
            if isinstance(st, ast.If):
                run(st.body if cond(st.test) else st.orelse)
            elif isinstance(st, ast.Assign) and len(st.targets) == 1 and isinstance(st.targets[0], ast.Name):
                env[st.targets[0].id] = val(st.value)
            elif isinstance(st, ast.Raise):
                raised.append(ast.unparse(st)[:60])
                return
            elif isinstance(st, ast.Return):
                env['__ret__'] = ast.unparse(st.value)
                return
            elif isinstance(st, (ast.Expr, ast.Pass)):
                continue
            elif isinstance(st, ast.AugAssign) and isinstance(st.op, (ast.Div, ast.Mult)) and isinstance(st.target, ast.Name) and not any(isinstance(x, ast.Name) and x.id in env for x in ast.walk(st.value)):
                continue  # scaling by a scalar (dx ** derivative) does not change the tensor structure
            else:
                raise AnalysisError(f'get_finite_difference_matrix: statement `{ast.unparse(st)[:50]}` in the dimension dispatch is not understood')

    run(fn.body[anchor[0] + 1:])
    return env, raised


@rule('C18', 'C18.R4', 'Kronecker sum: in dimension d the assembled operator is exactly the sum over the d tensor positions of I x .. x A_1d x .. x I, each once (abstract interpretation of the dimension dispatch over tensor-factor tuples); other dimensions raise', floor=4)
def r4(ctx, R):
    from collections import Counter
    repo = ctx.repo
    fn = repo.func(PH, 'get_finite_difference_matrix')
    w = f'{PH}:get_finite_difference_matrix'
    R.fn(w)
    for d in (1, 2, 3):
        env, raised = _kron_abstract(fn, d)
        ret = env.get('__ret__', '')
        name = ret.split(',')[0].strip('() ') if ret else 'A'
        got = env.get(name)
        want = Counter({tuple('A' if i == p else 'I' for i in range(d)): 1 for p in range(d)})
        show = lambda c: sorted(' x '.join(k) + (f' (x{v})' if v != 1 else '') for k, v in (c or {}).items())
        R.check(got == want and not raised, f'dim == {d} :: operator = sum over the {d} direction(s) of the 1-d operator in that tensor position, identities elsewhere', w, show(want), show(got) if got is not None else f'nothing bound to {name!r}; raised: {raised}')
    env, raised = _kron_abstract(fn, 4)
    R.check(bool(raised), 'get_finite_difference_matrix :: other dimensions raise', w, 'raise NotImplementedError', raised or 'no raise for dim == 4')


@rule('C18', 'C18.R5', 'call sites: every library caller passes derivative, order/steps, dx, size, dim and bc by keyword (no positional mix-up) and the grid spacing of the same grid', floor=6)
def r5(ctx, R):
    repo = ctx.repo
    fn = repo.func(PH, 'get_finite_difference_matrix')
    params = [a.arg for a in fn.args.args]
    need = {'derivative', 'order', 'dx', 'size', 'dim', 'bc'}
    if not need <= set(params):
        raise AnalysisError(f'{PH}:get_finite_difference_matrix lost parameters {sorted(need - set(params))}')
    for cs in ctx.memo('call_sites', lambda: facts.call_sites(repo)):
        if cs.name != 'get_finite_difference_matrix' or cs.module.relpath == PH:
            continue
        kw = {k.arg for k in cs.call.keywords if k.arg}
        pos = len(cs.call.args)
        ok = pos == 0 and need <= kw
        R.check(ok, f'{cs.qual.split(":")[1]} :: get_finite_difference_matrix(...) passes all geometric arguments by keyword', cs.qual, sorted(need), {'positional': pos, 'keywords': sorted(kw)})


@rule('C18', 'C18.R6', 'boundary closure reaches every row whose stencil leaves the grid: -min(offsets) rows on the left, max(offsets) rows on the right', floor=2)
def r6(ctx, R):
    repo = ctx.repo
    fn = repo.func(PH, 'get_finite_difference_matrix')
    w = f'{PH}:get_finite_difference_matrix'
    R.fn(w)
    d = [s for s in walk_no_nested(fn) if isinstance(s, ast.Assign) and ast.unparse(s.targets[0]) == 'sWidth']
    ok = len(d) == 1 and isinstance(d[0].value, ast.IfExp)
    got = None
    if ok:
        v = d[0].value
        got = {'left (iS == 0)': ast.unparse(v.body) if ast.unparse(v.test) == 'iS == 0' else None, 'right': ast.unparse(v.orelse) if ast.unparse(v.test) == 'iS == 0' else None}
        if ast.unparse(v.test) == 'iS == 1':
            got = {'left (iS == 0)': ast.unparse(v.orelse), 'right': ast.unparse(v.body)}
        ok = got == {'left (iS == 0)': '-min(steps)', 'right': 'max(steps)'}
    R.check(ok, 'get_finite_difference_matrix :: number of closed rows per side = how far the stencil reaches beyond that side', w, {'left (iS == 0)': '-min(steps)', 'right': 'max(steps)'}, got if got else [ast.unparse(s) for s in d])
    loops = [l for l in walk_no_nested(fn) if isinstance(l, ast.For) and ast.unparse(l.iter) == 'range(sWidth)']
    R.check(len(loops) == 1, 'get_finite_difference_matrix :: one closure per such row', w, 'for i in range(sWidth)', len(loops))


class _Vec(list):
    def __sub__(self, k):
        return _Vec(x - k for x in self)

    def __add__(self, k):
        return _Vec(x + k for x in self) if isinstance(k, int) else _Vec(list(self) + list(k))

    def __neg__(self):
        return _Vec(-x for x in self)


def _enum_centre(arm):
    """evaluate the assignments of the centre arm (integers, np.arange, len) for small derivative/order"""
    def ev(n, env):
        if isinstance(n, ast.Constant) and isinstance(n.value, int):
            return n.value
        if isinstance(n, ast.Name):
            if n.id in env:
                return env[n.id]
            raise AnalysisError(f'get_steps: unknown name {n.id}')
        if isinstance(n, ast.UnaryOp) and isinstance(n.op, ast.USub):
            return -ev(n.operand, env)
        if isinstance(n, ast.BinOp):
            a, b = ev(n.left, env), ev(n.right, env)
            op = type(n.op)
            if op is ast.Add:
                return a + b
            if op is ast.Sub:
                return a - b
            if op is ast.Mult:
                return a * b
            if op is ast.FloorDiv:
                return a // b
            if op is ast.Mod:
                return a % b
        if isinstance(n, ast.Call) and ast.unparse(n.func) == 'np.arange' and not n.keywords and 1 <= len(n.args) <= 2:
            v = [ev(a, env) for a in n.args]
            return _Vec(range(*v))
        if isinstance(n, ast.Call) and ast.unparse(n.func) == 'len' and len(n.args) == 1:
            return len(ev(n.args[0], env))
        if isinstance(n, ast.Call) and ast.unparse(n.func) in ('max', 'min') and not n.keywords and n.args:
            vals = [ev(a, env) for a in n.args]
            return max(vals) if ast.unparse(n.func) == 'max' else min(vals)
        raise AnalysisError(f'get_steps: cannot evaluate {ast.unparse(n)}')

    bad = []
    for der in range(1, 5):
        for order in range(1, 9):
            env = {'derivative': der, 'order': order}
            try:
                for st in arm.body:
                    if isinstance(st, ast.Assign) and isinstance(st.targets[0], ast.Name):
                        env[st.targets[0].id] = ev(st.value, env)
            except (ZeroDivisionError, IndexError, ValueError) as ex:
                bad.append(f'derivative={der}, order={order}: {type(ex).__name__}')
                continue
            steps, n = env.get('steps'), env.get('n')
            want_n = der + order - (1 if der % 2 == 0 else 0)
            if not isinstance(steps, list) or n != len(steps) or n != want_n or list(steps) != list(range(-(want_n // 2), want_n - want_n // 2)):
                bad.append(f'derivative={der}, order={order}: n={n}, offsets={list(steps) if isinstance(steps, list) else steps} (expected {want_n} points {list(range(-(want_n // 2), want_n - want_n // 2))})')
            if len(bad) >= 3:
                return False, bad
    return (not bad), (bad or ['32 (derivative, order) cases give the centred layout'])


@rule('C18', 'C18.R7', 'centred layout: number of stencil points = derivative + order - [derivative even] (symbolic parity analysis; finite enumeration when written differently), offsets centred', floor=1)
def r7(ctx, R):
    import sympy as sp

    repo = ctx.repo
    fn = repo.func(PH, 'get_steps')
    w = f'{PH}:get_steps'
    R.fn(w)
    arm = None
    for s in walk_no_nested(fn):
        if isinstance(s, ast.If) and ast.unparse(s.test) == "stencil_type == 'center'":
            arm = s
    if arm is None:
        raise AnalysisError(f'{w}: centre arm not found')
    defs = {ast.unparse(s.targets[0]): s.value for s in arm.body if isinstance(s, ast.Assign)}
    if 'n' not in defs or 'steps' not in defs:
        raise AnalysisError(f'{w}: n / steps not defined in the centre arm')
    k, o = sp.symbols('k order', integer=True, nonnegative=True)

    def conv(node, der):
        if isinstance(node, ast.Constant) and isinstance(node.value, int):
            return sp.Integer(node.value)
        if isinstance(node, ast.Name):
            if node.id == 'derivative':
                return der
            if node.id == 'order':
                return o
            raise AnalysisError(f'get_steps: unknown name {node.id}')
        if isinstance(node, ast.BinOp):
            a, b = conv(node.left, der), conv(node.right, der)
            op = type(node.op)
            if op is ast.Add:
                return a + b
            if op is ast.Sub:
                return a - b
            if op is ast.Mult:
                return a * b
            if op is ast.Mod:
                return sp.Mod(a, b)
            if op is ast.FloorDiv:
                return sp.floor(a / b)
        raise AnalysisError(f'get_steps: cannot read {ast.unparse(node)}')

    try:
        even = sp.simplify(conv(defs['n'], 2 * k) - o - 2 * k)
        odd = sp.simplify(conv(defs['n'], 2 * k + 1) - o - (2 * k + 1))
        if ast.unparse(defs['steps']) != 'np.arange(n) - n // 2':
            raise AnalysisError('offsets are not written as np.arange(n) - n // 2')
    except AnalysisError as e:
        # another way of writing the centred layout: finite case analysis of the extracted integer expressions (derivative 1..4, order 1..8)
        ok_, detail = _enum_centre(arm)
        R.check(ok_, 'get_steps :: centre: derivative + order - [derivative even] consecutive offsets around 0, for derivative 1..4 and order 1..8', w, f'finite enumeration (the symbolic parity analysis does not apply: {str(e)[:70]})', detail)
        return
    R.check(even == -1 and odd == 0, 'get_steps :: centre: n - (derivative + order) is -1 for even and 0 for odd derivatives', w, {'even derivative': -1, 'odd derivative': 0}, {'even derivative': str(even), 'odd derivative': str(odd), 'n': ast.unparse(defs['n'])})
    R.check(ast.unparse(defs['steps']) == 'np.arange(n) - n // 2', 'get_steps :: centre: offsets are 0..n-1 shifted by n // 2', w, 'np.arange(n) - n // 2', ast.unparse(defs['steps']))


MUTATORS = ('update', 'setdefault', 'pop', 'popitem', 'clear', 'append', 'extend', 'insert', 'remove')


def _table_mutations(fn):
    """(tables, mutations): names bound to a NON-EMPTY dict display before a loop and read inside that loop, and the in-place
    changes of such a name inside the loop (mutating call, subscript store, augmented assignment, rebinding)"""
    tables, muts = [], []
    binds = {}
    for s in walk_no_nested(fn):
        if isinstance(s, ast.Assign) and len(s.targets) == 1 and isinstance(s.targets[0], ast.Name) and isinstance(s.value, ast.Dict) and s.value.keys:
            binds.setdefault(s.targets[0].id, s)
    for l in walk_no_nested(fn):
        if not isinstance(l, (ast.For, ast.While)):
            continue
        inner = list(ast.walk(l))
        for name, b in binds.items():
            if b.lineno >= l.lineno or not any(isinstance(x, ast.Name) and x.id == name for x in inner):
                continue
            tables.append((name, l.lineno))
            for x in inner:
                if isinstance(x, ast.Call) and isinstance(x.func, ast.Attribute) and x.func.attr in MUTATORS and isinstance(x.func.value, ast.Name) and x.func.value.id == name:
                    muts.append(f'line {x.lineno}: {ast.unparse(x)[:70]}')
                tg = x.targets if isinstance(x, ast.Assign) else [x.target] if isinstance(x, ast.AugAssign) else []
                for t in tg:
                    bb = t
                    while isinstance(bb, ast.Subscript):
                        bb = bb.value
                    if isinstance(bb, ast.Name) and bb.id == name:
                        muts.append(f'line {x.lineno}: {ast.unparse(x)[:70]}')
    return tables, muts


_CONTROL_TABLE = "def f(sides):\n    defaults = {'val': 0.0}\n    out = []\n    for s in sides:\n        defaults.update(s)\n        out.append(defaults.copy())\n    return out\n"


@rule('C18', 'C18.R8', 'the two sides of the boundary closure are parametrised independently: a table of default parameters bound before the loop over the sides is only READ inside it (merged into a new dict per side) - an in-place update would carry the left side\'s value / reduce / order over to the right side', floor=1)
def r8(ctx, R):
    repo = ctx.repo
    t, m = _table_mutations(ast.parse(_CONTROL_TABLE).body[0])
    R.check(bool(t) and len(m) == 1, 'positive control :: a defaults table updated inside the loop is recognised in the embedded example', 'sa/rules/c18.py:_CONTROL_TABLE', 'one in-loop mutation', m)
    n = 0
    for mod, ci, fn in repo.all_functions():
        if mod.relpath != PH:
            continue
        tables, muts = _table_mutations(fn)
        for name, ln in tables:
            n += 1
            w = f'{PH}:{fn.name}'
            R.fn(w)
            mine = [x for x in muts if re.search(rf'\b{name}\b', x)]
            R.check(not mine, f'{fn.name} :: the table `{name}` is not modified inside the loop that reads it (line {ln})', w, 'read-only use: {**table, **given} / table.copy()', mine)
    if not n:
        raise AnalysisError('C18.R8: the confirmed defaults table (bc_params_defaults in get_finite_difference_matrix) not found')


@rule('C18', 'C18.R9', 'caches of stencils / assembled operators are keyed by EVERYTHING the cached object depends on (derivative, order, stencil type, boundary treatment, side) and a cached boundary stencil is only reused where the condition it was built under holds - an "assemble once" optimisation with a short key silently hands one problem the matrix of another', floor=2)
def r9(ctx, R):
    from .. import memo
    memo.check(ctx, R, lambda m: m.relpath in (PH, 'pySDC/implementations/problem_classes/generic_ND_FD.py'), 'problem_helper.py + generic_ND_FD.py')


@rule('C18', 'C18.R10', 'weights and offsets travel together: every caller of get_finite_difference_stencil takes BOTH returned arrays (the function sorts the offsets and reorders the weights with them) and uses the returned offsets afterwards - placing the sorted weights on the offsets it passed in puts them on the wrong diagonals for backward / upwind / unsorted stencils', floor=4)
def r10(ctx, R):
    repo = ctx.repo
    n = 0
    for m, ci, fn in repo.all_functions():
        for s in walk_no_nested(fn):
            calls = [c for c in ast.walk(s) if isinstance(c, ast.Call) and (ast.unparse(c.func).split('.')[-1] == 'get_finite_difference_stencil')] if isinstance(s, (ast.Assign, ast.Expr, ast.Return, ast.AugAssign)) else []
            if not calls:
                continue
            n += 1
            w = f'{m.relpath}:{(ci.name + ".") if ci else ""}{fn.name}'
            R.fn(w)
            ok, found = False, ast.unparse(s)[:70]
            passed = next((k.value.id for k in calls[0].keywords if k.arg == 'steps' and isinstance(k.value, ast.Name)), None)
            if isinstance(s, ast.Assign) and len(s.targets) == 1 and isinstance(s.targets[0], ast.Tuple) and len(s.targets[0].elts) == 2 and all(isinstance(e, ast.Name) for e in s.targets[0].elts) and s.value is calls[0]:
                off = s.targets[0].elts[1].id
                if passed is None:
                    ok, found = True, f'offsets bound to `{off}` (none were passed in)'
                else:
                    later = [x for x in ast.walk(fn) if isinstance(x, ast.Name) and x.id == passed and isinstance(x.ctx, ast.Load) and x.lineno > s.end_lineno]
                    ok = off == passed or not later
                    found = f'offsets passed as `{passed}`, returned ones bound to `{off}`, `{passed}` read {len(later)} time(s) afterwards'
            R.check(ok, f'{fn.name} :: the offsets returned with the weights are the ones used (line {s.lineno})', w, 'the offsets handed in are rebound to the returned (sorted) ones, or never read again', found)
    if n < 4:
        raise AnalysisError(f'C18.R10: only {n} callers of get_finite_difference_stencil found')


@rule('C18', 'C18.R11', 'every boundary parameter that is taken out of the per-side dictionary is USED: val, reduce and neumann_bc_order are read after they were popped (a closure built with the interior order instead of neumann_bc_order silently ignores the option)', floor=3)
def r11(ctx, R):
    repo = ctx.repo
    fn = repo.func(PH, 'get_finite_difference_matrix')
    w = f'{PH}:get_finite_difference_matrix'
    R.fn(w)
    n = 0
    for s in walk_no_nested(fn):
        if isinstance(s, ast.Assign) and len(s.targets) == 1 and isinstance(s.targets[0], ast.Name) and isinstance(s.value, ast.Call) and isinstance(s.value.func, ast.Attribute) and s.value.func.attr == 'pop' and s.value.args and isinstance(s.value.args[0], ast.Constant):
            n += 1
            name = s.targets[0].id
            uses = [x for x in ast.walk(fn) if isinstance(x, ast.Name) and x.id == name and isinstance(x.ctx, ast.Load) and x.lineno > s.lineno]
            # following one renaming (nOrder = neumann_bc_order)
            for a in walk_no_nested(fn):
                if isinstance(a, ast.Assign) and isinstance(a.value, ast.Name) and a.value.id == name and isinstance(a.targets[0], ast.Name):
                    al = a.targets[0].id
                    uses = [u for u in uses if u is not a.value] + [x for x in ast.walk(fn) if isinstance(x, ast.Name) and x.id == al and isinstance(x.ctx, ast.Load) and x.lineno > a.lineno]
            real = [u for u in uses]
            R.check(bool(real), f'get_finite_difference_matrix :: the option {s.value.args[0].value!r} (popped into `{name}`) is used', w, 'at least one later read', f'{len(real)} read(s)')
    # the Neumann closure is built with exactly the requested order (not min / max / a function of it)
    cl = [c for c in ast.walk(fn) if isinstance(c, ast.Call) and ast.unparse(c.func).split('.')[-1] == 'get_finite_difference_stencil' and any(k.arg == 'derivative' and ast.unparse(k.value) == '1' for k in c.keywords) and any(k.arg == 'stencil_type' and 'forward' in ast.unparse(k.value) for k in c.keywords)]
    vals = []
    for c in cl:
        v = next((k.value for k in c.keywords if k.arg == 'order'), None)
        txt = ast.unparse(v) if v is not None else None
        if isinstance(v, ast.Name):
            defs = [a.value for a in walk_no_nested(fn) if isinstance(a, ast.Assign) and len(a.targets) == 1 and isinstance(a.targets[0], ast.Name) and a.targets[0].id == v.id]
            if len(defs) == 1 and not (isinstance(defs[0], ast.Call) and ast.unparse(defs[0].func).endswith('.pop')):
                txt = ast.unparse(defs[0])
            elif len(defs) == 1:
                txt = v.id
        vals.append(txt)
    R.check(len(cl) == 1 and vals == ['neumann_bc_order'], 'get_finite_difference_matrix :: the one-sided Neumann closure is built with order = neumann_bc_order', w, 'get_finite_difference_stencil(derivative=1, order=neumann_bc_order, ..)', vals)
    if n < 3:
        raise AnalysisError(f'C18.R11: only {n} popped boundary options found')
