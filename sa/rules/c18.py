"""C18 - finite-difference matrices: assembly clause only (positional pairing, wrap diagonals, parallel sort, Kronecker arity)."""

import ast
import re

from ..cfg import FuncCFG, walk_no_nested
from ..model import AnalysisError
from ..norm import Normalizer
from ..runner import rule
from .. import facts

PH = 'pySDC/helpers/problem_helper.py'


def _value_as_index_sites(fn):
    """contradiction rule: a variable bound by `for v in X` is used as a subscript of X (values used as positions).

    Also fires when v subscripts an array documented as sorted in parallel with X (same function, both returned by one call)."""
    out = []
    for st in walk_no_nested(fn):
        if not isinstance(st, ast.For) or not isinstance(st.target, ast.Name) or not isinstance(st.iter, ast.Name):
            continue
        v, X = st.target.id, st.iter.id
        for sub in ast.walk(st):
            if isinstance(sub, ast.Subscript) and isinstance(sub.value, ast.Name) and isinstance(sub.slice, ast.Name) and sub.slice.id == v and sub.value.id == X:
                out.append((st, ast.unparse(sub)))
    return out


@rule('C18', 'C18.R1', 'positional pairing: weight k is placed on the diagonal of offset k (loop over positions, same position for both arrays)', floor=2)
def r1(ctx, R):
    repo = ctx.repo
    fn = repo.func(PH, 'get_finite_difference_matrix')
    w = f'{PH}:get_finite_difference_matrix'
    R.fn(w)
    N = Normalizer(fn, inline_scalars=False)
    diag = [c for c in N.contribs if c.op == '+=' and c.terms and any('sp.eye(size, k=' in x for _, f in c.terms for x in f) and any("bc[0] == 'periodic'" in g for g in c.guards)]
    if len(diag) < 1:
        raise AnalysisError(f'{w}: periodic diagonal placement not recognised ({len(diag)} contributions)')
    for c in diag:
        (sgn, fac), = c.terms if len(c.terms) == 1 else [(0, ())]
        cf = [x for x in fac if x.startswith('coeff[')]
        ey = [x for x in fac if x.startswith('sp.eye(')]
        ok = sgn == 1 and len(cf) == 1 and len(ey) == 1
        idx = None
        if ok:
            idx = cf[0][len('coeff['):-1]
            m = re.fullmatch(r'sp\.eye\(size, k=(.*)\)', ey[0])
            k = m.group(1) if m else ''
            ok = f'steps[{idx}]' in k
            # the index must range over positions
            lp = c.loops[-1] if c.loops else None
            positional = lp is not None and (lp.kind == 'range' and str(lp.hi) in ('len(steps)', 'len(coeff)', 'n') or lp.kind == 'iter' and (lp.it.startswith('zip(') or lp.it.startswith('enumerate(')))
            ok = ok and positional
        R.check(ok, f'get_finite_difference_matrix :: periodic diagonal `{c.describe()[:70]}`', w, 'coeff[p] * eye(k=steps[p] (+wrap)) for p over positions 0..len(steps)-1', {'index': idx, 'loop': repr(c.loops[-1]) if c.loops else None})
    # general contradiction rule over the whole helper module (expected count 0)
    m = repo.module(PH)
    hits = []
    for name, f in m.functions.items():
        for st, sub in _value_as_index_sites(f):
            hits.append((name, sub))
    # positive control
    pc = ast.parse('def f(steps, coeff):\n    for i in steps:\n        g(steps[i])\n').body[0]
    if not _value_as_index_sites(pc):
        raise AnalysisError('C18.R1 positive control (values used as positions) not detected')
    R.check(not hits, 'problem_helper :: no loop variable bound by `for v in X` is used as a subscript of X', PH, 'values are not positions', hits)


@rule('C18', 'C18.R2', 'wrap diagonals: positive offset s also fills diagonal s - size, negative offset s also fills s + size', floor=2)
def r2(ctx, R):
    repo = ctx.repo
    fn = repo.func(PH, 'get_finite_difference_matrix')
    w = f'{PH}:get_finite_difference_matrix'
    R.fn(w)
    N = Normalizer(fn, inline_scalars=False)
    wr = [c for c in N.contribs if c.op == '+=' and c.terms and any('sp.eye(size, k=' in x for _, f in c.terms for x in f) and len(c.guards) >= 2]
    got = {}
    for c in wr:
        ey = [x for _, f in c.terms for x in f if x.startswith('sp.eye(')][0]
        k = re.fullmatch(r'sp\.eye\(size, k=(.*)\)', ey).group(1)
        got[c.guards[-1]] = str(N.affine(ast.parse(k, mode='eval').body))
    idx = None
    for g in got:
        m = re.match(r'steps\[(.+)\] [<>] 0', g)
        if m:
            idx = m.group(1)
    want = {f'steps[{idx}] > 0': f'-size+steps[{idx}]', f'steps[{idx}] < 0': f'size+steps[{idx}]'}
    R.check(got == want, 'get_finite_difference_matrix :: periodic wrap-around diagonals', w, want, got)
    R.check(len(wr) == 2, 'get_finite_difference_matrix :: exactly one wrap diagonal per sign', w, 2, len(wr))


@rule('C18', 'C18.R3', 'weights and offsets are sorted in parallel: coeff reordered with argsort(steps) BEFORE steps is sorted', floor=2)
def r3(ctx, R):
    repo = ctx.repo
    fn = repo.func(PH, 'get_finite_difference_stencil')
    w = f'{PH}:get_finite_difference_stencil'
    R.fn(w)
    cfg = FuncCFG(fn)
    c_sort = [n for n, s in cfg.stmt_of.items() if isinstance(s, ast.Assign) and ast.unparse(s.targets[0]) == 'coeff' and ast.unparse(s.value) == 'coeff[np.argsort(steps)]']
    s_sort = [n for n, s in cfg.stmt_of.items() if isinstance(s, ast.Assign) and ast.unparse(s.targets[0]) == 'steps' and 'sort' in ast.unparse(s.value)]
    ok = len(c_sort) == 1 and len(s_sort) == 1 and cfg.dominates(c_sort[0], s_sort[0]) and c_sort[0] != s_sort[0]
    R.check(ok, 'get_finite_difference_stencil :: coeff = coeff[argsort(steps)] precedes steps = sort(steps)', w, 'permutation taken from the UNSORTED offsets', f'{len(c_sort)} coefficient permutation(s), {len(s_sort)} offset sort(s)')
    ret = [s for s in walk_no_nested(fn) if isinstance(s, ast.Return)]
    R.check(len(ret) == 1 and ast.unparse(ret[0].value) == '(coeff, steps)', 'get_finite_difference_stencil :: returns (coeff, steps) in that order', w, '(coeff, steps)', [ast.unparse(r.value) for r in ret])


@rule('C18', 'C18.R4', 'Kronecker sum: dimension d has exactly d terms, A_1d once per term in a distinct position, identities of complementary size', floor=3)
def r4(ctx, R):
    repo = ctx.repo
    fn = repo.func(PH, 'get_finite_difference_matrix')
    w = f'{PH}:get_finite_difference_matrix'
    R.fn(w)
    N = Normalizer(fn, inline_scalars=False)
    arms = {}
    for c in N.contribs:
        if c.target == 'A' and c.op == '=' and c.guards:
            m = re.search(r'dim == (\d)', c.guards[-1])
            if m:
                arms[int(m.group(1))] = c
    if sorted(arms) != [1, 2, 3]:
        raise AnalysisError(f'{w}: dim dispatch arms {sorted(arms)} != [1, 2, 3]')

    def flat(node):
        """kron(a, kron(b, c)) -> [a, b, c] as strings"""
        if isinstance(node, ast.Call) and ast.unparse(node.func) == 'sp.kron':
            return flat(node.args[0]) + flat(node.args[1])
        return [ast.unparse(node)]

    def terms(node):
        if isinstance(node, ast.BinOp) and isinstance(node.op, ast.Add):
            return terms(node.left) + terms(node.right)
        return [node]

    R.check(arms[1].rhs == 'A_1d', 'dim == 1 :: A = A_1d', w, 'A_1d', arms[1].rhs)
    for d in (2, 3):
        ts = [flat(t) for t in terms(arms[d].stmt.value)]
        pos = sorted(t.index('A_1d') for t in ts if t.count('A_1d') == 1)
        sizes_ok = True
        for t in ts:
            # product of identity sizes must be size**(d-1)
            exps = 0
            for x in t:
                if x == 'A_1d':
                    continue
                m = re.fullmatch(r'sp\.eye\(size(?:\s*\*\*\s*(\d+))?\)', x)
                if not m:
                    sizes_ok = False
                    break
                exps += int(m.group(1) or 1)
            sizes_ok &= exps == d - 1
        # positions measured in units of `size`
        def unit_pos(t):
            p = 0
            for x in t:
                if x == 'A_1d':
                    return p
                m = re.fullmatch(r'sp\.eye\(size(?:\s*\*\*\s*(\d+))?\)', x)
                p += int(m.group(1) or 1) if m else 0
            return None
        ups = sorted(unit_pos(t) for t in ts)
        ok = len(ts) == d and all(t.count('A_1d') == 1 for t in ts) and ups == list(range(d)) and sizes_ok
        R.check(ok, f'dim == {d} :: {d} Kronecker terms, A_1d in {d} distinct tensor positions, identities of total size size**{d - 1}', w, f'positions {list(range(d))}', {'terms': ts, 'positions': ups})
    ch = [c for c in facts.dispatch_chains(fn) if c['subject'] == 'dim']
    els = [s for s in walk_no_nested(fn) if isinstance(s, ast.Raise) and 'Dimension' in ast.unparse(s)]
    R.check(bool(els), 'get_finite_difference_matrix :: other dimensions raise', w, 'raise NotImplementedError', [ast.unparse(e)[:60] for e in els])


@rule('C18', 'C18.R5', 'call sites: every library caller passes derivative, order/steps, dx, size, dim and bc by keyword (no positional mix-up) and the grid spacing of the same grid', floor=6)
def r5(ctx, R):
    repo = ctx.repo
    fn = repo.func(PH, 'get_finite_difference_matrix')
    params = [a.arg for a in fn.args.args]
    need = {'derivative', 'order', 'dx', 'size', 'dim', 'bc'}
    if not need <= set(params):
        raise AnalysisError(f'{PH}:get_finite_difference_matrix lost parameters {sorted(need - set(params))}')
    for cs in ctx.memo('call_sites', lambda: facts.call_sites(repo)):
        if cs.name != 'get_finite_difference_matrix' or cs.module.relpath == PH:
            continue
        kw = {k.arg for k in cs.call.keywords if k.arg}
        pos = len(cs.call.args)
        ok = pos == 0 and need <= kw
        R.check(ok, f'{cs.qual.split(":")[1]} :: get_finite_difference_matrix(...) passes all geometric arguments by keyword', cs.qual, sorted(need), {'positional': pos, 'keywords': sorted(kw)})


@rule('C18', 'C18.R6', 'boundary closure reaches every row whose stencil leaves the grid: -min(offsets) rows on the left, max(offsets) rows on the right', floor=2)
def r6(ctx, R):
    repo = ctx.repo
    fn = repo.func(PH, 'get_finite_difference_matrix')
    w = f'{PH}:get_finite_difference_matrix'
    R.fn(w)
    d = [s for s in walk_no_nested(fn) if isinstance(s, ast.Assign) and ast.unparse(s.targets[0]) == 'sWidth']
    ok = len(d) == 1 and isinstance(d[0].value, ast.IfExp)
    got = None
    if ok:
        v = d[0].value
        got = {'left (iS == 0)': ast.unparse(v.body) if ast.unparse(v.test) == 'iS == 0' else None, 'right': ast.unparse(v.orelse) if ast.unparse(v.test) == 'iS == 0' else None}
        if ast.unparse(v.test) == 'iS == 1':
            got = {'left (iS == 0)': ast.unparse(v.orelse), 'right': ast.unparse(v.body)}
        ok = got == {'left (iS == 0)': '-min(steps)', 'right': 'max(steps)'}
    R.check(ok, 'get_finite_difference_matrix :: number of closed rows per side = how far the stencil reaches beyond that side', w, {'left (iS == 0)': '-min(steps)', 'right': 'max(steps)'}, got if got else [ast.unparse(s) for s in d])
    loops = [l for l in walk_no_nested(fn) if isinstance(l, ast.For) and ast.unparse(l.iter) == 'range(sWidth)']
    R.check(len(loops) == 1, 'get_finite_difference_matrix :: one closure per such row', w, 'for i in range(sWidth)', len(loops))


@rule('C18', 'C18.R7', 'centred layout: number of stencil points = derivative + order - [derivative even] (symbolic parity analysis), offsets centred', floor=2)
def r7(ctx, R):
    import sympy as sp

    repo = ctx.repo
    fn = repo.func(PH, 'get_steps')
    w = f'{PH}:get_steps'
    R.fn(w)
    arm = None
    for s in walk_no_nested(fn):
        if isinstance(s, ast.If) and ast.unparse(s.test) == "stencil_type == 'center'":
            arm = s
    if arm is None:
        raise AnalysisError(f'{w}: centre arm not found')
    defs = {ast.unparse(s.targets[0]): s.value for s in arm.body if isinstance(s, ast.Assign)}
    if 'n' not in defs or 'steps' not in defs:
        raise AnalysisError(f'{w}: n / steps not defined in the centre arm')
    k, o = sp.symbols('k order', integer=True, nonnegative=True)

    def conv(node, der):
        if isinstance(node, ast.Constant) and isinstance(node.value, int):
            return sp.Integer(node.value)
        if isinstance(node, ast.Name):
            if node.id == 'derivative':
                return der
            if node.id == 'order':
                return o
            raise AnalysisError(f'get_steps: unknown name {node.id}')
        if isinstance(node, ast.BinOp):
            a, b = conv(node.left, der), conv(node.right, der)
            op = type(node.op)
            if op is ast.Add:
                return a + b
            if op is ast.Sub:
                return a - b
            if op is ast.Mult:
                return a * b
            if op is ast.Mod:
                return sp.Mod(a, b)
            if op is ast.FloorDiv:
                return sp.floor(a / b)
        raise AnalysisError(f'get_steps: cannot read {ast.unparse(node)}')

    even = sp.simplify(conv(defs['n'], 2 * k) - o - 2 * k)
    odd = sp.simplify(conv(defs['n'], 2 * k + 1) - o - (2 * k + 1))
    R.check(even == -1 and odd == 0, 'get_steps :: centre: n - (derivative + order) is -1 for even and 0 for odd derivatives', w, {'even derivative': -1, 'odd derivative': 0}, {'even derivative': str(even), 'odd derivative': str(odd), 'n': ast.unparse(defs['n'])})
    R.check(ast.unparse(defs['steps']) == 'np.arange(n) - n // 2', 'get_steps :: centre: offsets are 0..n-1 shifted by n // 2', w, 'np.arange(n) - n // 2', ast.unparse(defs['steps']))
