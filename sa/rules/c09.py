"""rules for c09 (under construction)"""
